"""Cheaper Coq evaluation for C07: most of coqc's time goes into elaborating the literals of the generated terms, and the
scenarios of one description (joint run, permuted joint runs, solo runs, merge-theorem instances) repeat the same stream /
history / configuration literals many times.  `failing_shared` evaluates boolean terms like common.Run.coq_failing, but
writes every literal that occurs more than once in a chunk as a Definition of the chunk's file and refers to it by name.
The terms evaluated are the same terms (delta-equal); nothing else changes."""
import re
from concurrent.futures import ThreadPoolExecutor
from common import parse_nat_list

IDS = [(n, "[" + "; ".join("%d%%nat" % i for i in range(n)) + "]") for n in range(8, 1, -1)]


def share(terms, cands):
    """terms: list of strings; cands: literal strings, inner-most kind first (streams before histories).  Returns (defs, terms)"""
    defs = []
    text = list(terms)
    n = 0
    done = {}
    cands = list(dict.fromkeys(cands))
    for ci, lit in enumerate(cands):
        cur = lit
        for old, name in done.items():          # earlier definitions may occur inside this literal
            if old in cur:
                cur = cur.replace(old, name)
        cnt = sum(t.count(cur) for t in text) if len(cur) > 40 else 0
        if cnt < 2:
            continue
        name = "sh%d" % n; n += 1
        defs.append("Definition %s := %s." % (name, cur))
        text = [t.replace(cur, name) for t in text]
        done[cur] = name
        done[lit] = name
    out_defs = []
    for k, lit in IDS:
        nm = "ids%d" % k
        used = False
        new = []
        for t in text:
            if lit in t:
                used = True; t = t.replace(lit, nm)
            new.append(t)
        text = new
        nd = []
        for d in defs:
            if lit in d:
                used = True; d = d.replace(lit, nm)
            nd.append(d)
        defs = nd
        if used:
            out_defs.append("Definition %s : list nat := %s." % (nm, lit))
    return out_defs + defs, text


def failing_shared(run, header, terms, cands_of, bounds, jobs=12, name="shared"):
    """bounds: list of (start, end) index ranges - the chunks (scenarios of one description stay together);
    cands_of(i0, i1) -> candidate literals for that chunk."""
    if not terms:
        return []

    def one(b):
        i0, i1 = b
        defs, ts = share(terms[i0:i1], cands_of(i0, i1))
        src = header + "\n" + "\n".join(defs) + "\nDefinition results : list bool := [\n" + ";\n".join(ts) + "\n].\n" \
            "Eval vm_compute in failing results.\n"
        out = run.coqc_text("%s%d" % (name, i0), src)
        return [i0 + k for k in parse_nat_list(out)]
    bad = []
    with ThreadPoolExecutor(max_workers=jobs) as ex:
        for r in ex.map(one, bounds):
            bad.extend(r)
    return sorted(bad)


def bounds_by_group(groups, target):
    """groups: list of group ids per term (non-decreasing); chunks of about [target] terms that do not split a group"""
    out, start = [], 0
    n = len(groups)
    i = 0
    while i < n:
        j = i
        while j < n and groups[j] == groups[i]:
            j += 1
        if j - start >= target:
            out.append((start, j)); start = j
        i = j
    if start < n:
        out.append((start, n))
    return out


# ---- scheduler scenarios (C07 merge / mid-phase parts) -------------------------------------------------------------
def finalize_group(G, scs, ref):
    """finalize the scenarios of one description on ONE unit grid (the one of [ref]: a scenario that contains every stream), so that
    the same stream has the same literal in the joint run, the permuted runs and the solo runs"""
    out = []
    for sc in scs:
        tmp = dict(sc)
        tmp["_same_grid"] = {"ops": ref["ops"], "callbacks": ref.get("callbacks", [])}
        f = G.finalize(tmp)
        del f["_same_grid"]
        out.append(f)
    assert len(set(f["U"] for f in out)) == 1
    return out


def scenario_literals(S, sc):
    """the literals of a finalized scenario worth sharing: streams first, then configuration and history"""
    inner, outer = [], []

    def ops(l):
        for o in l:
            if o[0] in ("schedule",):
                inner.append(S.coq_stream(o[1]))
            elif o[0] == "update":
                inner.append(S.coq_stream(o[2]))
    ops(sc["ops"])
    for cb in sc.get("callbacks", []):
        ops(cb["ops"])
    outer.append(S.coq_config(sc)); outer.append(S.coq_history(sc))
    return inner, outer


def model_disagreements_shared(run, S, scenarios, results, groups, target=30, name="agree"):
    """sched_common.model_disagreements with shared literals; scenarios of one group stay in one chunk"""
    terms = []
    for sc, r in zip(scenarios, results):
        if "driver_error" in r or not S.obs_well_typed(r["obs"]):
            terms.append("false")
        else:
            terms.append(S.agrees_term(sc, r["obs"]))

    def cands(i0, i1):
        inner, outer = [], []
        for sc in scenarios[i0:i1]:
            a, b = scenario_literals(S, sc)
            inner += a; outer += b
        return inner + outer
    bad = failing_shared(run, S.HEADER, terms, cands, bounds_by_group(groups, target), name=name)
    if bad:
        probe = ["out_of_fuel %s %s" % (S.coq_config(scenarios[i]), S.coq_history(scenarios[i])) if terms[i] != "false" else "false" for i in bad]
        spent = set(run.coq_failing(S.HEADER, ["negb (%s)" % t for t in probe], chunk=40))
        keep = []
        for j, i in enumerate(bad):
            if j in spent:
                run.discard("model-out-of-fuel")
            else:
                keep.append(i)
        bad = keep
    return bad

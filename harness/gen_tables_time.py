#!/venv/bin/python
"""Translator: the floating-point expressions by which isobar advances musical time, read from the SOURCE TEXT of the
repository under test with `ast`, rendered as Coq terms over Flocq's binary64 rounding -> coq/Generated/TablesTime.v.

  Timeline.tick_duration  (property)          -> src_tick_duration  tpb     : R
  Timeline.tick:  self.current_time = ...     -> src_timeline_step  tpb t   : R
  Track.tick:     self.current_time = ...     -> src_track_step     tpb t   : R

Semantics used by the translation (CPython on IEEE-754 binary64, round-to-nearest-even):
  * a float literal / int->float conversion of the small integers involved is exact;
  * `a + b`, `a * b`, `a / b` with a float operand, and int / int true division, are ONE correctly rounded operation:
    RN (a op b);
  * `round(x)` (one argument) of a float is the nearest integer, ties to even: IZR (pyround x);
  * `x += e` is `x = x + e`.
Everything else is rejected (exit 3): the check then reports a broken proof obligation, never a silent default.
Base/FloatGridSrc.v proves that these terms are the ones Base/FloatGrid.v's theorems are about (by reflexivity), so a
change of the source expression breaks the proof obligation of C01."""
import ast, os, re, sys


class Reject(Exception):
    pass


def find_class(tree, name):
    for n in tree.body:
        if isinstance(n, ast.ClassDef) and n.name == name:
            return n
    raise Reject("class %s not found" % name)


def find_def(cls, name):
    out = [n for n in cls.body if isinstance(n, ast.FunctionDef) and n.name == name]
    if len(out) != 1:
        raise Reject("%s.%s: %d definitions" % (cls.name, name, len(out)))
    return out[0]


def is_self_attr(n, attr):
    return isinstance(n, ast.Attribute) and isinstance(n.value, ast.Name) and n.value.id == "self" and n.attr == attr


def is_tpb(n, local_tpb):
    """self.ticks_per_beat, self.timeline.ticks_per_beat, or a local bound to one of them"""
    if is_self_attr(n, "ticks_per_beat"):
        return True
    if isinstance(n, ast.Attribute) and n.attr == "ticks_per_beat" and is_self_attr(n.value, "timeline"):
        return True
    return isinstance(n, ast.Name) and n.id in local_tpb


def tr(n, local_tpb):
    """expression -> (coq term : R, python type 'int'|'float')"""
    if is_self_attr(n, "current_time"):
        return "t", "float"
    if is_self_attr(n, "tick_duration"):
        return "(src_tick_duration tpb)", "float"
    if is_tpb(n, local_tpb):
        return "(IZR tpb)", "int"
    if isinstance(n, ast.Constant) and type(n.value) in (int, float) and float(n.value) == int(n.value) and abs(n.value) < 2 ** 31:
        return ("(IZR (%d))" % int(n.value)), ("float" if type(n.value) is float else "int")
    if isinstance(n, ast.Call) and isinstance(n.func, ast.Name) and n.func.id == "round" and len(n.args) == 1 and not n.keywords:
        a, ty = tr(n.args[0], local_tpb)
        if ty != "float":
            raise Reject("round() of a non-float")
        return "(IZR (pyround %s))" % a, "int"
    if isinstance(n, ast.BinOp) and type(n.op) in (ast.Add, ast.Sub, ast.Mult, ast.Div):
        a, ta = tr(n.left, local_tpb)
        b, tb = tr(n.right, local_tpb)
        op = {ast.Add: "+", ast.Sub: "-", ast.Mult: "*", ast.Div: "/"}[type(n.op)]
        if type(n.op) is not ast.Div and ta == "int" and tb == "int":
            raise Reject("exact integer arithmetic is not expected here: " + ast.unparse(n))
        return "(RN (%s %s %s))" % (a, op, b), "float"
    raise Reject("expression not understood: " + ast.unparse(n))


def time_assignment(fn):
    """the single statement of `fn` that assigns self.current_time (top level of the body), and the locals that hold
    ticks_per_beat at that point"""
    local_tpb, found = set(), []
    for st in ast.walk(fn):
        if isinstance(st, ast.Assign) and len(st.targets) == 1 and isinstance(st.targets[0], ast.Name) and is_tpb(st.value, set()):
            local_tpb.add(st.targets[0].id)
    for st in ast.walk(fn):
        if isinstance(st, ast.Assign) and len(st.targets) == 1 and is_self_attr(st.targets[0], "current_time"):
            found.append(tr(st.value, local_tpb)[0])
        elif isinstance(st, ast.AugAssign) and is_self_attr(st.target, "current_time"):
            if type(st.op) is not ast.Add:
                raise Reject("augmented assignment other than +=")
            found.append("(RN (t + %s))" % tr(st.value, local_tpb)[0])
    if len(found) != 1:
        raise Reject("%s: %d assignments to self.current_time (expected exactly one)" % (fn.name, len(found)))
    return found[0]


def main(out_path):
    repo = os.environ.get("PYTHONPATH", "/repo").split(":")[0]
    tl = ast.parse(open(os.path.join(repo, "isobar", "timelines", "timeline.py")).read())
    tk = ast.parse(open(os.path.join(repo, "isobar", "timelines", "track.py")).read())
    Timeline, Track = find_class(tl, "Timeline"), find_class(tk, "Track")
    # Timeline.tick_duration: a property whose body is a docstring and `return <expr>`
    td = find_def(Timeline, "tick_duration")
    body = [s for s in td.body if not (isinstance(s, ast.Expr) and isinstance(s.value, ast.Constant))]
    if len(body) != 1 or not isinstance(body[0], ast.Return):
        raise Reject("Timeline.tick_duration is not a single return")
    dur, ty = tr(body[0].value, set())
    if ty != "float" or "src_tick_duration" in dur or re.search(r"\bt\b", dur):
        raise Reject("Timeline.tick_duration: unexpected expression " + dur)
    # Track.tick_duration must delegate to the timeline
    ttd = find_def(Track, "tick_duration")
    body = [s for s in ttd.body if not (isinstance(s, ast.Expr) and isinstance(s.value, ast.Constant))]
    if not (len(body) == 1 and isinstance(body[0], ast.Return) and isinstance(body[0].value, ast.Attribute)
            and body[0].value.attr == "tick_duration" and is_self_attr(body[0].value.value, "timeline")):
        raise Reject("Track.tick_duration does not return self.timeline.tick_duration")
    tl_step = time_assignment(find_def(Timeline, "tick"))
    tk_step = time_assignment(find_def(Track, "tick"))
    text = ("(* GENERATED by harness/gen_tables_time.py from the source text of isobar/timelines/{timeline,track}.py.  Do not edit. *)\n"
            "From Coq Require Import ZArith Reals.\n"
            "From Isobar Require Import Base.FloatGrid.\n"
            "Open Scope R_scope.\n\n"
            "Definition src_tick_duration (tpb : Z) : R := %s.\n"
            "Definition src_timeline_step (tpb : Z) (t : R) : R := %s.\n"
            "Definition src_track_step (tpb : Z) (t : R) : R := %s.\n" % (dur, tl_step, tk_step))
    old = open(out_path).read() if os.path.exists(out_path) else None
    if old != text:
        tmp = out_path + ".tmp%d" % os.getpid()
        with open(tmp, "w") as f:
            f.write(text)
        os.replace(tmp, out_path)
        print("tables-time: rewritten")
    else:
        print("tables-time: unchanged")


if __name__ == "__main__":
    try:
        main(sys.argv[1])
    except Exception as e:
        sys.stderr.write("gen_tables_time: FAILED: %r\n" % (e,))
        sys.exit(3)

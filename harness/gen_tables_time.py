#!/venv/bin/python
"""Translator: the floating-point expressions by which isobar advances musical time, read from the SOURCE TEXT of the
repository under test with `ast`, rendered as Coq terms over Flocq's binary64 rounding -> coq/Generated/TablesTime.v.

  Timeline.tick_duration  (property)          -> src_tick_duration  tpb     : R
  Timeline.tick:  self.current_time = ...     -> src_timeline_step  tpb t   : R        (shape A: absolute grid, before C01-retick-snap)
  Track.tick:     self.current_time = ...     -> src_track_step     tpb t   : R
  or (shape B: relative grid, repair C01-retick-snap)
  isobar/util.py: advance_on_tick_grid (BODY) -> src_advance        t tpb origin g : R * (R * Z)      (g : option Z, the grid's resolution or None)
  Timeline.tick / Track.tick:  self.current_time, self._tick_grid = advance_on_tick_grid(self.current_time, <tpb>, self._tick_grid)
                                              -> src_timeline_step / src_track_step  tpb c : R * (R * option Z)   (c = (time, grid))
                                                 src_tick_grid_init = (0, None)  (both __init__s: self._tick_grid = (0.0, None))
  Track.tick:     if/while <due test>         -> src_track_due      t x     : bool   (t = self.current_time, x = self.next_event_time)
  Track.process_note_offs:  if <due test>     -> src_noteoff_due    ts t    : bool   (ts = note_off.timestamp)
  Timeline.tick:  if <due test> (actions)     -> src_action_due     a t     : bool   (a = action.time)
  Track.perform_event: NoteOffEvent(<time>, ...) -> src_noteoff_timestamp t d g : R     (t = self.current_time, d = event.duration, g = gate)
  Timeline._schedule_action (BODY up to Action(<time>, function)) -> src_action_time t q dl : R   (q = quantize, dl = delay)

Semantics used by the translation (CPython on IEEE-754 binary64, round-to-nearest-even):
  * a float literal / int->float conversion of the small integers involved is exact;
  * `a + b`, `a * b`, `a / b` with a float operand, and int / int true division, are ONE correctly rounded operation:
    RN (a op b);
  * `round(x)` (one argument) of a float is the nearest integer, ties to even: IZR (pyround x);
  * in advance_on_tick_grid: int + int is exact (Z); float - int / float * int convert the int exactly; `abs` is exact (Rabs);
    the literal 1e-6 is the double nearest to 10^-6: RN (1 / 10 ^ 6); `a != b` on ints: negb (a =? b); `x > y` on floats:
    Rlt_bool y x; `or`: orb (no side effects); `x is None` on the grid's resolution: match on option Z; `if` forks the
    symbolic execution (the rest of the body is translated under each branch), so no value of mixed type is ever merged;
  * in _schedule_action: `if quantize:` on a float tests quantize <> 0: negb (Req_bool q 0); `float(x)` of a float is x;
    `math.ceil(x)` of a float is the exact ceiling, an int: Zceil x; `x += e` is `x = x + e`; quantize, delay (annotated float),
    event.duration and gate hold floats (an int there converts exactly);
  * `round(x, 8)` of a float is correctly rounded to 8 decimals: py_round8 x (Base/FloatRound8.v);
  * `a >= b` / `a <= b` between floats, or a float and the int literal 0, compares the exact values: Rle_bool b a / Rle_bool a b
    (-0.0 >= 0 is True in Python, as in the reals); the time attributes named above hold floats;
  * `x += e` is `x = x + e`.
Everything else is rejected (exit 3): the check then reports a broken proof obligation, never a silent default.
Base/FloatGridSrc.v / Base/FloatDueSrc.v prove that these terms are the ones the theorems of Base/FloatGrid.v /
Base/FloatDue.v are about (by reflexivity), so a change of the source expression breaks the proof obligation of C01.
Both shapes of a due test translate - `round(a - b, 8) >= 0` (repair 9bb39e5) and `round(a, 8) >= round(b, 8)` (before) -
so that reverting the repair yields a Coq term for which the reflexivity proof fails, not a translator crash."""
import ast, os, re, sys


class Reject(Exception):
    pass


def find_class(tree, name):
    for n in tree.body:
        if isinstance(n, ast.ClassDef) and n.name == name:
            return n
    raise Reject("class %s not found" % name)


def find_def(cls, name):
    out = [n for n in cls.body if isinstance(n, ast.FunctionDef) and n.name == name]
    if len(out) != 1:
        raise Reject("%s.%s: %d definitions" % (cls.name, name, len(out)))
    return out[0]


def is_self_attr(n, attr):
    return isinstance(n, ast.Attribute) and isinstance(n.value, ast.Name) and n.value.id == "self" and n.attr == attr


def is_tpb(n, local_tpb):
    """self.ticks_per_beat, self.timeline.ticks_per_beat, or a local bound to one of them"""
    if is_self_attr(n, "ticks_per_beat"):
        return True
    if isinstance(n, ast.Attribute) and n.attr == "ticks_per_beat" and is_self_attr(n.value, "timeline"):
        return True
    return isinstance(n, ast.Name) and n.id in local_tpb


def is_name_attr(n, name, attr):
    return isinstance(n, ast.Attribute) and isinstance(n.value, ast.Name) and n.value.id == name and n.attr == attr


def tr(n, local_tpb, env=()):
    """expression -> (coq term : R, python type 'int'|'float'); env: extra float leaves [(predicate, coq variable)]"""
    for pred, var in env:
        if pred(n):
            return var, "float"
    if is_self_attr(n, "current_time"):
        return "t", "float"
    if is_self_attr(n, "tick_duration"):
        return "(src_tick_duration tpb)", "float"
    if is_tpb(n, local_tpb):
        return "(IZR tpb)", "int"
    if isinstance(n, ast.Constant) and type(n.value) in (int, float) and float(n.value) == int(n.value) and abs(n.value) < 2 ** 31:
        return ("(IZR (%d))" % int(n.value)), ("float" if type(n.value) is float else "int")
    if isinstance(n, ast.Call) and isinstance(n.func, ast.Name) and n.func.id == "round" and len(n.args) == 1 and not n.keywords:
        a, ty = tr(n.args[0], local_tpb, env)
        if ty != "float":
            raise Reject("round() of a non-float")
        return "(IZR (pyround %s))" % a, "int"
    if (isinstance(n, ast.Call) and isinstance(n.func, ast.Name) and n.func.id == "round" and len(n.args) == 2 and not n.keywords
            and isinstance(n.args[1], ast.Constant) and type(n.args[1].value) is int and n.args[1].value == 8):
        a, ty = tr(n.args[0], local_tpb, env)
        if ty != "float":
            raise Reject("round(., 8) of a non-float")
        return "(py_round8 %s)" % a, "float"
    if isinstance(n, ast.BinOp) and type(n.op) in (ast.Add, ast.Sub, ast.Mult, ast.Div):
        a, ta = tr(n.left, local_tpb, env)
        b, tb = tr(n.right, local_tpb, env)
        op = {ast.Add: "+", ast.Sub: "-", ast.Mult: "*", ast.Div: "/"}[type(n.op)]
        if type(n.op) is not ast.Div and ta == "int" and tb == "int":
            raise Reject("exact integer arithmetic is not expected here: " + ast.unparse(n))
        return "(RN (%s %s %s))" % (a, op, b), "float"
    raise Reject("expression not understood: " + ast.unparse(n))


def time_assignment(fn):
    """the single statement of `fn` that assigns self.current_time (top level of the body), and the locals that hold
    ticks_per_beat at that point"""
    local_tpb, found = set(), []
    for st in ast.walk(fn):
        if isinstance(st, ast.Assign) and len(st.targets) == 1 and isinstance(st.targets[0], ast.Name) and is_tpb(st.value, set()):
            local_tpb.add(st.targets[0].id)
    for st in ast.walk(fn):
        if isinstance(st, ast.Assign) and len(st.targets) == 1 and is_self_attr(st.targets[0], "current_time"):
            found.append(tr(st.value, local_tpb)[0])
        elif isinstance(st, ast.AugAssign) and is_self_attr(st.target, "current_time"):
            if type(st.op) is not ast.Add:
                raise Reject("augmented assignment other than +=")
            found.append("(RN (t + %s))" % tr(st.value, local_tpb)[0])
    if len(found) != 1:
        raise Reject("%s: %d assignments to self.current_time (expected exactly one)" % (fn.name, len(found)))
    return found[0]


def tr_test(n, env):
    """a due test `a >= b` / `a <= b` -> coq term : bool.  Each side: a float expression, or the int literal 0."""
    if not (isinstance(n, ast.Compare) and len(n.ops) == 1 and len(n.comparators) == 1 and type(n.ops[0]) in (ast.GtE, ast.LtE)):
        raise Reject("due test is not a single >= / <= comparison: " + ast.unparse(n))
    sides = []
    for e in (n.left, n.comparators[0]):
        if isinstance(e, ast.Constant) and type(e.value) is int and e.value == 0:
            sides.append("0")
            continue
        term, ty = tr(e, set(), env)
        if ty != "float":
            raise Reject("due test compares a non-float: " + ast.unparse(e))
        sides.append(term)
    if sides == ["0", "0"]:
        raise Reject("due test compares two literals")
    lo, hi = (sides[1], sides[0]) if type(n.ops[0]) is ast.GtE else (sides[0], sides[1])
    return "(Rle_bool %s %s)" % (lo, hi)


def mentions(n, pred):
    return any(pred(m) for m in ast.walk(n))


def due_test(fn, key, env, expected_kinds):
    """the tests of the if/while statements of `fn` that mention the attribute recognised by `key`: there must be exactly
    the statement kinds `expected_kinds` (e.g. [If, While]) and all tests must translate to the same term"""
    sts = [st for st in ast.walk(fn) if isinstance(st, (ast.If, ast.While)) and mentions(st.test, key)]
    kinds = sorted(type(st).__name__ for st in sts)
    if kinds != sorted(expected_kinds):
        raise Reject("%s: due tests found in %s, expected %s" % (fn.name, kinds, sorted(expected_kinds)))
    # the attribute must not be tested anywhere else (conditional expressions, asserts, comprehensions ...)
    others = [m for m in ast.walk(fn) if isinstance(m, (ast.IfExp, ast.Assert, ast.comprehension)) and mentions(m, key)]
    if others:
        raise Reject("%s: the time attribute is tested outside if/while statements" % fn.name)
    terms = {tr_test(st.test, env) for st in sts}
    if len(terms) != 1:
        raise Reject("%s: the due tests differ: %s" % (fn.name, sorted(terms)))
    return terms.pop()



# ---------------------------------------------------------------------------------------------------------------------
# shape B: the relative tick grid.  A small symbolic executor for the body of isobar.util.advance_on_tick_grid.
# values: ("float", R-term) | ("int", Z-term) | ("optint", name) | ("none",) | ("tuple", [values])

def as_R(v, what):
    if v[0] == "float":
        return v[1]
    if v[0] == "int":
        return "(IZR %s)" % v[1]
    raise Reject("%s: a number is expected, got %s" % (what, v[0]))


def ex(n, env):
    if isinstance(n, ast.Name):
        if n.id not in env:
            raise Reject("unknown name " + n.id)
        return env[n.id]
    if isinstance(n, ast.Constant):
        if n.value is None:
            return ("none",)
        if type(n.value) is int and abs(n.value) < 2 ** 31:
            return ("int", "(%d)" % n.value)
        if type(n.value) is float and n.value == 1e-6:
            return ("float", "(RN (1 / 10 ^ 6))")
        if type(n.value) is float and n.value == int(n.value) and abs(n.value) < 2 ** 31:
            return ("float", "(IZR (%d))" % int(n.value))
        raise Reject("constant not understood: " + ast.unparse(n))
    if isinstance(n, ast.Call) and isinstance(n.func, ast.Name) and not n.keywords and len(n.args) == 1:
        a = ex(n.args[0], env)
        if n.func.id == "round":
            if a[0] == "float":
                return ("int", "(pyround %s)" % a[1])
            if a[0] == "int":
                return a
            raise Reject("round() of " + a[0])
        if n.func.id == "abs" and a[0] == "float":
            return ("float", "(Rabs %s)" % a[1])
        raise Reject("call not understood: " + ast.unparse(n))
    if isinstance(n, ast.BinOp) and type(n.op) in (ast.Add, ast.Sub, ast.Mult, ast.Div):
        a, b = ex(n.left, env), ex(n.right, env)
        op = {ast.Add: "+", ast.Sub: "-", ast.Mult: "*", ast.Div: "/"}[type(n.op)]
        if a[0] == "int" and b[0] == "int" and type(n.op) is not ast.Div:
            return ("int", "(%s %s %s)%%Z" % (a[1], op, b[1]))
        return ("float", "(RN (%s %s %s))" % (as_R(a, ast.unparse(n)), op, as_R(b, ast.unparse(n))))
    raise Reject("expression not understood: " + ast.unparse(n))


def cond(n, env):
    """-> ("bool", term) | ("isnone", python name, coq name)"""
    if isinstance(n, ast.BoolOp) and type(n.op) in (ast.Or, ast.And):
        parts = [cond(v, env) for v in n.values]
        if any(p[0] != "bool" for p in parts):
            raise Reject("`is None` inside and/or")
        f = "orb" if type(n.op) is ast.Or else "andb"
        term = parts[0][1]
        for p in parts[1:]:
            term = "(%s %s %s)" % (f, term, p[1])
        return ("bool", term)
    if isinstance(n, ast.Compare) and len(n.ops) == 1 and len(n.comparators) == 1:
        op, l, r = type(n.ops[0]), n.left, n.comparators[0]
        if op is ast.Is and isinstance(l, ast.Name) and isinstance(r, ast.Constant) and r.value is None:
            v = env.get(l.id)
            if v is None or v[0] != "optint":
                raise Reject("`is None` on something that is not the grid's resolution")
            return ("isnone", l.id, v[1])
        a, b = ex(l, env), ex(r, env)
        if a[0] == "int" and b[0] == "int" and op in (ast.NotEq, ast.Eq):
            t = "(%s =? %s)%%Z" % (a[1], b[1])
            return ("bool", "(negb %s)" % t if op is ast.NotEq else t)
        if "float" in (a[0], b[0]) and op in (ast.Gt, ast.Lt, ast.GtE, ast.LtE):
            A, B = as_R(a, ast.unparse(n)), as_R(b, ast.unparse(n))
            return ("bool", {ast.Gt: "(Rlt_bool %s %s)" % (B, A), ast.Lt: "(Rlt_bool %s %s)" % (A, B),
                             ast.GtE: "(Rle_bool %s %s)" % (B, A), ast.LtE: "(Rle_bool %s %s)" % (A, B)}[op])
    raise Reject("condition not understood: " + ast.unparse(n))


def assign(target, value, env):
    env = dict(env)
    if isinstance(target, ast.Name):
        env[target.id] = value
        return env
    if isinstance(target, ast.Tuple) and all(isinstance(e, ast.Name) for e in target.elts):
        if value[0] != "tuple" or len(value[1]) != len(target.elts):
            raise Reject("tuple assignment of a non-tuple")
        for e, v in zip(target.elts, value[1]):
            env[e.id] = v
        return env
    raise Reject("assignment target not understood: " + ast.unparse(target))


def ex_any(n, env):
    if isinstance(n, ast.Tuple):
        return ("tuple", [ex_any(e, env) for e in n.elts])
    return ex(n, env)


def run_body(stmts, env, depth=0):
    """symbolic execution of a statement list ending in `return (time, (origin, resolution))` -> Coq term : R * (R * Z)"""
    if depth > 8:
        raise Reject("too many nested forks")
    if not stmts:
        raise Reject("the function can fall off its end")
    st, rest = stmts[0], stmts[1:]
    if isinstance(st, ast.Expr) and isinstance(st.value, ast.Constant) and isinstance(st.value.value, str):
        return run_body(rest, env, depth)
    if isinstance(st, ast.Assign) and len(st.targets) == 1:
        return run_body(rest, assign(st.targets[0], ex_any(st.value, env), env), depth)
    if isinstance(st, ast.If):
        c = cond(st.test, env)
        if c[0] == "bool":
            return "(if %s then %s else %s)" % (c[1], run_body(st.body + rest, env, depth + 1), run_body(st.orelse + rest, env, depth + 1))
        _, pyname, coqname = c
        env_none, env_some = dict(env), dict(env)
        env_none[pyname] = ("none",)
        env_some[pyname] = ("int", coqname + "0")
        return "(match %s with None => %s | Some %s0 => %s end)" % (
            coqname, run_body(st.body + rest, env_none, depth + 1), coqname, run_body(st.orelse + rest, env_some, depth + 1))
    if isinstance(st, ast.Return) and st.value is not None:
        v = ex_any(st.value, env)
        if not (v[0] == "tuple" and len(v[1]) == 2 and v[1][0][0] == "float" and v[1][1][0] == "tuple" and len(v[1][1][1]) == 2
                and v[1][1][1][0][0] == "float" and v[1][1][1][1][0] == "int"):
            raise Reject("return value is not (float, (float, int)): " + ast.unparse(st.value))
        return "(%s, (%s, %s))" % (v[1][0][1], v[1][1][1][0][1], v[1][1][1][1][1])
    raise Reject("statement not understood: " + ast.unparse(st).splitlines()[0])


ADVANCE = "advance_on_tick_grid"


def advance_function(util_tree):
    fns = [n for n in ast.walk(util_tree) if isinstance(n, (ast.FunctionDef, ast.AsyncFunctionDef, ast.ClassDef)) and n.name == ADVANCE]
    tops = [n for n in util_tree.body if isinstance(n, ast.FunctionDef) and n.name == ADVANCE]
    if len(fns) != 1 or len(tops) != 1:
        raise Reject("isobar/util.py: %d definitions of %s" % (len(fns), ADVANCE))
    fn = tops[0]
    a = fn.args
    if (len(a.args) != 3 or a.posonlyargs or a.kwonlyargs or a.vararg or a.kwarg or a.defaults or fn.decorator_list):
        raise Reject(ADVANCE + ": unexpected signature")
    t, tpb, grid = [x.arg for x in a.args]
    env = {t: ("float", "t"), tpb: ("int", "tpb"), grid: ("tuple", [("float", "origin"), ("optint", "g")])}
    return run_body(fn.body, env)


def targets_of(st):
    if isinstance(st, ast.Assign):
        out = []
        for t in st.targets:
            out += t.elts if isinstance(t, ast.Tuple) else [t]
        return out
    if isinstance(st, (ast.AnnAssign, ast.AugAssign)):
        return [st.target]
    return []


def grid_step_call(module, cls):
    """shape B in `cls.tick`?  None if current_time is not assigned through advance_on_tick_grid; otherwise check
    everything about the call and the initialisation and return True"""
    fn = find_def(cls, "tick")
    hits = [st for st in ast.walk(fn) if any(is_self_attr(t, "current_time") for t in targets_of(st))]
    calls = [st for st in hits if isinstance(st, ast.Assign) and isinstance(st.value, ast.Call)
             and isinstance(st.value.func, ast.Name) and st.value.func.id == ADVANCE]
    if not calls:
        if any(isinstance(m, ast.Name) and m.id == ADVANCE for m in ast.walk(cls)):
            raise Reject("%s: %s is used, but not to assign current_time in tick" % (cls.name, ADVANCE))
        return None
    if len(hits) != 1:
        raise Reject("%s.tick: %d assignments to self.current_time (expected exactly one)" % (cls.name, len(hits)))
    st = calls[0]
    tg = st.targets[0] if len(st.targets) == 1 else None
    if not (isinstance(tg, ast.Tuple) and len(tg.elts) == 2 and is_self_attr(tg.elts[0], "current_time") and is_self_attr(tg.elts[1], "_tick_grid")):
        raise Reject("%s.tick: the result of %s is not assigned to (self.current_time, self._tick_grid)" % (cls.name, ADVANCE))
    c = st.value
    if not (len(c.args) == 3 and not c.keywords and is_self_attr(c.args[0], "current_time") and is_tpb(c.args[1], set())
            and is_self_attr(c.args[2], "_tick_grid")):
        raise Reject("%s.tick: unexpected arguments: %s" % (cls.name, ast.unparse(c)))
    # the name must be the function of isobar/util.py
    imps = [a for n in ast.walk(module) if isinstance(n, ast.ImportFrom) and n.module == "util" and n.level == 2 for a in n.names
            if a.name == ADVANCE and a.asname is None]
    rebinds = [n for n in ast.walk(module) if (isinstance(n, (ast.FunctionDef, ast.ClassDef)) and n.name == ADVANCE)
               or (isinstance(n, ast.Name) and n.id == ADVANCE and not isinstance(n.ctx, ast.Load))]
    if len(imps) != 1 or rebinds:
        raise Reject("%s: %s is not (only) `from ..util import %s`" % (cls.name, ADVANCE, ADVANCE))
    # self._tick_grid: assigned in __init__ to (0.0, None), in tick by the call, nowhere else in the class
    sets = [s2 for s2 in ast.walk(cls) if any(is_self_attr(t, "_tick_grid") for t in targets_of(s2))]
    inits = [s2 for s2 in ast.walk(find_def(cls, "__init__")) if any(is_self_attr(t, "_tick_grid") for t in targets_of(s2))]
    if len(sets) != 2 or len(inits) != 1 or st not in sets:
        raise Reject("%s: self._tick_grid is assigned in %d places (expected: __init__ and tick)" % (cls.name, len(sets)))
    v = inits[0].value
    if not (isinstance(inits[0], (ast.Assign, ast.AnnAssign)) and isinstance(v, ast.Tuple) and len(v.elts) == 2
            and isinstance(v.elts[0], ast.Constant) and type(v.elts[0].value) is float and v.elts[0].value == 0.0
            and isinstance(v.elts[1], ast.Constant) and v.elts[1].value is None):
        raise Reject("%s.__init__: self._tick_grid is not initialised to (0.0, None)" % cls.name)
    # self.current_time starts at 0 / 0.0
    t0 = [s2 for s2 in ast.walk(find_def(cls, "__init__")) if any(is_self_attr(t, "current_time") for t in targets_of(s2))]
    if not (len(t0) == 1 and isinstance(t0[0], (ast.Assign, ast.AnnAssign)) and isinstance(t0[0].value, ast.Constant)
            and type(t0[0].value.value) in (int, float) and t0[0].value.value == 0):
        raise Reject("%s.__init__: self.current_time is not initialised to 0" % cls.name)
    return True



# ---------------------------------------------------------------------------------------------------------------------
# timestamps: the note-off time of Track.perform_event and the action time of Timeline._schedule_action

def ex_stamp(n, env):
    """expressions of the two timestamp computations: `ex` plus self.current_time, float(), math.ceil(), round(., 8)"""
    if is_self_attr(n, "current_time"):
        return ("float", "t")
    if isinstance(n, ast.Attribute):
        for pred, var in env.get("__leaves__", ()):
            if pred(n):
                return ("float", var)
        raise Reject("attribute not understood: " + ast.unparse(n))
    if isinstance(n, ast.Name):
        if n.id not in env:
            raise Reject("unknown name " + n.id)
        return env[n.id]
    if isinstance(n, ast.Call) and not n.keywords:
        f = n.func
        if isinstance(f, ast.Name) and f.id == "float" and len(n.args) == 1:
            a = ex_stamp(n.args[0], env)
            if a[0] != "float":
                raise Reject("float() of a non-float")
            return a
        if (isinstance(f, ast.Attribute) and isinstance(f.value, ast.Name) and f.value.id == "math" and f.attr == "ceil"
                and len(n.args) == 1):
            a = ex_stamp(n.args[0], env)
            if a[0] != "float":
                raise Reject("math.ceil of a non-float")
            return ("int", "(Zceil %s)" % a[1])
        if (isinstance(f, ast.Name) and f.id == "round" and len(n.args) == 2 and isinstance(n.args[1], ast.Constant)
                and type(n.args[1].value) is int and n.args[1].value == 8):
            a = ex_stamp(n.args[0], env)
            if a[0] != "float":
                raise Reject("round(., 8) of a non-float")
            return ("float", "(py_round8 %s)" % a[1])
        raise Reject("call not understood: " + ast.unparse(n))
    if isinstance(n, ast.BinOp) and type(n.op) in (ast.Add, ast.Sub, ast.Mult, ast.Div):
        a, b = ex_stamp(n.left, env), ex_stamp(n.right, env)
        op = {ast.Add: "+", ast.Sub: "-", ast.Mult: "*", ast.Div: "/"}[type(n.op)]
        if a[0] == "int" and b[0] == "int":
            raise Reject("exact integer arithmetic is not expected here: " + ast.unparse(n))
        return ("float", "(RN (%s %s %s))" % (as_R(a, ast.unparse(n)), op, as_R(b, ast.unparse(n))))
    raise Reject("expression not understood: " + ast.unparse(n))


def action_time_term(fn):
    """Timeline._schedule_action(self, function, quantize: float, delay: float): the statements up to
    `action = Action(<time>, function)`; the rest must be `self.actions.append(action)`"""
    a = fn.args
    names = [x.arg for x in a.args]
    if names != ["self", "function", "quantize", "delay"] or a.posonlyargs or a.kwonlyargs or a.vararg or a.kwarg:
        raise Reject("_schedule_action: unexpected signature")
    for x in a.args[2:]:
        if not (isinstance(x.annotation, ast.Name) and x.annotation.id == "float"):
            raise Reject("_schedule_action: %s is not annotated float" % x.arg)
    calls = [m for m in ast.walk(fn) if isinstance(m, ast.Call) and isinstance(m.func, ast.Name) and m.func.id == "Action"]
    if len(calls) != 1:
        raise Reject("_schedule_action: %d calls of Action" % len(calls))

    def go(stmts, env, depth):
        if depth > 6 or not stmts:
            raise Reject("_schedule_action: Action(...) is not reached on every path")
        st, rest = stmts[0], stmts[1:]
        if isinstance(st, ast.Expr) and isinstance(st.value, ast.Constant) and isinstance(st.value.value, str):
            return go(rest, env, depth)
        if isinstance(st, ast.Assign) and len(st.targets) == 1 and isinstance(st.targets[0], ast.Name):
            if st.value is calls[0]:
                c = calls[0]
                if not (len(c.args) == 2 and not c.keywords and isinstance(c.args[1], ast.Name) and c.args[1].id == "function"):
                    raise Reject("unexpected arguments of Action")
                v = ex_stamp(c.args[0], env)
                if v[0] != "float":
                    raise Reject("the action time is not a float")
                tail = [ast.unparse(x) for x in rest]
                if tail != ["self.actions.append(%s)" % st.targets[0].id]:
                    raise Reject("_schedule_action: unexpected statements after Action(...): %r" % tail)
                return v[1]
            e2 = dict(env)
            e2[st.targets[0].id] = ex_stamp(st.value, env)
            return go(rest, e2, depth)
        if isinstance(st, ast.AugAssign) and isinstance(st.target, ast.Name) and type(st.op) is ast.Add:
            e2 = dict(env)
            e2[st.target.id] = ex_stamp(ast.BinOp(left=ast.Name(id=st.target.id, ctx=ast.Load()), op=ast.Add(), right=st.value), env)
            return go(rest, e2, depth)
        if isinstance(st, ast.If) and isinstance(st.test, ast.Name) and env.get(st.test.id, ("",))[0] == "float":
            c = "(negb (Req_bool %s 0))" % env[st.test.id][1]
            return "(if %s then %s else %s)" % (c, go(st.body + rest, env, depth + 1), go(st.orelse + rest, env, depth + 1))
        raise Reject("_schedule_action: statement not understood: " + ast.unparse(st).splitlines()[0])

    return go(fn.body, {"quantize": ("float", "q"), "delay": ("float", "dl")}, 0)


def noteoff_timestamp_term(fn):
    """Track.perform_event: the first argument of the single call NoteOffEvent(...), with the local names it uses
    resolved through their (unique) assignments in the function; leaves: self.current_time, event.duration, gate"""
    calls = [m for m in ast.walk(fn) if isinstance(m, ast.Call) and isinstance(m.func, ast.Name) and m.func.id == "NoteOffEvent"]
    if len(calls) != 1 or not calls[0].args:
        raise Reject("perform_event: %d calls of NoteOffEvent" % len(calls))
    assigns = {}
    for st in ast.walk(fn):
        for tg in targets_of(st):
            for nm in ([tg] if isinstance(tg, ast.Name) else [x for x in ast.walk(tg) if isinstance(x, ast.Name)]):
                assigns.setdefault(nm.id, []).append(st)
    for st in ast.walk(fn):                      # loop variables and the like also bind names
        if isinstance(st, (ast.For, ast.comprehension)):
            for x in ast.walk(st.target):
                if isinstance(x, ast.Name):
                    assigns.setdefault(x.id, []).append(st)

    def is_gate_source(v):
        """event.gate[index] if isinstance(event.gate, tuple) else event.gate"""
        return (isinstance(v, ast.IfExp) and ast.unparse(v.test) == "isinstance(event.gate, tuple)"
                and ast.unparse(v.body) == "event.gate[index]" and ast.unparse(v.orelse) == "event.gate")

    def resolve(n, depth=0):
        if depth > 6:
            raise Reject("perform_event: names nested too deeply")
        if isinstance(n, ast.Name):
            sts = assigns.get(n.id, [])
            if len(sts) != 1 or not isinstance(sts[0], ast.Assign) or len(sts[0].targets) != 1 or not isinstance(sts[0].targets[0], ast.Name):
                raise Reject("perform_event: %s is not assigned exactly once by a plain assignment" % n.id)
            if n.id == "gate":
                if not is_gate_source(sts[0].value):
                    raise Reject("perform_event: unexpected source of gate: " + ast.unparse(sts[0].value))
                return ("float", "g")
            return resolve(sts[0].value, depth + 1)
        if isinstance(n, ast.BinOp) and type(n.op) in (ast.Add, ast.Sub, ast.Mult, ast.Div):
            a, b = resolve(n.left, depth + 1), resolve(n.right, depth + 1)
            op = {ast.Add: "+", ast.Sub: "-", ast.Mult: "*", ast.Div: "/"}[type(n.op)]
            return ("float", "(RN (%s %s %s))" % (a[1], op, b[1]))
        if is_self_attr(n, "current_time"):
            return ("float", "t")
        if is_name_attr(n, "event", "duration"):
            return ("float", "d")
        raise Reject("perform_event: expression not understood: " + ast.unparse(n))

    return resolve(calls[0].args[0])[1]


def main(out_path):
    repo = os.environ.get("PYTHONPATH", "/repo").split(":")[0]
    tl = ast.parse(open(os.path.join(repo, "isobar", "timelines", "timeline.py")).read())
    tk = ast.parse(open(os.path.join(repo, "isobar", "timelines", "track.py")).read())
    Timeline, Track = find_class(tl, "Timeline"), find_class(tk, "Track")
    # Timeline.tick_duration: a property whose body is a docstring and `return <expr>`
    td = find_def(Timeline, "tick_duration")
    body = [s for s in td.body if not (isinstance(s, ast.Expr) and isinstance(s.value, ast.Constant))]
    if len(body) != 1 or not isinstance(body[0], ast.Return):
        raise Reject("Timeline.tick_duration is not a single return")
    dur, ty = tr(body[0].value, set())
    if ty != "float" or "src_tick_duration" in dur or re.search(r"\bt\b", dur):
        raise Reject("Timeline.tick_duration: unexpected expression " + dur)
    # Track.tick_duration must delegate to the timeline
    ttd = find_def(Track, "tick_duration")
    body = [s for s in ttd.body if not (isinstance(s, ast.Expr) and isinstance(s.value, ast.Constant))]
    if not (len(body) == 1 and isinstance(body[0], ast.Return) and isinstance(body[0].value, ast.Attribute)
            and body[0].value.attr == "tick_duration" and is_self_attr(body[0].value.value, "timeline")):
        raise Reject("Track.tick_duration does not return self.timeline.tick_duration")
    shape_b = (grid_step_call(tl, Timeline), grid_step_call(tk, Track))
    if shape_b == (True, True):
        ut = ast.parse(open(os.path.join(repo, "isobar", "util.py")).read())
        adv = advance_function(ut)
        step = ("let '(t, (o, g)) := c in let '(t', (o', g')) := src_advance t tpb o g in (t', (o', Some g'))")
        steps = ("Definition src_advance (t : R) (tpb : Z) (origin : R) (g : option Z) : R * (R * Z) :=\n  %s.\n"
                 "Definition src_tick_grid_init : R * option Z := (0, None).\n"
                 "Definition src_timeline_step (tpb : Z) (c : R * (R * option Z)) : R * (R * option Z) :=\n  %s.\n"
                 "Definition src_track_step (tpb : Z) (c : R * (R * option Z)) : R * (R * option Z) :=\n  %s.\n" % (adv, step, step))
    elif shape_b == (None, None):
        tl_step = time_assignment(find_def(Timeline, "tick"))
        tk_step = time_assignment(find_def(Track, "tick"))
        steps = ("Definition src_timeline_step (tpb : Z) (t : R) : R := %s.\n"
                 "Definition src_track_step (tpb : Z) (t : R) : R := %s.\n" % (tl_step, tk_step))
    else:
        raise Reject("Timeline.tick and Track.tick advance their clocks in different ways")
    is_next = lambda n: is_self_attr(n, "next_event_time")
    is_ts = lambda n: is_name_attr(n, "note_off", "timestamp")
    is_at = lambda n: is_name_attr(n, "action", "time")
    track_due = due_test(find_def(Track, "tick"), is_next, [(is_next, "x")], ["If", "While"])
    noteoff_due = due_test(find_def(Track, "process_note_offs"), is_ts, [(is_ts, "ts")], ["If"])
    action_due = due_test(find_def(Timeline, "tick"), is_at, [(is_at, "a")], ["If"])
    noteoff_ts = noteoff_timestamp_term(find_def(Track, "perform_event"))
    action_tm = action_time_term(find_def(Timeline, "_schedule_action"))
    text = ("(* GENERATED by harness/gen_tables_time.py from the source text of isobar/timelines/{timeline,track}.py.  Do not edit. *)\n"
            "From Coq Require Import ZArith Reals.\n"
            "From Flocq Require Import Core.\n"
            "From Isobar Require Import Base.FloatGrid Base.FloatRound8.\n"
            "Open Scope R_scope.\n\n"
            "Definition src_tick_duration (tpb : Z) : R := %s.\n"
            "%s"
            "Definition src_track_due (t x : R) : bool := %s.\n"
            "Definition src_noteoff_due (ts t : R) : bool := %s.\n"
            "Definition src_action_due (a t : R) : bool := %s.\n"
            "Definition src_noteoff_timestamp (t d g : R) : R := %s.\n"
            "Definition src_action_time (t q dl : R) : R :=\n  %s.\n"
            % (dur, steps, track_due, noteoff_due, action_due, noteoff_ts, action_tm))
    old = open(out_path).read() if os.path.exists(out_path) else None
    if old != text:
        tmp = out_path + ".tmp%d" % os.getpid()
        with open(tmp, "w") as f:
            f.write(text)
        os.replace(tmp, out_path)
        print("tables-time: rewritten")
    else:
        print("tables-time: unchanged")


if __name__ == "__main__":
    try:
        main(sys.argv[1])
    except Exception as e:
        sys.stderr.write("gen_tables_time: FAILED: %r\n" % (e,))
        sys.exit(3)

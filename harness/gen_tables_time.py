#!/venv/bin/python
"""Translator: the floating-point expressions by which isobar advances musical time, read from the SOURCE TEXT of the
repository under test with `ast`, rendered as Coq terms over Flocq's binary64 rounding -> coq/Generated/TablesTime.v.

  Timeline.tick_duration  (property)          -> src_tick_duration  tpb     : R
  Timeline.tick:  self.current_time = ...     -> src_timeline_step  tpb t   : R
  Track.tick:     self.current_time = ...     -> src_track_step     tpb t   : R
  Track.tick:     if/while <due test>         -> src_track_due      t x     : bool   (t = self.current_time, x = self.next_event_time)
  Track.process_note_offs:  if <due test>     -> src_noteoff_due    ts t    : bool   (ts = note_off.timestamp)
  Timeline.tick:  if <due test> (actions)     -> src_action_due     a t     : bool   (a = action.time)

Semantics used by the translation (CPython on IEEE-754 binary64, round-to-nearest-even):
  * a float literal / int->float conversion of the small integers involved is exact;
  * `a + b`, `a * b`, `a / b` with a float operand, and int / int true division, are ONE correctly rounded operation:
    RN (a op b);
  * `round(x)` (one argument) of a float is the nearest integer, ties to even: IZR (pyround x);
  * `round(x, 8)` of a float is correctly rounded to 8 decimals: py_round8 x (Base/FloatRound8.v);
  * `a >= b` / `a <= b` between floats, or a float and the int literal 0, compares the exact values: Rle_bool b a / Rle_bool a b
    (-0.0 >= 0 is True in Python, as in the reals); the time attributes named above hold floats;
  * `x += e` is `x = x + e`.
Everything else is rejected (exit 3): the check then reports a broken proof obligation, never a silent default.
Base/FloatGridSrc.v / Base/FloatDueSrc.v prove that these terms are the ones the theorems of Base/FloatGrid.v /
Base/FloatDue.v are about (by reflexivity), so a change of the source expression breaks the proof obligation of C01.
Both shapes of a due test translate - `round(a - b, 8) >= 0` (repair 9bb39e5) and `round(a, 8) >= round(b, 8)` (before) -
so that reverting the repair yields a Coq term for which the reflexivity proof fails, not a translator crash."""
import ast, os, re, sys


class Reject(Exception):
    pass


def find_class(tree, name):
    for n in tree.body:
        if isinstance(n, ast.ClassDef) and n.name == name:
            return n
    raise Reject("class %s not found" % name)


def find_def(cls, name):
    out = [n for n in cls.body if isinstance(n, ast.FunctionDef) and n.name == name]
    if len(out) != 1:
        raise Reject("%s.%s: %d definitions" % (cls.name, name, len(out)))
    return out[0]


def is_self_attr(n, attr):
    return isinstance(n, ast.Attribute) and isinstance(n.value, ast.Name) and n.value.id == "self" and n.attr == attr


def is_tpb(n, local_tpb):
    """self.ticks_per_beat, self.timeline.ticks_per_beat, or a local bound to one of them"""
    if is_self_attr(n, "ticks_per_beat"):
        return True
    if isinstance(n, ast.Attribute) and n.attr == "ticks_per_beat" and is_self_attr(n.value, "timeline"):
        return True
    return isinstance(n, ast.Name) and n.id in local_tpb


def is_name_attr(n, name, attr):
    return isinstance(n, ast.Attribute) and isinstance(n.value, ast.Name) and n.value.id == name and n.attr == attr


def tr(n, local_tpb, env=()):
    """expression -> (coq term : R, python type 'int'|'float'); env: extra float leaves [(predicate, coq variable)]"""
    for pred, var in env:
        if pred(n):
            return var, "float"
    if is_self_attr(n, "current_time"):
        return "t", "float"
    if is_self_attr(n, "tick_duration"):
        return "(src_tick_duration tpb)", "float"
    if is_tpb(n, local_tpb):
        return "(IZR tpb)", "int"
    if isinstance(n, ast.Constant) and type(n.value) in (int, float) and float(n.value) == int(n.value) and abs(n.value) < 2 ** 31:
        return ("(IZR (%d))" % int(n.value)), ("float" if type(n.value) is float else "int")
    if isinstance(n, ast.Call) and isinstance(n.func, ast.Name) and n.func.id == "round" and len(n.args) == 1 and not n.keywords:
        a, ty = tr(n.args[0], local_tpb, env)
        if ty != "float":
            raise Reject("round() of a non-float")
        return "(IZR (pyround %s))" % a, "int"
    if (isinstance(n, ast.Call) and isinstance(n.func, ast.Name) and n.func.id == "round" and len(n.args) == 2 and not n.keywords
            and isinstance(n.args[1], ast.Constant) and type(n.args[1].value) is int and n.args[1].value == 8):
        a, ty = tr(n.args[0], local_tpb, env)
        if ty != "float":
            raise Reject("round(., 8) of a non-float")
        return "(py_round8 %s)" % a, "float"
    if isinstance(n, ast.BinOp) and type(n.op) in (ast.Add, ast.Sub, ast.Mult, ast.Div):
        a, ta = tr(n.left, local_tpb, env)
        b, tb = tr(n.right, local_tpb, env)
        op = {ast.Add: "+", ast.Sub: "-", ast.Mult: "*", ast.Div: "/"}[type(n.op)]
        if type(n.op) is not ast.Div and ta == "int" and tb == "int":
            raise Reject("exact integer arithmetic is not expected here: " + ast.unparse(n))
        return "(RN (%s %s %s))" % (a, op, b), "float"
    raise Reject("expression not understood: " + ast.unparse(n))


def time_assignment(fn):
    """the single statement of `fn` that assigns self.current_time (top level of the body), and the locals that hold
    ticks_per_beat at that point"""
    local_tpb, found = set(), []
    for st in ast.walk(fn):
        if isinstance(st, ast.Assign) and len(st.targets) == 1 and isinstance(st.targets[0], ast.Name) and is_tpb(st.value, set()):
            local_tpb.add(st.targets[0].id)
    for st in ast.walk(fn):
        if isinstance(st, ast.Assign) and len(st.targets) == 1 and is_self_attr(st.targets[0], "current_time"):
            found.append(tr(st.value, local_tpb)[0])
        elif isinstance(st, ast.AugAssign) and is_self_attr(st.target, "current_time"):
            if type(st.op) is not ast.Add:
                raise Reject("augmented assignment other than +=")
            found.append("(RN (t + %s))" % tr(st.value, local_tpb)[0])
    if len(found) != 1:
        raise Reject("%s: %d assignments to self.current_time (expected exactly one)" % (fn.name, len(found)))
    return found[0]


def tr_test(n, env):
    """a due test `a >= b` / `a <= b` -> coq term : bool.  Each side: a float expression, or the int literal 0."""
    if not (isinstance(n, ast.Compare) and len(n.ops) == 1 and len(n.comparators) == 1 and type(n.ops[0]) in (ast.GtE, ast.LtE)):
        raise Reject("due test is not a single >= / <= comparison: " + ast.unparse(n))
    sides = []
    for e in (n.left, n.comparators[0]):
        if isinstance(e, ast.Constant) and type(e.value) is int and e.value == 0:
            sides.append("0")
            continue
        term, ty = tr(e, set(), env)
        if ty != "float":
            raise Reject("due test compares a non-float: " + ast.unparse(e))
        sides.append(term)
    if sides == ["0", "0"]:
        raise Reject("due test compares two literals")
    lo, hi = (sides[1], sides[0]) if type(n.ops[0]) is ast.GtE else (sides[0], sides[1])
    return "(Rle_bool %s %s)" % (lo, hi)


def mentions(n, pred):
    return any(pred(m) for m in ast.walk(n))


def due_test(fn, key, env, expected_kinds):
    """the tests of the if/while statements of `fn` that mention the attribute recognised by `key`: there must be exactly
    the statement kinds `expected_kinds` (e.g. [If, While]) and all tests must translate to the same term"""
    sts = [st for st in ast.walk(fn) if isinstance(st, (ast.If, ast.While)) and mentions(st.test, key)]
    kinds = sorted(type(st).__name__ for st in sts)
    if kinds != sorted(expected_kinds):
        raise Reject("%s: due tests found in %s, expected %s" % (fn.name, kinds, sorted(expected_kinds)))
    # the attribute must not be tested anywhere else (conditional expressions, asserts, comprehensions ...)
    others = [m for m in ast.walk(fn) if isinstance(m, (ast.IfExp, ast.Assert, ast.comprehension)) and mentions(m, key)]
    if others:
        raise Reject("%s: the time attribute is tested outside if/while statements" % fn.name)
    terms = {tr_test(st.test, env) for st in sts}
    if len(terms) != 1:
        raise Reject("%s: the due tests differ: %s" % (fn.name, sorted(terms)))
    return terms.pop()


def main(out_path):
    repo = os.environ.get("PYTHONPATH", "/repo").split(":")[0]
    tl = ast.parse(open(os.path.join(repo, "isobar", "timelines", "timeline.py")).read())
    tk = ast.parse(open(os.path.join(repo, "isobar", "timelines", "track.py")).read())
    Timeline, Track = find_class(tl, "Timeline"), find_class(tk, "Track")
    # Timeline.tick_duration: a property whose body is a docstring and `return <expr>`
    td = find_def(Timeline, "tick_duration")
    body = [s for s in td.body if not (isinstance(s, ast.Expr) and isinstance(s.value, ast.Constant))]
    if len(body) != 1 or not isinstance(body[0], ast.Return):
        raise Reject("Timeline.tick_duration is not a single return")
    dur, ty = tr(body[0].value, set())
    if ty != "float" or "src_tick_duration" in dur or re.search(r"\bt\b", dur):
        raise Reject("Timeline.tick_duration: unexpected expression " + dur)
    # Track.tick_duration must delegate to the timeline
    ttd = find_def(Track, "tick_duration")
    body = [s for s in ttd.body if not (isinstance(s, ast.Expr) and isinstance(s.value, ast.Constant))]
    if not (len(body) == 1 and isinstance(body[0], ast.Return) and isinstance(body[0].value, ast.Attribute)
            and body[0].value.attr == "tick_duration" and is_self_attr(body[0].value.value, "timeline")):
        raise Reject("Track.tick_duration does not return self.timeline.tick_duration")
    tl_step = time_assignment(find_def(Timeline, "tick"))
    tk_step = time_assignment(find_def(Track, "tick"))
    is_next = lambda n: is_self_attr(n, "next_event_time")
    is_ts = lambda n: is_name_attr(n, "note_off", "timestamp")
    is_at = lambda n: is_name_attr(n, "action", "time")
    track_due = due_test(find_def(Track, "tick"), is_next, [(is_next, "x")], ["If", "While"])
    noteoff_due = due_test(find_def(Track, "process_note_offs"), is_ts, [(is_ts, "ts")], ["If"])
    action_due = due_test(find_def(Timeline, "tick"), is_at, [(is_at, "a")], ["If"])
    text = ("(* GENERATED by harness/gen_tables_time.py from the source text of isobar/timelines/{timeline,track}.py.  Do not edit. *)\n"
            "From Coq Require Import ZArith Reals.\n"
            "From Flocq Require Import Core.\n"
            "From Isobar Require Import Base.FloatGrid Base.FloatRound8.\n"
            "Open Scope R_scope.\n\n"
            "Definition src_tick_duration (tpb : Z) : R := %s.\n"
            "Definition src_timeline_step (tpb : Z) (t : R) : R := %s.\n"
            "Definition src_track_step (tpb : Z) (t : R) : R := %s.\n"
            "Definition src_track_due (t x : R) : bool := %s.\n"
            "Definition src_noteoff_due (ts t : R) : bool := %s.\n"
            "Definition src_action_due (a t : R) : bool := %s.\n"
            % (dur, tl_step, tk_step, track_due, noteoff_due, action_due))
    old = open(out_path).read() if os.path.exists(out_path) else None
    if old != text:
        tmp = out_path + ".tmp%d" % os.getpid()
        with open(tmp, "w") as f:
            f.write(text)
        os.replace(tmp, out_path)
        print("tables-time: rewritten")
    else:
        print("tables-time: unchanged")


if __name__ == "__main__":
    try:
        main(sys.argv[1])
    except Exception as e:
        sys.stderr.write("gen_tables_time: FAILED: %r\n" % (e,))
        sys.exit(3)

"""C05 — quantize and delay start tracks on the requested grid; updates switch cleanly.
Theorems: coq/Props/C05.v over the scheduler model (coq/Sched/Model.v; lemmas Sched/QuantizeProofs.v, Sched/TickFrame.v).
Correspondence: histories (k ticks; schedule / 1-3 updates with quantize, delay, timeline defaults, device latency, from
outside or from action callbacks; ticks) run on isobar's Timeline/Track and on the model inside Coq.
Oracle: exact-fraction closed form of the start tick, the switch between streams and the release ticks."""
from common import *
import sched_common as S
import sched_gen as G
from fractions import Fraction as F
from math import ceil

PROP = "C05"
META = {
 "engine": "S-scheduler",
 "text": "Coq theorems (Props/C05.v) about the executable model of Timeline/Track (Sched/Model.v), for ALL call times t, all q >= 0, d >= 0 and all tick lengths (no bound; induction over histories): the time computed by _schedule_action is the least multiple of q that is >= t, plus d (t + d for q = 0 and for t on the q-grid); update()/schedule() resolve None arguments from the timeline defaults, explicit arguments win, positive device latency is added to the delay, and Track.start runs inside the call iff q = d = 0, otherwise a start action for that time is appended in request order; the action stays pending over ANY history (ticks, outside calls, calls made by callbacks, faults) whose ticks all begin before its time; the first tick that begins at or after it fires it before any track event of that tick, the track gets the new stream with next_event_time = current_time while count, mute state and pending note-offs are untouched, of several due starts for one track the one requested last wins, and the first event of the new stream is the event performed on that tick (C01 places the later ones); on ticks without a due start the track only pulls from the stream it has. Tied to /repo on every run by a correspondence check (call times on/off the q-grid, at 0 and after up to 2*10^4 (quick) / 2*10^5 (thorough) ticks, q, d in {0, one tick, 0.1, 0.25, 1/3, 0.5, 1, 4} beats and None, 9 resolutions, calls from outside and from action callbacks, 1-3 updates with colliding target ticks, timeline defaults vs explicit arguments, device latency) executed on the real Timeline with a recording OutputDevice and inside Coq (vm_compute) on the model, compared call by call and tick by tick, plus an independent exact-fraction oracle (start tick, old stream until then / new stream after, last update wins, pending notes released on time). Float layer: Props/C05Float.v proves that the action due test as the source writes it decides like the exact comparison at every resolution (also where tick times are decimal ties of round(., 8): 512 | ticks_per_beat); a stratum of 140 cases at resolutions 512..5120 whose quantize / delay are whole numbers of ticks handed over as inexact doubles (products, sums, differences) on many call ticks is judged by the exact-fraction start tick and reports the tie defect repaired by 9bb39e5 if it returns. Widened (Sched/UpdateMode.v, Props/C05Widened.v): (l) several output devices with different latency compensations - C05_device_latency / C05_device_latency_own_device_only: the latency added to the delay is that of the device the TRACK plays on and of no other; stratum of 90 histories with 2-3 devices, the track mostly on a non-default one (driver harness/impl/c05_impl.py), model and exact oracle as for the other strata; (k) updates that change more than the event stream - C05_deferred_update_is_clean / C05_old_pair_until_switch, for ANY track machine: a deferred replacement of the pair (stream, settings such as the interpolation mode) is heard as the old pair left alone until the switch tick and as the new pair started on that tick from then on; stratum of 120 control tracks (stepped / linear / cosine) whose deferred update keeps or changes the mode, judged differentially against the old pair left alone and the new pair scheduled on the switch tick on a timeline of its own.",
 "note": "Trusted: Coq kernel+VM; the Python harness. Modelled, not verified: IEEE-754 arithmetic inside isobar (the model computes in exact integer units; agreement is validated by the correspondence runs, not proved); events are taken already resolved (C03). The 'old stream until' theorems are stated for callbacks that perform no timeline operation (an update made by a callback is itself a request covered by the request/pending/fire theorems); the composition of the per-tick theorems into one end-to-end trace statement is by reading, the correspondence compares whole traces. An immediate update (q = d = 0) made between ticks at exactly the time a deferred start for the same track is due is overridden by that deferred start (the action phase runs after the call): such collisions are generated, judged by the model, and excluded from the oracle's last-wins verdict (docs/C05.md). The interpolation stratum is not compared with an executable model (Sched/Model.v has no interpolating branch, Sched/Interp.v no updates): theorem over an abstract track machine + differential oracle; count= passed to a deferred update and replace-by-name with another output device are not generated (docs/C05.md).",
}

QD = ["tick", F(1, 10), F(1, 4), F(1, 3), F(1, 2), F(1), F(4)]


def qd_value(rng, tick):
    r = rng.random()
    if r < 0.16:
        return None
    if r < 0.30:
        return F(0)
    v = rng.choice(QD)
    return tick if v == "tick" else v


def make_stream(rng, tpb, base, n=None, cyclic=None, long_base=None):
    """a stream of notes with pitches base, base+1, ...; returns (stream, oracle description)"""
    tick = F(1, tpb)
    n = n or rng.randint(1, 4)
    if long_base is not None:
        durs = [F(long_base) + rng.choice([F(1, 3), F(1, 10), F(0), tick]) for _ in range(n)]
    else:
        durs = G.durations_for(rng, tpb, n, on_grid_share=0.5)
    items, desc = [], []
    for i, d in enumerate(durs):
        gate = rng.choice([(1, 4), (1, 2), (1, 1), (3, 2), (2, 1), (4, 1)])
        items.append({"k": "note", "dur": d, "note": base + i, "amp": 64, "gate": list(gate), "chan": 0})
        desc.append((d, base + i, d * F(gate[0], gate[1])))
    cyclic = (rng.random() < 0.6) if cyclic is None else cyclic
    return G.stream(items, cyclic, rng.choice(["scripted", "psequence", "pdict"])), {"events": desc, "cyclic": cyclic}


def on_grid_ticks(q, tick, lo, hi):
    """tick counts k in [lo, hi] with k*tick a multiple of q"""
    if not q:
        return list(range(lo, min(hi, lo + 3) + 1))
    step = (q / tick)
    m = step.denominator          # k must be a multiple of step.numerator when q*i/tick is whole: k = i*step, i multiple of m
    period = int(step * m)
    first = ((lo + period - 1) // period) * period
    return list(range(first, hi + 1, period))[:50]


def gen_case(rng, tier, long_ticks=None, devices=False):
    tpb = rng.choice(G.TPBS)
    mode = rng.choice(["zero", "grid", "near", "off", "any"]) if long_ticks is None else "long"
    if mode == "near" and rng.random() < 0.5:
        tpb = rng.choice([480, 960, 1920])        # a call one tick off a coarse grid: t/q is within 1e-3 of an integer
    tick = F(1, tpb)
    cfg = {}
    if rng.random() < 0.25:
        cfg["latency"] = rng.choice([tick, F(1, 10), F(1, 20), F(1, 4)])
    tdev = None
    if devices:
        # several output devices with different latency compensations; the track plays on device tdev (mostly not the default one,
        # device 0): it is ITS device's latency that is added to the delay
        pool = [F(0), F(0), tick, F(1, 10), F(1, 20), F(1, 4), 3 * tick]
        while True:
            lats = [rng.choice(pool) for _ in range(rng.choice([2, 2, 3]))]
            tdev = rng.randrange(len(lats)) if rng.random() < 0.2 else rng.randrange(1, len(lats))
            if len(set(lats)) > 1 and (tdev == 0 or lats[tdev] != lats[0]):
                break
        cfg = {"devices": lats}
        if lats[tdev] > 0:
            cfg["latency"] = lats[tdev]          # what the model is told: the latency of the track's own device (C05_device_latency)
    lat = cfg.get("latency", F(0))
    family = rng.choice(["schedule", "update", "update"])
    inside = rng.random() < 0.35 and not devices
    defaults = None
    if rng.random() < 0.3:
        defaults = (rng.choice([F(0), F(1, 4), F(1), tick, F(1, 2)]), rng.choice([F(0), F(0), tick, F(1, 10), F(1, 2)]))
    dq, dd = defaults or (F(0), F(0))

    def resolve(q, d):
        qe = dq if q is None else q
        de = (dd if d is None else d) + (lat if lat > 0 else 0)
        return qe, de

    # number of requests and their call ticks
    nreq = 1 if family == "schedule" else rng.choice([1, 1, 2, 2, 3])
    reqs = []
    q0, d0 = qd_value(rng, tick), qd_value(rng, tick)
    if mode == "near" and rng.random() < 0.5:
        q0 = rng.choice([F(4), F(1)])
    qe0, _ = resolve(q0, d0)
    hi = 4 * tpb + 3
    if mode == "zero":
        k0 = 0
    elif mode == "grid":
        cands = on_grid_ticks(qe0, tick, 1, hi)
        k0 = rng.choice(cands) if cands else rng.randint(1, hi)
    elif mode == "near":          # one tick before / after a grid point
        cands = on_grid_ticks(qe0, tick, 1, hi)
        k0 = max(0, (rng.choice(cands) if cands else rng.randint(1, hi)) + rng.choice([-1, 1]))
    elif mode == "off":
        k0 = rng.randint(1, hi)
        if qe0 and (k0 * tick / qe0).denominator == 1:
            k0 += 1
    elif mode == "long":
        k0 = long_ticks
        if rng.random() < 0.5 and qe0:
            cands = on_grid_ticks(qe0, tick, long_ticks - 4 * tpb, long_ticks)
            k0 = rng.choice(cands) if cands else long_ticks
    else:
        k0 = rng.randint(0, hi)
    reqs.append({"c": k0, "q": q0, "d": d0})
    X0 = (qe0 * ceil(k0 * tick / qe0) if qe0 else k0 * tick) + resolve(q0, d0)[1]
    for _ in range(nreq - 1):
        prev = reqs[-1]
        if rng.random() < 0.12 and int(ceil(X0 / tick)) >= prev["c"]:
            # an immediate update requested at exactly the time the first target is due
            reqs.append({"c": int(ceil(X0 / tick)), "q": F(0), "d": F(0)})
            continue
        if rng.random() < 0.6:
            # collide with the first target: call before X0, same resolved target where possible
            latest = max(prev["c"], min(int(ceil(X0 / tick)), prev["c"] + 2 * tpb))
            c = rng.randint(prev["c"], latest)
            if rng.random() < 0.6:
                q, d = q0, d0
            else:
                q, d = qd_value(rng, tick), qd_value(rng, tick)
        else:
            c = prev["c"] + rng.choice([0, 1, 2, tpb // 2, tpb, rng.randint(0, 2 * tpb)])
            q, d = qd_value(rng, tick), qd_value(rng, tick)
        reqs.append({"c": c, "q": q, "d": d})
    long_base = max(1, (long_ticks // tpb) // 40) if long_ticks else None

    streams = []
    callbacks, ops = [], []
    if defaults:
        ops.append(["defaults", dq, dd])
    o = {"tpb": tpb, "reqs": [], "family": family, "inside": inside, "initial": None}
    caller_first = rng.random() < 0.5
    caller_id = target_id = None
    nid = 0

    def add_caller():
        nonlocal nid, caller_id
        # rests up to the first call tick, then one action per distinct call tick
        items = []
        ticks = sorted(set(r["c"] for r in reqs))
        if ticks[0] > 0:
            items.append({"k": "note", "dur": ticks[0] * tick, "note": None, "amp": 64, "gate": [1, 1], "chan": 1})
        for i, c in enumerate(ticks):
            nxt = ticks[i + 1] if i + 1 < len(ticks) else None
            dur = (nxt - c) * tick if nxt is not None else F(10 ** 6)
            items.append({"k": "action", "cb": i, "dur": dur})
            callbacks.append({"raise": "none", "ops": []})
        ops.append(G.sched_op(G.stream(items, False, "scripted"), F(0), F(0)))
        caller_id = nid; nid += 1
        return ticks

    def add_target_initial():
        nonlocal nid, target_id
        s, desc = make_stream(rng, tpb, 20, long_base=long_base)
        ops.append(G.sched_op(s, F(0), F(0), None, rng.random() < 0.5))
        o["initial_op"] = ops[-1]
        all_cyclic_box[0] = desc["cyclic"]
        target_id = nid; nid += 1
        o["initial"] = {"c": 0, "qe": F(0), "de": lat if lat > 0 else F(0), "desc": desc, "inside": False}

    call_ticks = None
    all_cyclic_box = [True]
    if inside and caller_first:
        call_ticks = add_caller()
    if family == "update":
        add_target_initial()
    if inside and not caller_first:
        call_ticks = add_caller()
    if family == "schedule":
        target_id = nid       # created by the tested call

    all_cyclic = True
    req_ops = []
    for i, r in enumerate(reqs):
        s, desc = make_stream(rng, tpb, 40 + 20 * i)
        all_cyclic = all_cyclic and desc["cyclic"]
        if family == "schedule":
            op = G.sched_op(s, r["q"], r["d"], None, False)
        else:
            op = ["update", target_id, s, r["q"], r["d"], None]
        qe, de = resolve(r["q"], r["d"])
        req_ops.append(op)
        # the caller track itself is scheduled with delay 0 + latency: its callbacks run that many ticks later
        o["reqs"].append({"c": r["c"] + (int(ceil(lat / tick)) if inside else 0), "qe": qe, "de": de, "desc": desc, "inside": inside})
    if not (all_cyclic and all_cyclic_box[0]) and "initial_op" in o:
        o["initial_op"][5] = False          # a finite stream would end the track (removal is C06's subject)
    o.pop("initial_op", None)
    if inside:
        for r, op in zip(reqs, req_ops):
            callbacks[call_ticks.index(r["c"])]["ops"].append(op)
    # the order of the target relative to the caller decides whether an immediate update made by a callback
    # still reaches this tick's turn of the target
    o["target_after_caller"] = bool(inside and caller_id is not None and family == "update" and caller_id < target_id)

    # history
    done = 0
    if inside:
        pass
    else:
        for r, op in zip(reqs, req_ops):
            if r["c"] > done:
                ops.append(["tick", r["c"] - done]); done = r["c"]
            ops.append(op)
    last_start = 0
    for rq in o["reqs"]:
        X = (rq["qe"] * ceil(rq["c"] * tick / rq["qe"]) if rq["qe"] else rq["c"] * tick) + rq["de"]
        last_start = max(last_start, rq["c"] + 1, int(ceil(X / tick)))
    tail = rng.choice([3, tpb, 2 * tpb + 1, 4 * tpb]) + 2
    total = min(last_start + tail, last_start + 6000)
    if total > done:
        ops.append(["tick", total - done])
    o["total"] = total
    o["target"] = target_id
    sc = {"tpb": tpb, "config": cfg, "callbacks": callbacks, "ops": ops,
          "meta": {"family": family, "inside": inside, "mode": mode, "nreq": nreq, "defaults": None if not defaults else [str(dq), str(dd)],
                   "latency": str(lat),
                   "requests": [{"call_tick": ro["c"], "q": str(r["q"]), "d": str(r["d"])} for r, ro in zip(reqs, o["reqs"])]}}
    if devices:
        sc["op_device"] = {str(i): tdev for i, op in enumerate(ops) if op[0] == "schedule"}
        sc["meta"]["mode"] = "devices." + mode
        sc["meta"]["devices"] = {"latencies": [str(x) for x in cfg["devices"]], "track_on": tdev}
    sc["_o"] = o
    return sc


# ---- updates that change more than the stream: the interpolation mode ---------------------------------------------
MODES = ["none", "linear", "cosine"]


def control_stream(rng, tpb, base):
    tick = F(1, tpb)
    n = rng.randint(2, 4)
    items = [{"k": "control", "dur": tick * rng.randint(2, 9), "ctl": 7, "val": rng.choice([0, 10, 40, 64, 100, 127]) if i else base, "prog": 0, "chan": 0}
             for i in range(n)]
    if len(set(i["val"] for i in items)) == 1:
        items[-1]["val"] = (base + 37) % 128
    return G.stream(items, True, rng.choice(["scripted", "psequence", "pdict"]))


def gen_interp_case(rng):
    """a control track (stepped, linear or cosine), a deferred update that may change the interpolation mode, at least one tick between
    the call and the switch.  Three histories: U (with the update), A (the old stream left alone), B (the new stream, in its new
    mode, scheduled on the switch tick on a timeline of its own): the property demands U = A before the switch tick and U = B from
    it on - whatever the streams' values are (C15's business)."""
    while True:
        tpb = rng.choice([4, 7, 10, 24, 48, 96])
        tick = F(1, tpb)
        m0 = rng.choice(MODES)
        m1 = rng.choice([None, "none", "linear", "cosine"])
        if m1 is None and rng.random() < 0.5:
            continue
        m1e = m0 if m1 is None else m1
        k0 = rng.choice([0, 0, 1, rng.randint(0, tpb)])
        c = rng.randint(1, 4 * tpb)
        q, d = qd_value(rng, tick), qd_value(rng, tick)
        qe, de = q or F(0), d or F(0)
        t = (k0 + c) * tick
        X = (qe * ceil(t / qe) if qe else t) + de
        j = max(k0 + c, int(ceil(X / tick)))
        if j < k0 + c + 1:
            continue
        n = j - (k0 + c) + rng.choice([5, tpb, 3 * tpb]) + 2
        s0, s1 = control_stream(rng, tpb, 1), control_stream(rng, tpb, 2)
        pre = [["tick", k0]] if k0 else []
        sched0 = G.sched_op(s0, F(0), F(0), None, False)
        U = {"tpb": tpb, "config": {}, "callbacks": [], "ops": pre + [sched0, ["tick", c], ["update", 0, s1, q, d, None], ["tick", n]],
             "interp": {str(len(pre)): m0}}
        if m1 is not None:
            U["interp"][str(len(pre) + 2)] = m1
        A = {"tpb": tpb, "config": {}, "callbacks": [], "ops": pre + [sched0, ["tick", c + n]], "interp": {str(len(pre)): m0}}
        B = {"tpb": tpb, "config": {}, "callbacks": [], "ops": [["tick", j], G.sched_op(s1, F(0), F(0), None, False), ["tick", k0 + c + n - j]],
             "interp": {"1": m1e}}
        meta = {"family": "update", "inside": False, "mode": "interp", "nreq": 1, "defaults": None, "latency": "0",
                "requests": [{"call_tick": k0 + c, "q": str(q), "d": str(d)}],
                "old_mode": m0, "interpolate_argument": m1, "new_mode": m1e, "switch_tick": j, "total_ticks": k0 + c + n}
        for x in (U, A, B):
            x["meta"] = meta
        return {"U": U, "A": A, "B": B, "meta": meta}


def per_tick(fsc, r):
    idx = S.tick_indices(fsc)
    out = {}
    for i, calls, res, ids in r["obs"]:
        kind, t = idx[i]
        if calls:
            out.setdefault(t, []).extend([c[0]] + [float(x) for x in c[1:]] for c in calls)
        if res != "ok":
            out.setdefault(t, []).append(["result", res])
    return out


def oracle_interp(case, fU, rU, fA, rA, fB, rB):
    """(ok, detail, leak): leak = the only deviation is that an interpolating old stream goes on after the switch into an interpolating
    new one (known finding C05-interp-update-leak)"""
    m = case["meta"]
    j, total = m["switch_tick"], m["total_ticks"]
    u, a, b = per_tick(fU, rU), per_tick(fA, rA), per_tick(fB, rB)
    for t in range(total):
        want = a.get(t, []) if t < j else b.get(t, [])
        if u.get(t, []) != want:
            what = ("before the switch tick %d the track must play its OLD stream in its OLD mode (%s)" % (j, m["old_mode"]) if t < j else
                    "from the switch tick %d on only the NEW stream in its mode (%s)" % (j, m["new_mode"]))
            leak = t >= j and m["old_mode"] != "none" and m["new_mode"] != "none"
            return False, "tick %d: device calls %r, expected %r (%s)" % (t, u.get(t, []), want, what), leak
    return True, "", False


# ---- the float layer: start times that fall on a decimal tie of round(., 8) -------------------------------------------
# When 512 divides ticks_per_beat, tick times with exactly nine decimals (k/512: every odd k) are ties of round(x, 8).  A delay or
# quantize value that is a whole number of ticks MATHEMATICALLY but is written as a float product or sum (delay=(7/3)*(33/3584)
# for 11/512 beat) puts the action's time a last bit beside such a tie; a due test that rounds both operands separately
# then says "not due" on the exact tick and the track starts one tick late.
TIE_TPBS = [512, 512, 1024, 1536, 2560, 5120]
TIE_FACTORS = [F(7, 3), F(11, 10), F(3, 10), F(7, 10), F(1, 3), F(9, 10), F(13, 10), F(1, 10), F(5, 7), F(2, 3), F(1, 5), F(6, 5)]


def inexact_double(rng, value):
    """a double within 1e-13 of the rational `value` (a whole number of ticks) that a caller obtains by writing it as a product
    a * (value / a) or a sum / difference with a non-dyadic a: (hex, how); ("exact") when twenty attempts all round correctly"""
    for _ in range(20):
        a = rng.choice(TIE_FACTORS)
        if rng.random() < 0.65:
            x, how = float(a) * float(value / a), "product"
        elif value > a:
            x, how = float(a) + float(value - a), "sum"
        else:
            x, how = float(a) - float(a - value), "difference"
        if x != float(value) and abs(F(x) - value) < F(1, 10 ** 13) and x > 0:
            return x.hex(), how
    return float(value).hex(), "exact"


def gen_tie_case(rng):
    """one schedule()/update() with quantize/delay that are whole numbers of ticks written as inexact doubles, requested on an
    arbitrary tick of a timeline whose resolution is a multiple of 512; same scenario/oracle format as gen_case"""
    tpb = rng.choice(TIE_TPBS)
    tick = F(1, tpb)
    family = rng.choice(["schedule", "schedule", "update"])
    c = rng.choice([0, 1, 2, 2, 3, 5, rng.randint(0, 64), rng.randint(0, 64), rng.randint(0, tpb), rng.randint(0, 2 * tpb)])
    r = rng.random()
    n = 2 * rng.randint(0, 15) + 1 if r < 0.4 else 2 * rng.randint(0, tpb) + 1 if r < 0.85 else rng.randint(1, 2 * tpb)
    d = n * tick
    q = F(0)
    if rng.random() < 0.3:
        q = rng.choice([1, 3, 5, 11, 33, tpb // 4, tpb // 2 + 1, rng.randint(1, tpb)]) * tick
        if rng.random() < 0.4:
            d = F(0)
    floats = {}
    hows = {"q": "-", "d": "-"}
    for key, v in (("q", q), ("d", d)):
        if v:
            floats[key], hows[key] = inexact_double(rng, v)
    ops, nid = [], 0
    o = {"tpb": tpb, "reqs": [], "family": family, "inside": False, "initial": None, "target_after_caller": False}
    if family == "update":
        s0, desc0 = make_stream(rng, tpb, 20, cyclic=True)
        ops.append(G.sched_op(s0, F(0), F(0), None, False))
        o["initial"] = {"c": 0, "qe": F(0), "de": F(0), "desc": desc0, "inside": False}
    s, desc = make_stream(rng, tpb, 40)
    if c > 0:
        ops.append(["tick", c])
    ops.append(G.sched_op(s, q, d, None, False) if family == "schedule" else ["update", 0, s, q, d, None])
    pos = len(ops) - 1
    o["reqs"].append({"c": c, "qe": q, "de": d, "desc": desc, "inside": False})
    X = (q * ceil(c * tick / q) if q else c * tick) + d
    start = max(c, int(ceil(X / tick)))
    total = start + rng.choice([3, tpb // 4, tpb // 2, tpb]) + 2
    ops.append(["tick", total - c])
    o["total"], o["target"] = total, 0
    sc = {"tpb": tpb, "config": {}, "callbacks": [], "ops": ops, "floats": {str(pos): floats},
          "meta": {"family": family, "inside": False, "mode": "tie", "nreq": 1, "defaults": None, "latency": "0",
                   "requests": [{"call_tick": c, "q": "0" if not q else "whole-ticks-as-" + hows["q"],
                                 "d": "0" if not d else "whole-ticks-as-" + hows["d"]}],
                   "quantize_beats": str(q), "delay_beats": str(d),
                   "floats": {k: "%r" % float.fromhex(v) for k, v in floats.items()}}}
    sc["_o"] = o
    return sc


# ---- the oracle: written from the property text, exact fractions ------------------------------------------------
def expected_trace(o, deferred_beats_immediate=False):
    """dict tick -> sorted list of ("on"|"off", note) the target track must emit; plus a flag 'ambiguous' when an
    immediate outside update coincides with a deferred start of the same tick (see META note)"""
    tick = F(1, o["tpb"])
    total = o["total"]
    segs = []            # (start tick, request order, stream description)
    allreqs = ([(-1, o["initial"])] if o["initial"] is not None else []) + list(enumerate(o["reqs"]))
    for i, rq in allreqs:
        t = rq["c"] * tick
        q, d = rq["qe"], rq["de"]
        X = (q * ceil(t / q) if q else t) + d
        imm = (q == 0 and d == 0)
        if not rq["inside"]:
            earliest = rq["c"]
        elif imm and o["family"] == "update" and o["target_after_caller"]:
            earliest = rq["c"]           # Track.start ran inside this tick, before the target's turn
        else:
            earliest = rq["c"] + 1
        j = max(earliest, int(ceil(X / tick)))
        segs.append((j, i, rq["desc"], imm))
    ambiguous = False
    starts = sorted(set(s[0] for s in segs))
    out = {}
    for si, j in enumerate(starts):
        here = [s for s in segs if s[0] == j]
        win = max(here, key=lambda s: s[1])
        if any(a[3] and not b[3] and a[1] > b[1] >= 0 for a in here for b in here):
            ambiguous = True         # an immediate start requested after a deferred one that fires on the same tick
            if deferred_beats_immediate:
                win = max([s for s in here if not s[3]], key=lambda s: s[1])
        end = starts[si + 1] if si + 1 < len(starts) else total
        desc = win[2]
        N, k = F(0), 0
        evs = desc["events"]
        while True:
            if not desc["cyclic"] and k >= len(evs):
                break
            onset = j + int(ceil(N / tick))
            if onset >= end or onset >= total:
                break
            dur, note, glen = evs[k % len(evs)]
            out.setdefault(onset, []).append(("on", note))
            off = onset + max(1, int(ceil(glen / tick)))
            if off < total:
                out.setdefault(off, []).append(("off", note))
            N += dur
            k += 1
    return {t: sorted(v) for t, v in out.items()}, ambiguous, segs


def oracle(sc, r):
    o = sc["_o"]
    exp, ambiguous, segs = expected_trace(o)
    idx = S.tick_indices(sc)
    got = {}
    for i, calls, res, ids in r["obs"]:
        kind, t = idx[i]
        for c in calls:
            if c[0] == "on":
                got.setdefault(t, []).append(("on", c[1]))
            elif c[0] == "off":
                got.setdefault(t, []).append(("off", c[1]))
        if res != "ok":
            return False, "operation %d (%s) returned %s" % (i, kind, res), ambiguous
    got = {t: sorted(v) for t, v in got.items()}
    if got != exp and ambiguous and got == expected_trace(o, True)[0]:
        return False, "IMMEDIATE-LOSES", ambiguous
    if got != exp:
        for t in sorted(set(got) | set(exp)):
            if got.get(t) != exp.get(t):
                starts = [(s[0], "request %d" % s[1] if s[1] >= 0 else "initial stream", "pitches from %d" % s[2]["events"][0][1]) for s in segs]
                return False, ("tick %d: device calls of the track %r, expected %r; stream starts (tick, request, pitches): %r"
                               % (t, got.get(t, []), exp.get(t, []), starts)), ambiguous
    return True, "", ambiguous


def strip(sc):
    return {k: v for k, v in sc.items() if k != "_o"}


def run_impl_c05(run, scenarios, shards=8):
    parts = [scenarios[i::shards] for i in range(shards) if scenarios[i::shards]]
    outs = run.impl_parallel("c05_impl", [{"scenarios": p} for p in parts])
    res = [None] * len(scenarios)
    for si, out in enumerate(outs):
        for k, r in enumerate(out["results"]):
            res[si + k * shards] = r
    return res


def check_interp(run, n):
    rng = run.rng
    cases = [gen_interp_case(rng) for _ in range(n)]
    fins = [[G.finalize(c[k]) for k in "UAB"] for c in cases]
    flat = [f for tri in fins for f in tri]
    res = run_impl_c05(run, flat)
    for i, (c, tri) in enumerate(zip(cases, fins)):
        rU, rA, rB = res[3 * i:3 * i + 3]
        m = c["meta"]
        run.count()
        run.dist("tpb.%d" % tri[0]["tpb"]); run.dist("family.update"); run.dist("call-time.interp"); run.dist("site.outside")
        run.dist("update.mode.%s->%s" % (m["old_mode"], m["new_mode"]))
        run.dist("update.interpolate-argument.%s" % ("given" if m["interpolate_argument"] else "absent"))
        bad = [r for r in (rU, rA, rB) if "driver_error" in r]
        if bad:
            run.violation({"kind": "driver-error", "site": "Timeline"}, {"scenario": tri[0], "observed": bad[0]}, found_input=True)
            continue
        ok, detail, leak = oracle_interp(c, tri[0], rU, tri[1], rA, tri[2], rB)
        run.cov["oracle_evaluations"] += 1
        if sum(1 for _, calls, _, _ in rU["obs"] if calls) >= 2:
            run.nontrivial(json.dumps(tri[0], sort_keys=True))
        if not ok:
            kind = "interp-update-leak" if leak else "update-changes-old-stream"
            run.violation({"kind": kind, "site": "Track.update/Track.start"}, {
                "scenario": tri[0], "meta": m, "observed": detail,
                "oracle": "differential: the same old stream left alone (A) until the switch tick, the new stream in its new mode scheduled on "
                          "the switch tick on a timeline of its own (B) from then on; switch tick = first tick j >= call tick with j*tick >= q*ceil(t/q)+d",
                "reference_histories": {"A": tri[1], "B": tri[2]},
                "python": "# PYTHONPATH=/repo /venv/bin/python /verif/harness/impl/c05_impl.py <<< '{\"scenarios\": [<scenario>, <A>, <B>]}'"})
    return len(cases)


def check(run):
    rng = run.rng
    quick = run.tier == "quick"
    n = 520 if quick else 6000
    scs = [gen_case(rng, run.tier) for _ in range(n)]
    longs = [2 * 10 ** 4] * 6 if quick else [2 * 10 ** 5] * 12 + [2 * 10 ** 4] * 12
    scs += [gen_case(rng, run.tier, long_ticks=lt - rng.randint(0, 50)) for lt in longs]
    scs += [gen_tie_case(rng) for _ in range(140 if quick else 2200)]
    n_main = len(scs)
    scs += [gen_case(rng, run.tier, devices=True) for _ in range(90 if quick else 1200)]
    fin = [G.finalize(strip(sc)) for sc in scs]
    for f in fin:
        if f.get("floats") and f["U"] * 2 > 10 ** 8:
            raise CheckError("tie stratum: U = %d is too large for the exactness lemmas" % f["U"])
    results = S.run_impl(run, fin[:n_main], shards=14) + run_impl_c05(run, fin[n_main:])
    flagged = set()
    n_amb = 0
    for i, (sc, fsc, r) in enumerate(zip(scs, fin, results)):
        run.count()
        m = sc["meta"]
        run.dist("tpb.%d" % sc["tpb"]); run.dist("family." + m["family"]); run.dist("call-time." + m["mode"])
        run.dist("site." + ("callback" if m["inside"] else "outside")); run.dist("requests.%d" % m["nreq"])
        if m["defaults"]: run.dist("timeline-defaults-set")
        if m["latency"] != "0": run.dist("latency")
        if m.get("devices"):
            run.dist("devices.%d" % len(m["devices"]["latencies"]))
            run.dist("devices.track-on-%s" % ("default" if m["devices"]["track_on"] == 0 else "non-default"))
            run.dist("devices.own-latency-%s" % ("zero" if m["latency"] == "0" else "positive"))
        for rq in m["requests"]:
            run.dist("q." + rq["q"]); run.dist("d." + rq["d"])
        if "driver_error" in r:
            flagged.add(i)
            run.violation({"kind": "driver-error", "site": "Timeline"}, {"scenario": fsc, "observed": r}, found_input=True)
            continue
        ok, detail, ambiguous = oracle(sc, r)
        run.cov["oracle_evaluations"] += 1
        o = sc["_o"]
        starts = sorted(set(s[0] for s in expected_trace(o)[2]))
        if len(starts) != len(expected_trace(o)[2]):
            run.dist("colliding-target-ticks")
        if sum(1 for _, calls, _, _ in r["obs"] for c in calls if c[0] == "on") >= 2:
            run.nontrivial(json.dumps(fsc, sort_keys=True))
        if ambiguous:
            n_amb += 1
            run.dist("immediate-vs-deferred-same-tick")
        if not ok and detail == "IMMEDIATE-LOSES":
            run.violation({"kind": "last-wins-immediate-vs-deferred", "site": "Track.update"}, {
                "scenario": fsc, "meta": m,
                "observed": "an immediate update (quantize = delay = 0) requested between ticks at exactly the time a deferred start of the same track "
                            "is due never plays: the deferred start, requested earlier, fires in the action phase of that tick and replaces it",
                "trace_head": r["obs"][:16], "python": S.python_snippet(fsc)})
        elif not ok:
            flagged.add(i)
            run.violation({"kind": "start-tick-or-switch", "site": "Timeline._schedule_action/Track.update"}, {
                "scenario": fsc, "meta": m, "observed": detail,
                "oracle": "exact fractions: start tick = first tick j >= call tick with j*tick >= q*ceil(t/q)+d (t+d for q=0); old stream until then, "
                          "new stream from then on, last request wins, every note released max(1, ceil(duration*gate/tick)) ticks after its onset",
                "trace_head": r["obs"][:16], "python": S.python_snippet(fsc)})
        if i < 3:
            run.sample({"meta": m, "first_observations": r["obs"][:6]})
    bad = S.model_disagreements(run, fin, results, chunk=24)
    run.cov["traces_validated_against_impl"] = len(fin) - len(bad)
    for i in bad:
        if i in flagged:
            continue
        S.report_disagreement(run, fin[i], results[i], "correspondence", "Timeline/Track.update", {"meta": scs[i]["meta"]})
    run.cov["rule"] = ("one case = one history: [timeline defaults]; k ticks; schedule(q, d) or 1-3 update(q, d) calls (outside or from action callbacks, "
                       "colliding targets in ~half of the multi-update cases); ticks until every stream has played; at one of 9 resolutions, "
                       "optionally with device latency; distinct by scenario text; non-trivial = at least two note-ons performed")
    run.cov["long_prefix_ticks"] = longs
    run.cov["immediate_vs_deferred_collisions"] = n_amb
    run.cov["traces_validated_against_impl"] += 0
    run.cov["interp_update_cases"] = check_interp(run, 120 if quick else 1500)


def replay(run, doc):
    fsc = doc["scenario"]
    if fsc.get("interp"):
        print("replay: differential case; run harness/impl/c05_impl.py on the scenario and its reference histories A, B (in the replay file)")
        return 0
    r = (run_impl_c05(run, [fsc], shards=1) if fsc["config"].get("devices") else S.run_impl(run, [fsc], shards=1))[0]
    bad = S.model_disagreements(run, [fsc], [r]) if "driver_error" not in r else [0]
    print("replay: implementation/model agree:", not bad)
    if bad:
        print("implementation:", json.dumps(r.get("obs", r))[:1500])
        print("model:", S.model_trace(run, fsc)[:1500])
    return 1 if bad else 0

"""Shared machinery of the isobar verification checks.

One `Run` per invocation of ./check <ID>.  It
  * rebuilds the Coq development for the property's cone (after regenerating Generated/Tables.v from the
    repository under test), checks that the property theorems are closed (Print Assumptions) and that no
    forbidden construct occurs in the cone,
  * offers `coq_failing(...)`: evaluate boolean correspondence terms inside Coq with vm_compute and
    return the indices of those that are false,
  * runs implementation drivers in fresh /venv/bin/python subprocesses with PYTHONPATH=<repo>,
  * records violations (matching them against known_findings.json), writes replays and evidence.
"""
import fcntl, hashlib, json, os, random, re, shutil, subprocess, sys, time
from concurrent.futures import ThreadPoolExecutor
from fractions import Fraction

VERIF = os.path.dirname(os.path.dirname(os.path.abspath(__file__)))
REPO = os.environ.get("ISOBAR_REPO", "/repo")
PY = "/venv/bin/python"
COQDIR = os.path.join(VERIF, "coq")
GUARD = "ISOBAR_VERIF"

FORBIDDEN = re.compile(
    r"\b(Admitted|admit|Axiom|Axioms|Parameter|Parameters|Conjecture|Conjectures|Abort All)\b"
    r"|Unset\s+Guard|Unset\s+Positivity|Unset\s+Universe|bypass_check|type-in-type|impredicative-set"
    r"|Admit\s+Obligations|native_compute")
STMT = re.compile(r"^\s*(?:Local\s+|Global\s+|#\[[^\]]*\]\s*)*(Theorem|Lemma|Corollary|Example|Fact|Remark|Proposition)\s+([A-Za-z0-9_']+)", re.M)
CLOSER = re.compile(r"\b(Qed|Defined)\s*\.")

# axioms of the Coq standard library that a proof may depend on (named in DESIGN.md section 7)
ALLOWED_AXIOMS = {
    "ClassicalDedekindReals.sig_forall_dec", "ClassicalDedekindReals.sig_not_dec",
    "FunctionalExtensionality.functional_extensionality_dep",
    "functional_extensionality_dep", "sig_forall_dec", "sig_not_dec",
    "Classical_Prop.classic", "classic",
}

TRUSTED_BASE = [
    "Coq 8.16.1 kernel incl. its bytecode VM (vm_compute); native_compute not used",
    "harness/gen_tables.py (translator of isobar's tables/constants to coq/Generated/Tables.v)",
    "the Python correspondence harness (generators, implementation drivers, canonicalisation) and coqc evaluating the model on the same cases",
    "CPython 3.12 semantics of int arithmetic as mirrored by Z.div/Z.modulo",
]


def _limit_memory():
    """a runaway evaluation must not take the machine down: 12 GB of address space per coqc"""
    import resource
    resource.setrlimit(resource.RLIMIT_AS, (12 << 30, 12 << 30))


def env_for_impl():
    e = dict(os.environ)
    e["PYTHONPATH"] = REPO
    e["PYTHONHASHSEED"] = "0"
    e[GUARD] = "1"
    e["PYTHONDONTWRITEBYTECODE"] = "1"
    return e


# ------------------------------------------------------------------------------------------------
# Coq literal printers
# ------------------------------------------------------------------------------------------------
def zlit(n):
    if isinstance(n, bool) or not isinstance(n, int):
        raise TypeError("zlit: %r" % (n,))
    return "(%d)" % n if n < 0 else "%d" % n


def zlist(l):
    return "[" + "; ".join(zlit(x) for x in l) + "]"


def natlit(n):
    assert isinstance(n, int) and n >= 0
    return "%d%%nat" % n


def blit(b):
    return "true" if b else "false"


def slit(s):
    if not isinstance(s, str) or any(ord(c) > 126 or ord(c) < 32 for c in s):
        raise TypeError("slit: %r" % (s,))
    return '"%s"%%string' % s.replace('"', '""')


def optlit(x, f):
    return "None" if x is None else "(Some %s)" % f(x)


def qlit(x):
    """exact rational literal (Q) of an int / float / Fraction"""
    fr = Fraction(x)
    return "(%s # %d)" % (zlit(fr.numerator), fr.denominator)


def lst(items):
    return "[" + "; ".join(items) + "]"


# ------------------------------------------------------------------------------------------------
class CheckError(Exception):
    """internal harness error: exit 2, never a VIOLATION line"""


class Run:
    def __init__(self, prop, tier, seed):
        self.prop = prop
        self.tier = tier
        self.seed = seed
        self.rng = random.Random(seed * 1000003 + int(prop[1:]))
        self.t0 = time.time()
        self.work = os.path.join(VERIF, ".work", "%s-%d" % (prop, os.getpid()))
        os.makedirs(self.work, exist_ok=True)
        self.cov = {
            "evaluations": 0, "distinct_nontrivial": 0, "rule": "", "samples": [],
            "traces_validated_against_impl": 0, "obligations": 0, "discharged": 0,
            "checker_cmd": "", "trusted_base": list(TRUSTED_BASE),
            "oracle_evaluations": 0, "distribution": {}, "discarded": {},
        }
        self.assumptions = []
        self.violations = []       # printed VIOLATION lines
        self.known_hits = []
        self.theorems = {}
        self.open_obligations = []
        self._nontrivial = set()
        self.known = load_known_findings(prop)
        self._coq_counter = 0

    # ---- bookkeeping -------------------------------------------------------------------------
    def count(self, n=1):
        self.cov["evaluations"] += n

    def nontrivial(self, case_text):
        self._nontrivial.add(hashlib.sha1(case_text.encode()).hexdigest())

    def dist(self, key, n=1):
        d = self.cov["distribution"]
        d[key] = d.get(key, 0) + n

    def discard(self, why, n=1):
        d = self.cov["discarded"]
        d[why] = d.get(why, 0) + n

    def sample(self, case, limit=4):
        if len(self.cov["samples"]) < limit:
            self.cov["samples"].append(case)

    # ---- build -------------------------------------------------------------------------------
    def build(self, extra_targets=(), extra_generators=()):
        """Regenerate tables, build Props/<prop>.vo (full .vo, never -vos), check closedness."""
        prop = self.prop
        os.makedirs(os.path.join(COQDIR, "Generated"), exist_ok=True)
        lock = open(os.path.join(COQDIR, ".build.lock"), "w")
        fcntl.flock(lock, fcntl.LOCK_EX)
        try:
            r = subprocess.run([PY, os.path.join(VERIF, "harness", "gen_tables.py"),
                                os.path.join(COQDIR, "Generated", "Tables.v")],
                               env=env_for_impl(), capture_output=True, text=True, timeout=120)
            if r.returncode != 0:
                self.broken_obligation("Generated/Tables.v", "the table translator rejected the source: " + r.stderr.strip()[-600:])
                return False
            import extra_checks
            layer_generators = set(g for gens, _ in extra_checks.EXTRA.values() for g in gens)
            degraded = False
            for g in extra_generators:
                out_name = "Tables" + g.replace("gen_tables_", "").replace(".py", "").capitalize() + ".v"
                r = subprocess.run([PY, os.path.join(VERIF, "harness", g), os.path.join(COQDIR, "Generated", out_name)],
                                   env=env_for_impl(), capture_output=True, text=True, timeout=120)
                if r.returncode != 0:
                    self.broken_obligation("Generated/" + out_name, "the table translator rejected the source: " + r.stderr.strip()[-600:])
                    if g not in layer_generators:
                        return False
                    degraded = True       # an additional layer generated from the source: go on with the property's own file
            ensure_makefile()
            pfiles = prop_files(prop) if not degraded else [prop + ".v"]
            if degraded:
                self.cov["degraded_build"] = "a source translator of an additional layer rejected the source; building Props/%s.v only and searching for a failing input with it" % prop
            targets = ["Props/%s.vo" % f[:-2] for f in pfiles] + list(extra_targets)
            cmd = ["timeout", "2400", "make", "-j16"] + targets
            r = subprocess.run(cmd, cwd=COQDIR, capture_output=True, text=True)
            self.cov["checker_cmd"] = "cd coq && coq_makefile -f _CoqProject -o Makefile && make -j16 " + " ".join(targets) + \
                " (coqc 8.16.1, full .vo) && coqc Print Assumptions for every theorem of Props/%s.v" % prop
            if r.returncode != 0:
                m = re.search(r'File "\./([^"]+)", line (\d+)', r.stdout + r.stderr)
                where = "%s line %s" % (m.group(1), m.group(2)) if m else "?"
                self.build_log = (r.stdout + r.stderr)[-3000:]
                self.broken_obligation(where, "coqc failed: " + self.build_log[-1200:])
                # A broken obligation in an additional layer (Props/<prop>Float.v, Props/<prop>Src.v: generated from the source)
                # must not end the run without a search for a failing input: when the property's own file still builds,
                # the check goes on with it (the run fails in any case: the broken obligation has been reported).
                core = ["Props/%s.vo" % prop] + list(extra_targets)
                if core == targets or subprocess.run(["timeout", "2400", "make", "-j16"] + core, cwd=COQDIR,
                                                     capture_output=True, text=True).returncode != 0:
                    return False
                pfiles = [prop + ".v"]
                self.cov["degraded_build"] = "only Props/%s.v (and its cone) could be built; searching for a failing input with it" % prop
        finally:
            fcntl.flock(lock, fcntl.LOCK_UN)
            lock.close()
        cone = sorted(set(f for pf in pfiles for f in coq_cone("Props/" + pf)))
        n_stmt = n_closed = 0
        for f in cone:
            txt = strip_comments(open(os.path.join(COQDIR, f)).read())
            m = FORBIDDEN.search(txt)
            if m:
                self.broken_obligation(f, "forbidden construct %r in the development" % m.group(0))
                return False
            n_stmt += len(STMT.findall(txt))
            n_closed += len(CLOSER.findall(txt))
        self.cov["obligations"] = n_stmt
        self.cov["discharged"] = min(n_stmt, n_closed)
        self.cov["cone_files"] = cone
        # closedness of the property theorems
        names, src = [], ""
        for pf in pfiles:
            ptxt = strip_comments(open(os.path.join(COQDIR, "Props", pf)).read())
            ns = [n for (_, n) in STMT.findall(ptxt)]
            names += ns
            src += "From Isobar Require Import Props.%s.\n" % pf[:-2] + "".join('Print Assumptions %s.\n' % n for n in ns)
        out = self.coqc_text("assumptions", src)
        blocks = split_assumption_output(out, len(names))
        if blocks is None:
            raise CheckError("cannot parse Print Assumptions output:\n" + out[-2000:])
        for n, b in zip(names, blocks):
            if b.strip().startswith("Closed under the global context"):
                self.theorems[n] = "closed"
            else:
                axs = [a for a in re.findall(r"^([A-Za-z_][\w.']*)\s*:", b, re.M) if a != "Axioms"]
                bad = [a for a in axs if a not in ALLOWED_AXIOMS and a.split(".")[-1] not in ALLOWED_AXIOMS]
                self.theorems[n] = "axioms: " + ", ".join(axs)
                for a in axs:
                    s = "theorem %s depends on standard-library axiom %s" % (n, a)
                    if s not in self.assumptions:
                        self.assumptions.append(s)
                if bad:
                    self.broken_obligation("Props/%s.v" % prop, "theorem %s depends on non-standard axioms %s" % (n, bad))
                    return False
        self.open_obligations = [n for n in names if n.endswith("_partial") or n.endswith("_unproved")]
        return True

    def broken_obligation(self, where, detail):
        self.violation({"kind": "proof-obligation", "where": where}, {
            "broken": "proof obligation %s" % where, "detail": detail}, found_input=False)

    # ---- running Coq on cases ------------------------------------------------------------------
    def coqc_text(self, name, src, timeout=900):
        self._coq_counter += 1
        base = "W%s_%s_%d" % (self.prop, re.sub(r"\W", "_", name), self._coq_counter)
        path = os.path.join(self.work, base + ".v")
        with open(path, "w") as f:
            f.write(src)
        r = subprocess.run(["timeout", str(timeout), "coqc", "-noglob", "-Q", COQDIR, "Isobar", path],
                           capture_output=True, text=True, cwd=self.work, preexec_fn=_limit_memory)
        if r.returncode != 0:
            raise CheckError("coqc failed on %s:\n%s" % (path, (r.stdout + r.stderr)[-3000:]))
        return r.stdout

    def coq_failing(self, header, terms, chunk=400, jobs=12):
        """terms: list of Coq expressions of type bool.  Returns sorted indices of the false ones."""
        if not terms:
            return []
        chunks = [(i, terms[i:i + chunk]) for i in range(0, len(terms), chunk)]

        def one(ic):
            i0, ts = ic
            src = header + "\nDefinition results : list bool := [\n" + ";\n".join(ts) + "\n].\n" \
                "Eval vm_compute in failing results.\n"
            out = self.coqc_text("cases%d" % i0, src)
            return [i0 + k for k in parse_nat_list(out)]
        bad = []
        with ThreadPoolExecutor(max_workers=jobs) as ex:
            for r in ex.map(one, chunks):
                bad.extend(r)
        return sorted(bad)

    def coq_eval(self, header, term):
        """Evaluate one term with vm_compute and return Coq's printed value (whitespace-normalised)."""
        out = self.coqc_text("eval", header + "\nEval vm_compute in (%s).\n" % term)
        out = " ".join(out.split())
        m = re.match(r"^= (.*) : [^:]*$", out)
        return m.group(1) if m else out

    # ---- implementation side ----------------------------------------------------------------
    def impl(self, script, payload, timeout=1800):
        """Run harness/impl/<script>.py in a fresh interpreter against the repository; JSON in, JSON out."""
        p = os.path.join(VERIF, "harness", "impl", script + ".py")
        r = subprocess.run([PY, p], input=json.dumps(payload), env=env_for_impl(),
                           capture_output=True, text=True, timeout=timeout, cwd=self.work)
        if r.returncode != 0:
            raise CheckError("implementation driver %s failed (rc %d):\n%s" % (script, r.returncode, r.stderr[-3000:]))
        return json.loads(r.stdout)

    def impl_parallel(self, script, payloads, jobs=12, timeout=1800):
        with ThreadPoolExecutor(max_workers=jobs) as ex:
            return list(ex.map(lambda p: self.impl(script, p, timeout), payloads))

    # ---- violations --------------------------------------------------------------------------
    def violation(self, signature, replay, found_input=True):
        """signature: small dict used for matching known findings and de-duplication.
        replay: JSON-able description (case, expected, observed, python snippet ...)."""
        sig_key = json.dumps(signature, sort_keys=True)
        for k in self.known:
            if k.get("status") == "known" and all(signature.get(a) == b for a, b in k.get("match", {}).items()):
                if k["id"] not in self.known_hits:
                    self.known_hits.append(k["id"])
                    print("KNOWN-FINDING: property=%s %s" % (self.prop, k["what"]))
                return False
        if any(v["sig"] == sig_key for v in self.violations):
            return True
        h = hashlib.sha1((sig_key + json.dumps(replay, sort_keys=True, default=str)).encode()).hexdigest()[:12]
        os.makedirs(os.path.join(VERIF, "replays"), exist_ok=True)
        path = os.path.join(VERIF, "replays", "%s-%s.json" % (self.prop, h))
        doc = {"property": self.prop, "tier": self.tier, "seed": self.seed, "signature": signature,
               "failing_input_found": bool(found_input)}
        doc.update(replay)
        with open(path, "w") as f:
            json.dump(doc, f, indent=1, default=str)
        line = "VIOLATION property=%s replay=%s" % (self.prop, path)
        if not found_input:
            line += " no-failing-input-found"
        print(line)
        sys.stdout.flush()
        self.violations.append({"sig": sig_key, "path": path, "found": found_input})
        return True

    # ---- evidence ------------------------------------------------------------------------------
    def finish(self):
        self.cov["distinct_nontrivial"] = len(self._nontrivial)
        self.cov["theorems"] = self.theorems
        self.cov["open_obligations"] = self.open_obligations
        self.cov["known_findings_hit"] = self.known_hits
        ev = {
            "property_id": self.prop, "tier": self.tier, "seed": self.seed, "level": "proof",
            "coverage": self.cov, "assumptions": self.assumptions,
            "wall_s": round(time.time() - self.t0, 2), "violations": len(self.violations),
        }
        # VERIF_EVIDENCE_DIR: developer runs against a deliberately broken copy of the repository (seeded changes)
        # must not overwrite the evidence of the registered checks
        evdir = os.environ.get("VERIF_EVIDENCE_DIR") or os.path.join(VERIF, "evidence")
        os.makedirs(evdir, exist_ok=True)
        tmp = os.path.join(evdir, ".%s.%d.tmp" % (self.prop, os.getpid()))
        with open(tmp, "w") as f:
            json.dump(ev, f, indent=1, default=str)
        os.replace(tmp, os.path.join(evdir, self.prop + ".json"))
        shutil.rmtree(self.work, ignore_errors=True)
        try:
            os.rmdir(os.path.join(VERIF, ".work"))
        except OSError:
            pass
        return 1 if self.violations else 0


# ------------------------------------------------------------------------------------------------
def load_known_findings(prop):
    out = []
    p = os.path.join(VERIF, "known_findings.json")
    if os.path.exists(p):
        out += json.load(open(p))
    d = os.path.join(VERIF, "known_findings.d")
    if os.path.isdir(d):
        for nm in sorted(os.listdir(d)):
            if nm.endswith(".json"):
                out += json.load(open(os.path.join(d, nm)))
    return [k for k in out if k.get("property") == prop]


def prop_files(prop):
    """the files holding the property theorems of `prop`: Props/<prop>.v and Props/<prop><Suffix>.v (e.g. C01Float.v)"""
    d = os.path.join(COQDIR, "Props")
    return sorted(f for f in os.listdir(d) if re.fullmatch(re.escape(prop) + r"[A-Za-z]*\.v", f))


def strip_comments(txt):
    out, depth, i, n = [], 0, 0, len(txt)
    in_str = False
    while i < n:
        c2 = txt[i:i + 2]
        if not in_str and c2 == "(*":
            depth += 1; i += 2; continue
        if not in_str and depth and c2 == "*)":
            depth -= 1; i += 2; continue
        ch = txt[i]
        if depth == 0:
            if ch == '"':
                in_str = not in_str
            out.append(ch if not in_str or ch == '"' else " ")
        i += 1
    return "".join(out)


def list_vfiles():
    fs = []
    for d, _, names in os.walk(COQDIR):
        for nm in names:
            if nm.endswith(".v") and not nm.startswith("."):
                fs.append(os.path.relpath(os.path.join(d, nm), COQDIR))
    return sorted(fs)


def ensure_makefile():
    want = "-Q . Isobar\n" + "\n".join(list_vfiles()) + "\n"
    cp = os.path.join(COQDIR, "_CoqProject")
    have = open(cp).read() if os.path.exists(cp) else None
    if have != want or not os.path.exists(os.path.join(COQDIR, "Makefile")):
        with open(cp, "w") as f:
            f.write(want)
        r = subprocess.run(["coq_makefile", "-f", "_CoqProject", "-o", "Makefile"], cwd=COQDIR,
                           capture_output=True, text=True)
        if r.returncode != 0:
            raise CheckError("coq_makefile failed: " + r.stderr)


REQ = re.compile(r"From\s+Isobar\s+Require\s+(?:Import|Export)\s+([^.]*(?:\.[A-Za-z_][\w.]*)*)\s*\.\s", re.S)


def coq_cone(root):
    """files (relative to coq/) transitively required by root, via `From Isobar Require Import A.B ...`"""
    seen, todo = [], [root]
    while todo:
        f = todo.pop()
        if f in seen:
            continue
        seen.append(f)
        txt = strip_comments(open(os.path.join(COQDIR, f)).read())
        for m in re.finditer(r"From\s+Isobar\s+Require\s+(?:Import|Export)\s+((?:[A-Za-z_][\w]*(?:\.[A-Za-z_]\w*)*\s*)+)\.", txt):
            for mod in m.group(1).split():
                p = mod.replace(".", "/") + ".v"
                if os.path.exists(os.path.join(COQDIR, p)):
                    todo.append(p)
    return sorted(seen)


def split_assumption_output(out, n):
    """Print Assumptions prints either 'Closed under the global context' or 'Axioms:' + lines."""
    blocks, cur = [], None
    for line in out.splitlines():
        if line.startswith("Closed under the global context") or line.startswith("Axioms:"):
            if cur is not None:
                blocks.append(cur)
            cur = line + "\n"
        elif cur is not None:
            cur += line + "\n"
    if cur is not None:
        blocks.append(cur)
    return blocks if len(blocks) == n else None


def parse_nat_list(out):
    txt = " ".join(out.split())
    m = re.search(r"= \[(.*?)\]\s*: list nat", txt)
    if not m:
        raise CheckError("cannot parse Coq output: " + txt[:500])
    body = m.group(1).strip()
    if not body:
        return []
    return [int(x.replace("%nat", "").strip()) for x in body.split(";")]


def main_entry(module, argv):
    import argparse
    ap = argparse.ArgumentParser()
    ap.add_argument("--tier", default=os.environ.get("VERIF_TIER", "quick"), choices=["quick", "thorough"])
    ap.add_argument("--seed", type=int, default=int(os.environ.get("VERIF_SEED", "1")))
    ap.add_argument("--replay", default=None)
    a = ap.parse_args(argv)
    run = Run(module.PROP, a.tier, a.seed)
    try:
        if a.replay:
            rc = module.replay(run, json.load(open(a.replay)))
            shutil.rmtree(run.work, ignore_errors=True)
            return rc
        import extra_checks
        xg, xc = extra_checks.EXTRA.get(module.PROP, ((), ()))
        if run.build(getattr(module, "EXTRA_TARGETS", ()), tuple(getattr(module, "EXTRA_GENERATORS", ())) + tuple(xg)):
            module.check(run)
            for f in xc:
                f(run)
        rc = run.finish()
        print("%s %s tier=%s seed=%d evaluations=%d nontrivial=%d obligations=%d/%d wall=%.1fs" % (
            module.PROP, "FAIL" if rc else "ok", a.tier, a.seed, run.cov["evaluations"],
            run.cov["distinct_nontrivial"], run.cov["discharged"], run.cov["obligations"], time.time() - run.t0))
        return rc
    except CheckError as e:
        sys.stderr.write("CHECK-ERROR %s: %s\n" % (module.PROP, e))
        shutil.rmtree(run.work, ignore_errors=True)
        return 2

#!/venv/bin/python
"""Translator of the __next__ bodies of isobar/pattern/tonal.py (PDegree PFilterByKey PNearestNoteInKey) ->
coq/Generated/TablesSteptonal.v: harness/gen_tables_step.py in tonal mode (same statement forms, plus `x in key`,
`key.nearest_note(x)`, `scale[x]`, `isinstance(x, typing.Iterable)`, `tuple(E for v in xs)`: Pat/TonalSrcLib.v).
Fail-closed (exit 3), rewritten only when changed.  See docs/TRANSLATOR.md."""
import os, sys
sys.path.insert(0, os.path.dirname(os.path.abspath(__file__)))
sys.dont_write_bytecode = True
import gen_tables_step as G

if __name__ == "__main__":
    try:
        G.main_tonal(sys.argv[1])
    except Exception as e:
        sys.stderr.write("gen_tables_steptonal: FAILED: %r\n" % (e,))
        sys.exit(3)

#!/bin/sh
# run all quick checks, 4 at a time
cd /verif
mkdir -p ${OUT:-/tmp/base}
ls harness/c[0-9][0-9].py | sed 's|harness/c\(..\).py|C\1|' | xargs -P ${JOBS:-4} -I{} sh -c './check {} --tier ${TIER:-quick} > ${OUT:-/tmp/base}/{}.log 2>&1; echo "{} rc=$?" >> ${OUT:-/tmp/base}/summary'

"""Float layer of C01 (Base/FloatGrid.v, Base/FloatGridSrc.v, Generated/TablesTime.v).

The theorems say: the expression by which the SOURCE advances Timeline.current_time / Track.current_time (translated from
the source text on every run by gen_tables_time.py) maps the correctly rounded k/tpb to the correctly rounded (k+1)/tpb, so
the float time after n ticks is the correctly rounded n/tpb.  The tie to the code is the translator (the proof by
reflexivity in FloatGridSrc.v breaks when the source expression changes); this module adds the observation on the
implementation: at every tick of runs at many resolutions the float time IS k / tpb bit for bit."""
import json

TPBS = [1, 2, 3, 4, 7, 10, 12, 24, 48, 96, 100, 120, 192, 384, 480, 960, 1000, 1920, 3840, 65536, 99991, 1048576]


def check_float_grid(run):
    rng = run.rng
    n = 20000 if run.tier == "quick" else 400000
    cases = [{"tpb": t, "ticks": n, "start_after": rng.randrange(0, 50), "sample": n // 4} for t in TPBS]
    # a few random resolutions as well
    cases += [{"tpb": rng.randrange(1, 1 << 20), "ticks": n // 2, "start_after": rng.randrange(0, 50), "sample": n // 8}
              for _ in range(6)]
    shards = [cases[i::7] for i in range(7)]
    outs = run.impl_parallel("float_grid_impl", [{"cases": s} for s in shards], jobs=7)
    flat = [(c, r) for s, o in zip(shards, outs) for c, r in zip(s, o)]
    ticks = 0
    for c, r in flat:
        run.count()
        run.dist("float-grid.tpb.%d" % c["tpb"] if c["tpb"] in TPBS else "float-grid.tpb.random")
        if "driver_error" in r:
            run.violation({"kind": "driver-error", "site": "float-grid"}, {"case": c, "observed": r}, found_input=True)
            continue
        ticks += c["ticks"]
        run.nontrivial("float-grid " + json.dumps(c, sort_keys=True))
        if r["first_bad"] is not None:
            run.violation({"kind": "float-time-off-grid", "site": "Timeline.tick/Track.tick"}, {
                "case": c, "observed": r["first_bad"],
                "broken": "C01_float_time_on_grid (Base/FloatGridSrc.v): the float time after k ticks must be the correctly rounded k / ticks_per_beat",
                "python": "import isobar as iso\ntl = iso.Timeline(120, output_device=iso.DummyOutputDevice(), clock_source=iso.DummyClock(ticks_per_beat=%d))\n"
                          "for k in range(%d): tl.tick()\nprint(tl.current_time, %d / %d)" % (c["tpb"], r["first_bad"]["tick"], r["first_bad"]["tick"], c["tpb"])})
    run.cov["float_grid"] = {"runs": len(flat), "ticks_compared_bit_exact": ticks,
                             "note": "timeline.current_time == k / tpb and track.current_time == (k - start) / tpb at every tick"}

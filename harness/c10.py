"""C10 — deterministic library patterns match their reference definitions.

Theorems: coq/Props/C10.v (closed forms per class by induction; the reference interpreter `ref_eval` on expressions
and the composition theorem; Euclidean rhythms k <= n <= 64: length, onsets, evenness; arpeggiator orders).
Oracle: an independent list-based reference interpreter (`ref`, below) written from the class documentation
(docstrings of isobar/pattern/*.py, docs/patterns/library.md), NOT from the model and not from isobar's code: a
pattern denotes a Python list (plus a flag "the stream ends here"), every class is a list function.
Correspondence: the same expressions are run on the Coq model (Pat/Step.v through Pat/Script.v, compared inside
Coq) when every class of the expression is modelled; PEuclidean._euclidean and the PArpeggiator orders are
compared exhaustively with their Coq transcriptions (Pat/Ref.v)."""
import operator, re
from fractions import Fraction
from pat_common import *

PROP = "C10"
META = {
 "engine": "P-pattern-algebra",
 "text": "Coq theorems (Props/C10.v, closed under the global context) prove on the executable model of the pattern classes (Pat/Step.v) that each class's outputs under repeated next() equal an independently written closed-form list definition (Pat/Ref.v) for all arguments of the documented domain and arbitrary operand objects (induction, not sampling), that the reference interpreter ref_eval on expressions is compositional (outputs (init e) = ref_eval e by induction on e, infinite operands through every finite prefix), that the transcription of PEuclidean._euclidean gives length n, exactly k onsets and window-evenness for all k <= n <= 64 (complete enumeration, bound in the statement) and that every arpeggiator order is the documented arrangement of the sorted chord. Every run ties model and repository together: generated expressions (every class over its argument domain, nestings to depth 3) are executed on the repository, judged by an independent list-based reference interpreter written from the documentation, and compared with the Coq model inside Coq. What an object produces is a function of its own arguments only: for every session of new/next/reset operations on any number of objects the i-th object behaves as the same expression built and driven alone (C10_session_isolation, C10_arp_session_isolation; Pat/Session.v), the looping arpeggiator arrangements are the documented ones and repeat for ever (C10_arp_loop_arrangement, C10_arp_loop_periodic); the repository is held to it by sessions of 1-4 programs of the same class with nearly the same arguments, constructed / stepped / reset in interleaved order inside one interpreter (one forked child per session), each judged by its own reference list.",
 "note": "Trusted: Coq kernel + VM; the harness; Python's own arithmetic as the reference for single float operations. Classes that call libm or chain several float roundings (PScaleLinExp, PMidiNoteToFrequency, PTri, PSaw, PInterpolate, PScaleLinLin, PNormalise on floats) are oracle-only with the documented formula mirrored operation by operation in Python; nothing is proved about them. PCreep, PPermut, PInterpolate, PScalar, PNormalise, PDegree, PLSystem, PMap with user functions are outside the deep embedding: oracle only.",
}

N_NEXT = 72          # calls of next() per case
H = 240              # how much of an endless stream the reference interpreter materialises


class CannotJudge(Exception):
    pass


class Raw:
    """verbatim Python source inside an expression (function names, Scale objects)"""
    def __init__(self, s):
        self.s = s

    def __repr__(self):
        return self.s


def src(x):
    if isinstance(x, Raw):
        return x.s
    if isinstance(x, E):
        return "iso.%s(%s)" % (x.cls, ", ".join(src(a) for a in x.args))
    if isinstance(x, tuple):
        return "(" + ", ".join(src(a) for a in x) + ("," if len(x) == 1 else "") + ")"
    if isinstance(x, list):
        return "[" + ", ".join(src(a) for a in x) + "]"
    if isinstance(x, dict):
        return "{" + ", ".join("%r: %s" % (k, src(v)) for k, v in x.items()) + "}"
    return scalar_source(x)


def has_raw(x):
    if isinstance(x, Raw):
        return True
    if isinstance(x, E):
        return any(has_raw(a) for a in x.args)
    if isinstance(x, (tuple, list)):
        return any(has_raw(a) for a in x)
    if isinstance(x, dict):
        return any(has_raw(a) for a in x.values())
    return False


def classes_of(x):
    out = set()
    if isinstance(x, E):
        out.add(x.cls)
        for a in x.args:
            out |= classes_of(a)
    elif isinstance(x, (tuple, list)):
        for a in x:
            out |= classes_of(a)
    elif isinstance(x, dict):
        for a in x.values():
            out |= classes_of(a)
    return out


def depth_of(x):
    if isinstance(x, E):
        return 1 + max([depth_of(a) for a in x.args] + [0])
    if isinstance(x, (tuple, list)):
        return max([depth_of(a) for a in x] + [0])
    if isinstance(x, dict):
        return max([depth_of(a) for a in x.values()] + [0])
    return 0


# ================================================================================================
# the reference interpreter: a pattern is a list
# ================================================================================================
class S:
    """the first len(v) values of a stream; done: the stream ends after them"""
    __slots__ = ("v", "done")

    def __init__(self, v, done):
        self.v, self.done = list(v), bool(done)


def need_done(s, what):
    if not s.done:
        raise CannotJudge("%s of an endless input" % what)
    return s.v


def fr(x):
    if isinstance(x, bool) or not isinstance(x, (int, float)):
        raise CannotJudge("non-numeric argument %r" % (x,))
    return Fraction(x)


def num(q, as_float):
    """the Python number with exact value q"""
    if as_float:
        f = float(q)
        if Fraction(f) != q:
            raise CannotJudge("inexact-float")
        return f
    if q.denominator != 1:
        raise CannotJudge("non-integral int")
    return int(q)


def isf(*xs):
    return any(isinstance(x, float) for x in xs)


def const_or_stream(a):
    """an argument that may be a scalar (the constant stream) or a pattern"""
    return ref(a) if is_pat(a) else S([a] * H, False)


def zip_streams(*ss):
    n = min(len(s.v) for s in ss)
    done = any(s.done and len(s.v) == n for s in ss)
    return n, done


def perms(l):
    """every permutation of l, in the order of the positions (first position varies slowest)"""
    if len(l) <= 1:
        return [list(l)]
    out = []
    for i in range(len(l)):
        for rest in perms(l[:i] + l[i + 1:]):
            out.append([l[i]] + rest)
    return out


def bjorklund(k, n):
    """Bjorklund's algorithm as described by Toussaint (2005): k sequences [1] and n-k sequences [0]; the remainder
    sequences are repeatedly distributed over the others until at most one remainder is left"""
    if k == 0:
        return [0] * n
    a, b = [[1] for _ in range(k)], [[0] for _ in range(n - k)]
    while len(b) > 1:
        m = min(len(a), len(b))
        paired = [a[i] + b[i] for i in range(m)]
        rest = a[m:] if len(a) > m else b[m:]
        a, b = paired, rest
    return [x for g in a + b for x in g]


ARP = {"UP": 0, "DOWN": 1, "CONVERGE": 2, "DIVERGE": 3, "UPDOWN": 6, "DOWNUP": 7, "BUILD": 8, "BREAK": 9, "ROOTBOUNCE": 10}
ARP_MIN = {8: 2, 9: 2, 10: 3}


def arp_order(n, ty):
    """indices into the sorted chord, from the documentation of each order"""
    up = list(range(n))
    if ty == 0:
        return up
    if ty == 1:
        return up[::-1]
    if ty == 2:                                  # outside in: lowest, highest, second lowest, ...
        out, lo, hi = [], 0, n - 1
        while lo <= hi:
            out.append(lo); lo += 1
            if lo <= hi:
                out.append(hi); hi -= 1
        return out
    if ty == 3:                                  # the reverse journey: from the middle outwards
        return arp_order(n, 2)[::-1]
    if ty == 6:                                  # up, then down without repeating the top note
        return up[:-1] + up[::-1]
    if ty == 7:
        return up[::-1][:-1] + up
    if ty == 8:                                  # 0, 0 1, 0 1 2, ...
        return [j for m in range(1, n + 1) for j in range(m)]
    if ty == 9:                                  # as the code has it: n-1..0, n-2..0, ..., 0
        return [j for m in range(n, 0, -1) for j in range(m - 1, -1, -1)]
    if ty == 10:                                 # 0 1 0 2 ... 0 n 0 n-1 ... 0 1 0
        walk = list(range(1, n)) + list(range(n - 2, 0, -1))
        out = [0]
        for w in walk:
            out += [w, 0]
        return out
    raise CannotJudge("arpeggiator type %r" % ty)


def diverge_order(n):
    """DIVERGE as the tests pin it: [2,1,3,0,4] / [1,2,0,3]: start at the (lower) middle, alternate outwards"""
    if n % 2 == 1:
        mid = n // 2
        out = [mid]
        for d in range(1, mid + 1):
            out += [mid - d, mid + d]
        return out
    lo, hi = n // 2 - 1, n // 2
    out = []
    while lo >= 0:
        out += [lo, hi]; lo -= 1; hi += 1
    return out


FN_REF = {
    "sq": lambda v: None if v is None else v * v,
    "addc": lambda v, c: None if v is None else v + c,
    "neg": lambda v: None if v is None else -v,
    "isnone": lambda v: 1 if v is None else 0,
    "mulk": lambda v, k=2: None if v is None else v * k,
}
BIN = {"PAdd": operator.add, "PSub": operator.sub, "PMul": operator.mul}
SCALES = {"major": [0, 2, 4, 5, 7, 9, 11], "minor": [0, 2, 3, 5, 7, 8, 10], "minorPenta": [0, 3, 5, 7, 10], "wholetone": [0, 2, 4, 6, 8, 10]}


def lsystem_expand(rule, depth):
    s = "N"
    for _ in range(depth):
        s = "".join(rule if c == "N" else c for c in s)
    return s


def ref(x):
    """the list an expression denotes, from the documentation of its classes"""
    if not isinstance(x, E):
        raise CannotJudge("not a pattern: %r" % (x,))
    c, a = x.cls, x.args
    if c == "PConstant":
        return S([a[0]] * H, False)
    if c == "PSequence":
        xs = a[0]
        if any(is_pat(i) for i in xs) or (len(a) > 1 and is_pat(a[1])):
            raise CannotJudge("PSequence with pattern items / repeats")
        if not xs:
            return S([], True)
        if len(a) > 1:
            return S(xs * a[1], True)
        return S((xs * (H // len(xs) + 1))[:H], False)
    if c == "PSeries":
        start = a[0] if len(a) > 0 else 0
        step = a[1] if len(a) > 1 else 1
        length = a[2] if len(a) > 2 else None
        if is_pat(length):
            raise CannotJudge("PSeries with pattern length")
        n = H if length is None else max(0, length)
        if is_pat(step):
            st = ref(step)
            out, cur, f = [], fr(start), isinstance(start, float)
            for i in range(n):
                out.append(start if i == 0 else num(cur, f))
                if i >= len(st.v):
                    return S(out[:i], st.done) if st.done else S(out[:i], False)
                if st.v[i] is None:
                    raise CannotJudge("rest as a step")
                cur += fr(st.v[i]); f = f or isinstance(st.v[i], float)
            return S(out, length is not None)
        f = isf(start, step)
        out = [start if i == 0 else num(fr(start) + i * fr(step), f) for i in range(n)]
        return S(out, length is not None)
    if c == "PRange":
        start, end, step = (a + [0, 128, 1][len(a):])[:3]
        if is_pat(end) or is_pat(step):
            raise CannotJudge("PRange with pattern arguments")
        if step == 0:
            return S([start] * H, False)
        out, i, f = [], 0, isf(start, step)
        while True:
            q = fr(start) + i * fr(step)
            if (step > 0 and q >= fr(end)) or (step < 0 and q <= fr(end)) or i >= 4 * H:
                break
            out.append(start if i == 0 else num(q, f)); i += 1
        return S(out, True)
    if c == "PGeom":
        start, mult = a[0], a[1]
        if is_pat(mult):
            raise CannotJudge("PGeom with pattern multiplier")
        n = a[2] if len(a) > 2 else 40
        f = isf(start, mult)
        return S([start if i == 0 else num(fr(start) * fr(mult) ** i, f) for i in range(max(0, n))], len(a) > 2)
    if c == "PImpulse":
        if is_pat(a[0]) or a[0] < 1:
            raise CannotJudge("PImpulse period")
        return S([1 if i % a[0] == 0 else 0 for i in range(H)], False)
    if c == "PRef":
        return ref(a[0])
    if c in BIN:
        l, r = const_or_stream(a[0]), const_or_stream(a[1])
        n, done = zip_streams(l, r)
        return S([None if (p is None or q is None) else BIN[c](p, q) for p, q in zip(l.v[:n], r.v[:n])], done)
    if c == "PAbs":
        p = const_or_stream(a[0])
        return S([None if v is None else abs(v) for v in p.v], p.done)
    if c == "PInt":
        p = const_or_stream(a[0])
        return S([None if v is None else int(v) for v in p.v], p.done)
    if c == "PConcatenate":
        out = []
        for i, e in enumerate(a[0]):
            s = ref(e)
            out += s.v
            if not s.done:
                return S(out, False)
        return S(out, True)
    if c == "PLoop":
        p = ref(a[0])
        if not p.done:
            return S(p.v, False)
        if len(a) > 1:
            if a[1] < 1:
                raise CannotJudge("PLoop count < 1")
            return S(p.v * a[1], True)
        if not p.v:
            return S([], True)
        return S((p.v * (H // len(p.v) + 1))[:H], False)
    if c == "PPingPong":
        v = need_done(ref(a[0]), "PPingPong")
        count = a[1] if len(a) > 1 else 1
        if count < 1:
            raise CannotJudge("PPingPong count < 1")
        if len(v) < 2:
            return S(v, True)                     # nothing to bounce between: the input as it is
        return S((v + v[-2:0:-1]) * count + [v[0]], True)
    if c == "PCreep":
        p = ref(a[0])
        length, creep, repeats = (a[1:] + [4, 1, 1][len(a) - 1:])[:3]
        if length < 1 or creep < 1 or repeats < 1:
            raise CannotJudge("PCreep arguments < 1")
        if len(p.v) < length:
            raise CannotJudge("PCreep input shorter than the segment")
        out, j = [], 0
        while j * creep + length <= len(p.v) and len(out) < 4 * H:
            out += p.v[j * creep: j * creep + length] * repeats
            j += 1
        return S(out, p.done)
    if c == "PStutter":
        p = const_or_stream(a[0])
        count = a[1] if len(a) > 1 else 2
        cs = const_or_stream(count)
        if any((k is None or k < 1) for k in cs.v[:len(p.v)]):
            raise CannotJudge("PStutter count < 1")
        n, done = zip_streams(p, cs)
        out = [v for v, k in zip(p.v[:n], cs.v[:n]) for _ in range(k)]
        return S(out[:4 * H], done)
    if c == "PSubsequence":
        p = ref(a[0])
        off, n = a[1], a[2]
        if is_pat(off) or is_pat(n) or off < 0:
            raise CannotJudge("PSubsequence arguments")
        n = max(n, 0)
        if len(p.v) >= off + n or p.done:
            return S(p.v[off:off + n], True)
        raise CannotJudge("PSubsequence beyond the horizon")
    if c == "PInterpolate":
        p = ref(a[0])
        st = const_or_stream(a[1])
        mode = a[2].s if len(a) > 2 else "iso.INTERPOLATION_LINEAR"
        if not p.v:
            raise CannotJudge("PInterpolate of an empty input")
        cur, out, i, j = p.v[0], [p.v[0]], 1, 0
        while len(out) < 4 * H:
            if j >= len(st.v):
                return S(out, st.done)
            n = int(st.v[j]); j += 1
            if n < 1:
                raise CannotJudge("PInterpolate steps < 1")
            if i >= len(p.v):
                return S(out, p.done)
            target = p.v[i]; i += 1
            if cur is None or target is None:
                raise CannotJudge("rest under PInterpolate")
            if mode.endswith("NONE"):
                seg = [cur] * (n - 1) + [target]
            else:
                dt = target - cur
                seg = [cur + dt * (m + 1) / n for m in range(n)]          # the documented line, operation by operation
            out += seg
            cur = seg[-1]
        return S(out, False)
    if c == "PReverse":
        return S(need_done(ref(a[0]), "PReverse")[::-1], True)
    if c == "PReset":
        p, t = ref(a[0]), ref(a[1])
        out, pos = [], 0
        for i, tv in enumerate(t.v):
            if tv is not None and tv > 0:
                pos = 0
            if pos >= len(p.v):
                if any(x is not None and x > 0 for x in t.v[i + 1:]) or not t.done:
                    # a later trigger would rewind the exhausted operand: the PReset yields again AFTER its StopIteration;
                    # what an enclosing pattern makes of that is not fixed by any reference definition - not judged
                    raise CannotJudge("PReset that revives after its StopIteration")
                return S(out, p.done)
            out.append(p.v[pos]); pos += 1
        return S(out, t.done)
    if c == "PCounter":
        t = ref(a[0])
        out, prev, count = [], 0, 0
        for tv in t.v:
            if tv is None:
                raise CannotJudge("rest as a trigger")
            if tv > 0 and prev <= 0:
                count += 1
            prev = tv
            out.append(count)
        return S(out, t.done)
    if c == "PCollapse":
        p = const_or_stream(a[0])
        return S([v for v in p.v if v is not None], p.done)
    if c == "PNoRepeats":
        p = const_or_stream(a[0])
        out = []
        for v in p.v:
            if v == SYS_MAXSIZE:
                raise CannotJudge("sys.maxsize under PNoRepeats")
            if not out or not (v == out[-1]):
                out.append(v)
        return S(out, p.done)
    if c == "PPad":
        v = need_done(ref(a[0]), "PPad")
        return S(v + [None] * max(0, a[1] - len(v)), True)
    if c == "PPadToMultiple":
        v = need_done(ref(a[0]), "PPadToMultiple")
        m, minpad = a[1], (a[2] if len(a) > 2 else 0)
        if m < 1:
            raise CannotJudge("multiple < 1")
        pad = max(0, minpad)
        while (len(v) + pad) % m != 0:
            pad += 1
        return S(v + [None] * pad, True)
    if c == "PPermut":
        p = ref(a[0])
        count = a[1] if len(a) > 1 else 8
        if count < 1 or count > 5:
            raise CannotJudge("PPermut count")
        if len(p.v) < count and not p.done:
            raise CannotJudge("PPermut beyond the horizon")
        block = p.v[:count]
        if not block:
            return S([], True)
        return S([v for q in perms(block) for v in q], True)
    if c == "PArpeggiator":
        notes, ty = sorted(a[0]), (a[1] if len(a) > 1 else 0)
        if len(notes) < ARP_MIN.get(ty, 1):
            raise CannotJudge("chord too small for this order")
        order = diverge_order(len(notes)) if ty == 3 else arp_order(len(notes), ty)
        if len(a) > 2 and a[2]:
            # loop=True: the arrangement round and round.  UPDOWN / DOWNUP leave out the last entry ("to prevent double
            # notes" where the cycles join, chords of more than one note), ROOTBOUNCE the last three ("for a smooth loop")
            if ty in (6, 7) and len(notes) > 1:
                order = order[:-1]
            elif ty == 10:
                order = order[:-3]
            cyc = [notes[i] for i in order]
            return S((cyc * (H // len(cyc) + 1))[:H], False)
        return S([notes[i] for i in order], True)
    if c == "PEuclidean":
        k, n = a[0], a[1]
        phase = a[2] if len(a) > 2 else 0
        if is_pat(phase):
            raise CannotJudge("PEuclidean arguments")
        if is_pat(k) or is_pat(n):
            # pattern-valued onsets / steps: both are resolved afresh at every step (C12), the position runs on and wraps
            # at the length of the rhythm of that step; the pattern ends when a parameter stream ends
            ks, ns = const_or_stream(k), const_or_stream(n)
            m, done = zip_streams(ks, ns)
            out, pos = [], phase
            for i in range(m):
                ki, ni = ks.v[i], ns.v[i]
                if type(ki) is not int or type(ni) is not int or not (0 <= ki <= ni and ni >= 1):
                    raise CannotJudge("PEuclidean arguments")
                if pos >= ni:
                    pos = 0
                out.append(1 if bjorklund(ki, ni)[pos] else None)
                pos += 1
            return S(out, done)
        if not (0 <= k <= n and n >= 1) or not (0 <= phase < n):
            raise CannotJudge("PEuclidean arguments")
        seq = [1 if b else None for b in bjorklund(k, n)]
        return S([seq[(phase + i) % n] for i in range(H)], False)
    if c == "PChanged":
        p = const_or_stream(a[0])
        if not p.v:
            raise CannotJudge("PChanged of an empty input")
        return S([0 if p.v[i + 1] == p.v[i] else 1 for i in range(len(p.v) - 1)], p.done)
    if c == "PDiff":
        p = const_or_stream(a[0])
        if not p.v:
            raise CannotJudge("PDiff of an empty input")
        return S([None if (p.v[i] is None or p.v[i + 1] is None) else p.v[i + 1] - p.v[i] for i in range(len(p.v) - 1)], p.done)
    if c == "PSkipIf":
        p, s = const_or_stream(a[0]), const_or_stream(a[1])
        n, done = zip_streams(p, s)
        return S([None if s.v[i] else p.v[i] for i in range(n)], done)
    if c == "PNormalise":
        p = const_or_stream(a[0])
        out, lo, hi = [], None, None
        for v in p.v:
            if v is None:
                raise CannotJudge("rest under PNormalise")
            lo = v if lo is None or v < lo else lo
            hi = v if hi is None or v > hi else hi
            out.append(0.0 if hi == lo else (v - lo) / (hi - lo))
        return S(out, p.done)
    if c == "PMap":
        p = ref(a[0])
        f = FN_REF[a[1].s[4:-2]]
        extra = [const_or_stream(e) for e in a[2:]]
        n, done = zip_streams(p, *extra)
        return S([f(p.v[i], *[e.v[i] for e in extra]) for i in range(n)], done)
    if c == "PRound":
        p = ref(a[0])
        if len(a) > 1:
            return S([None if v is None else round(v, a[1]) for v in p.v], p.done)
        return S([None if v is None else round(v) for v in p.v], p.done)
    if c == "PScaleLinLin":
        p = ref(a[0])
        f0, f1, t0, t1 = a[1:5]
        out = []
        for v in p.v:
            if v is None:
                raise CannotJudge("rest under PScaleLinLin")
            norm = (v - f0) / (f1 - f0)
            out.append(norm * (t1 - t0) + t0)
        return S(out, p.done)
    if c == "PScaleLinExp":
        p = ref(a[0])
        f0, f1, t0, t1 = a[1:5]
        out = []
        for v in p.v:
            if v is None:
                raise CannotJudge("rest under PScaleLinExp")
            out.append(t0 if v < f0 else t1 if v > f1 else ((t1 / t0) ** ((v - f0) / (f1 - f0))) * t0)
        return S(out, p.done)
    if c == "PScalar":
        p = ref(a[0])
        method = a[1] if len(a) > 1 else "mean"
        out = []
        for v in p.v:
            if isinstance(v, (tuple, list)):
                out.append(None if len(v) == 0 else (sum(v) / len(v) if method == "mean" else v[0]))
            else:
                out.append(v)
        return S(out, p.done)
    if c == "PWrap":
        p = ref(a[0])
        lo, hi = (a[1:] + [40, 80][len(a) - 1:])[:2]
        if not lo < hi:
            raise CannotJudge("PWrap with min >= max")
        out = []
        for v in p.v:
            if v is None:
                raise CannotJudge("rest under PWrap")
            if lo <= v < hi:
                out.append(v)
            else:
                q = fr(lo) + (fr(v) - fr(lo)) % (fr(hi) - fr(lo))
                out.append(num(q, isf(v, lo, hi)))
        return S(out, p.done)
    if c == "PIndexOf":
        items = a[0]
        p = const_or_stream(a[1])
        out = []
        for v in p.v:
            idx = None
            if v is not None:
                for i, it in enumerate(items):
                    if it == v:
                        idx = i
                        break
            out.append(idx)
        return S(out, p.done)
    if c == "PArrayIndex":
        items = a[0]
        if any(is_pat(i) for i in items):
            raise CannotJudge("PArrayIndex over patterns")
        p = const_or_stream(a[1])
        out = []
        for v in p.v:
            if v is None:
                out.append(None)
            else:
                i = int(v)
                if not (-len(items) <= i < len(items)):
                    raise CannotJudge("index out of range")
                out.append(items[i])
        return S(out, p.done)
    if c == "PDictKey":
        d = a[0]
        if not isinstance(d, dict) or any(is_pat(v) for v in d.values()):
            raise CannotJudge("PDictKey over a pattern")
        p = const_or_stream(a[1])
        if any(k not in d for k in p.v):
            raise CannotJudge("missing key")
        return S([d[k] for k in p.v], p.done)
    if c == "PDegree":
        p = const_or_stream(a[0])
        sc = SCALES[a[1].s.split(".")[-1]]

        def deg(d):
            return 12 * (d // len(sc)) + sc[d % len(sc)]
        return S([None if v is None else tuple(deg(d) for d in v) if isinstance(v, tuple) else deg(v) for v in p.v], p.done)
    if c == "PMidiNoteToFrequency":
        p = const_or_stream(a[0])
        return S([None if v is None else 440.0 * pow(2, (v - 69.0) / 12) for v in p.v], p.done)
    if c in ("PTri", "PSaw"):
        length, lo, hi = (a + [10, 0.0, 1.0][len(a):])[:3]
        if length < 1:
            raise CannotJudge("oscillator length < 1")
        out = []
        for i in range(H):
            phase = i if i <= length else (i - 1) % length + 1       # the phase counter runs 0..length, then 1..length
            norm = float(phase) / length
            if c == "PTri":
                rv = norm * 2.0 if norm < 0.5 else 1.0 - (norm - 0.5) * 2.0
            else:
                rv = norm
            out.append(lo + (hi - lo) * rv)
        return S(out, False)
    if c == "PLSystem":
        rule, depth = a[0], (a[1] if len(a) > 1 else 3)
        if "?" in rule or "_" in rule:
            raise CannotJudge("stochastic / rest tokens")
        out, state, stack = [], 0, []
        for ch in lsystem_expand(rule, depth):
            if ch == "N":
                out.append(state)
            elif ch == "+":
                state += 1
            elif ch == "-":
                state -= 1
            elif ch == "[":
                stack.append(state)
            elif ch == "]":
                state = stack.pop()
        return S(out, True)
    raise CannotJudge("no reference definition for %s" % c)


# ================================================================================================
# typed comparison of observations
# ================================================================================================
def canon(v):
    if v is None:
        return "None"
    if isinstance(v, bool):
        return "bool:%r" % v
    if isinstance(v, int):
        return "int:%d" % v
    if isinstance(v, float):
        if v != v or v in (float("inf"), float("-inf")):
            return "float:%r" % v
        return "float:%s" % Fraction(v)
    if isinstance(v, str):
        return "str:%s" % v
    if isinstance(v, tuple):
        return "(" + ",".join(canon(e) for e in v) + ")"
    if isinstance(v, list):
        return "[" + ",".join(canon(e) for e in v) + "]"
    if isinstance(v, Opaque):
        return "opaque:" + v.what
    return "other:%r" % (v,)


def obs_canon(o):
    if o == "stop":
        return "StopIteration"
    if isinstance(o, dict) and "r" in o:
        return "raise " + o["r"]
    return canon(from_json(o["y"]))


def judge(expr, obs):
    """None | dict(index, expected, observed); raises CannotJudge"""
    s = ref(expr)
    if obs_canon(obs[0]) != "None":
        return {"index": -1, "expected": "the constructor succeeds", "observed": obs_canon(obs[0])}
    got = obs[1:]
    want = [canon(v) for v in s.v[:len(got)]]
    if s.done and len(want) < len(got):
        want.append("StopIteration")
    for i, w in enumerate(want):
        if obs_canon(got[i]) != w:
            return {"index": i, "expected": w, "observed": obs_canon(got[i]), "judged": len(want)}
    return None


# ================================================================================================
# generation: the documented domain
# ================================================================================================
KINDS = ("int", "intrest", "norest", "num", "any")


class DocGen:
    """expressions inside the documented argument domain of every class; `kind` is what the consumer accepts:
    int / intrest (ints and rests) / norest (ints and exact floats) / num (ints, exact floats, rests) / any
    (also floats that went through a rounded operation)"""

    def __init__(self, rng, run):
        self.rng, self.run = rng, run

    def val(self, kind, lo=-6, hi=12):
        r = self.rng
        if kind in ("intrest", "num", "any") and r.random() < 0.14:
            return None
        if kind in ("norest", "num", "any") and r.random() < 0.25:
            return r.randint(lo * 4, hi * 4) / 4.0
        return r.randint(lo, hi)

    def length(self):
        r = self.rng
        k = r.random()
        if k < 0.3:
            return r.choice([0, 1, 2, 3])
        if k < 0.4:
            return r.choice([63, 64])
        if k < 0.8:
            return r.randint(3, 9)
        return r.randint(10, 64)

    def leaf(self, fin, kind):
        r = self.rng
        k = r.random()
        self.run.dist("leaf")
        if k < 0.5:
            n = r.choice([0, 1, 1, 2, 2, 3, 3, 4, 5, 6, 8]) if r.random() < 0.9 else r.randint(9, 64)
            xs = [self.val(kind) for _ in range(n)]
            if fin or r.random() < 0.7:
                return E("PSequence", xs, r.choice([1, 1, 1, 2, 3]))
            return E("PSequence", xs) if xs else E("PSequence", xs, 1)
        if k < 0.75:
            fl = kind in ("norest", "num", "any") and r.random() < 0.25
            start = r.randint(-24, 48) / 4.0 if fl else r.randint(-6, 12)
            step = r.randint(-12, 16) / 4.0 if (fl or (kind in ("norest", "num", "any") and r.random() < 0.1)) else r.randint(-3, 4)
            if fin or r.random() < 0.7:
                return E("PSeries", start, step, self.length() if r.random() < 0.5 else r.randint(0, 8))
            return E("PSeries", start, step)
        if k < 0.87:
            fl = kind in ("norest", "num", "any") and r.random() < 0.25
            step = r.choice([-3, -2, -1, 1, 2, 3]) if not fl else r.choice([-1.5, -0.25, 0.5, 1.25, 2.0])
            start = r.randint(-6, 12)
            span = r.randint(0, 9) * abs(step) + (r.choice([0, 0, abs(step) / 2]) if fl else r.choice([0, 0, 1]) if abs(step) > 1 else 0)
            end = start + span if step > 0 else start - span
            if r.random() < 0.08:
                end = start - span if step > 0 else start + span
            return E("PRange", start, end, step)
        if k < 0.93:
            fl = kind in ("norest", "num", "any") and r.random() < 0.2
            return E("PGeom", r.choice([1, 2, 3, -1, 0.5]) if fl else r.randint(-3, 4), r.choice([2, -2, 3, 0, 1, -1]) if not fl else r.choice([0.5, 1.5, -2.0]),
                     r.randint(0, 8))
        if fin:
            return E("PSubsequence", E("PImpulse", r.randint(1, 5)), r.randint(0, 3), r.randint(0, 9))
        return E("PImpulse", r.randint(1, 5)) if r.random() < 0.6 else E("PConstant", self.val(kind))

    def trigger(self, fin):
        r = self.rng
        if not fin and r.random() < 0.5:
            return E("PImpulse", r.randint(1, 5))
        xs = [r.choice([0, 1, 0, 1, -1, 2, 0.5]) for _ in range(r.randint(1, 8))]
        if fin or r.random() < 0.6:
            return E("PSequence", xs, r.randint(1, 3))
        return E("PSequence", xs)

    # classes available for each requested kind ------------------------------------------------------
    STRUCT = ["PStutter", "PLoop", "PPingPong", "PSubsequence", "PReverse", "PCreep", "PPermut", "PConcatenate", "PReset",
              "PRef", "PNoRepeats", "PAbs", "PAdd", "PSub", "PMul", "PArrayIndex", "PDiff", "PMap"]
    RESTS = ["PPad", "PPadToMultiple", "PSkipIf"]
    TOINT = ["PChanged", "PCounter", "PDegree", "PInt", "PCollapse", "PRound", "PWrap", "PArpeggiator", "PEuclidean", "PLSystem",
             "PIndexOf", "PDictKey", "PScalar"]
    FLOATY = ["PNormalise", "PScaleLinLin", "PInterpolate"]
    INEXACT = ["PScaleLinExp", "PMidiNoteToFrequency", "PTri", "PSaw"]
    ENDLESS_ONLY = ("PEuclidean", "PTri", "PSaw")

    def pool(self, kind):
        p = list(self.STRUCT) + list(self.TOINT)
        if kind in ("intrest", "num", "any"):
            p += self.RESTS
        if kind == "any":
            p += self.FLOATY + self.INEXACT
        return p

    def gen(self, depth, fin, kind, cls=None):
        if depth <= 0 and cls is None:
            return self.leaf(fin, kind)
        r = self.rng
        if cls is None:
            for _ in range(10):
                cls = r.choice(self.pool(kind))
                if not (fin and cls in self.ENDLESS_ONLY):
                    break
            else:
                return self.leaf(fin, kind)
        e = self.make(cls, depth - 1, fin, kind)
        self.run.dist("class." + cls)
        return e

    def finite(self, e):
        try:
            return ref(e).done
        except CannotJudge:
            return False
        except Exception:
            return False

    def make(self, c, d, fin, kind):
        r, g = self.rng, self.gen
        sub = lambda f=fin, k=kind: g(d, f, k)
        rests = kind in ("intrest", "num", "any")
        if c == "PStutter":
            k = r.choice([1, 2, 2, 3, 4])
            if r.random() < 0.2:
                return E("PStutter", sub(), E("PSequence", [r.randint(1, 3) for _ in range(r.randint(1, 3))]))
            return E("PStutter", sub(), k) if r.random() < 0.8 else E("PStutter", sub())
        if c == "PLoop":
            return E("PLoop", sub(True), r.randint(1, 4)) if (fin or r.random() < 0.8) else E("PLoop", sub(True))
        if c == "PPingPong":
            x = sub(True)
            for _ in range(6):
                s = self.try_ref(x)
                if s is not None and s.done and (len(s.v) >= 2 or r.random() < 0.3):
                    break
                x = E("PSequence", [self.val(kind) for _ in range(r.randint(0, 6))], 1)
            return E("PPingPong", x, r.randint(1, 3)) if r.random() < 0.8 else E("PPingPong", x)
        if c == "PSubsequence":
            return E("PSubsequence", sub(False), r.choice([0, 0, 1, 2, 3, 5]), r.choice([0, 1, 2, 3, 4, 6, 9, 17, 64]))
        if c == "PReverse":
            return E("PReverse", sub(True))
        if c == "PCreep":
            length = r.randint(1, 4)
            x = sub()
            s = self.try_ref(x)
            if s is None or len(s.v) < length:
                x = E("PSeries", r.randint(0, 5), r.randint(1, 3), r.randint(length, length + 6))
            args = [x, length, r.randint(1, 3), r.randint(1, 3)]
            return E("PCreep", *args[:r.choice([2, 3, 4, 4])])
        if c == "PPermut":
            return E("PPermut", sub(), r.randint(1, 4))
        if c == "PConcatenate":
            n = r.randint(1, 3)
            return E("PConcatenate", [g(d, True if i < n - 1 else fin, kind) for i in range(n)])
        if c == "PReset":
            # the operand's own reset() is property C04: only operands of the modelled fragment (whose reset is proved /
            # repaired there) are put under PReset
            x = sub(False)
            for _ in range(8):
                if modelled(x):
                    break
                x = g(min(d, 1), False, kind)
            else:
                x = self.leaf(False, kind)
            return E("PReset", x, self.trigger(fin))
        if c == "PRef":
            return E("PRef", sub())
        if c == "PNoRepeats":
            return E("PNoRepeats", sub(True))
        if c == "PAbs":
            return E("PAbs", sub())
        if c in ("PAdd", "PSub", "PMul"):
            k = r.random()
            if k < 0.5:
                l, rr = sub(), g(d, False, kind)
                if r.random() < 0.5:
                    l, rr = rr, l
                return E(c, l, rr)
            sc = self.val("int" if kind in ("int", "intrest") else "norest", -4, 6)
            return E(c, sub(), sc) if k < 0.75 else E(c, sc, sub())
        if c == "PArrayIndex":
            items = [self.val(kind) for _ in range(r.randint(1, 6))]
            n = len(items)
            idx = [r.randint(-n, n - 1) if r.random() < 0.3 else r.randint(0, n - 1) for _ in range(r.randint(1, 6))]
            if rests and r.random() < 0.4:
                idx[r.randrange(len(idx))] = None
            if r.random() < 0.2:
                idx[r.randrange(len(idx))] = float(r.randint(0, n - 1))
            return E("PArrayIndex", items, E("PSequence", idx, r.randint(1, 2)) if (fin or r.random() < 0.7) else E("PSequence", idx))
        if c == "PDiff":
            return E("PDiff", sub())
        if c == "PMap":
            k = r.random()
            if k < 0.4:
                return E("PMap", sub(), Raw("FN['sq']"))
            if k < 0.6:
                return E("PMap", sub(), Raw("FN['neg']"))
            if k < 0.8:
                return E("PMap", sub(), Raw("FN['addc']"), r.randint(-3, 3))
            return E("PMap", sub(), Raw("FN['addc']"), g(min(d, 0), False, "int"))
        if c == "PPad":
            return E("PPad", sub(True), r.choice([0, 1, 2, 3, 5, 8, 13, 64]))
        if c == "PPadToMultiple":
            x = sub(True)
            return E("PPadToMultiple", x, r.randint(1, 8)) if r.random() < 0.5 else E("PPadToMultiple", x, r.randint(1, 8), r.randint(0, 4))
        if c == "PSkipIf":
            if r.random() < 0.3:
                return E("PSkipIf", sub(), r.choice([0, 1, True, False, None]))
            return E("PSkipIf", sub(), E("PSequence", [r.choice([0, 1, 0, True, False, None, 2]) for _ in range(r.randint(1, 5))]))
        if c == "PChanged":
            return E("PChanged", g(d, fin, "num"))
        if c == "PCounter":
            return E("PCounter", self.trigger(fin))
        if c == "PDegree":
            x = g(d, fin, "intrest" if rests else "int")
            return E("PDegree", x, Raw("iso.Scale." + r.choice(sorted(SCALES))))
        if c == "PInt":
            return E("PInt", g(d, fin, "num" if rests else "norest"))
        if c == "PCollapse":
            return E("PCollapse", g(d, True, {"int": "intrest", "norest": "num"}.get(kind, kind)))
        if c == "PRound":
            x = g(d, fin, "num" if rests else "norest")
            if kind in ("int", "intrest") or r.random() < 0.5:
                return E("PRound", x)
            return E("PRound", x, r.choice([0, 1, 2, -1]))
        if c == "PWrap":
            lo = r.randint(-4, 4)
            hi = lo + r.randint(1, 7)
            x = g(d, fin, "int" if kind in ("int", "intrest") else "norest")
            if kind not in ("int", "intrest") and r.random() < 0.2:
                return E("PWrap", x, lo + 0.5, hi + 0.75)
            return E("PWrap", x, lo, hi)
        if c == "PArpeggiator":
            n = r.randint(1, 8)
            notes = r.sample(range(-12, 25), n)
            if r.random() < 0.15:
                notes[r.randrange(n)] = notes[0]
            ty = r.choice(sorted(ARP.values()))
            if n < ARP_MIN.get(ty, 1):
                ty = r.choice([0, 1, 2, 3, 6, 7])
            return E("PArpeggiator", notes, ty)
        if c == "PEuclidean":
            n = r.randint(1, 16) if r.random() < 0.7 else r.randint(17, 64)
            k = r.randint(0, n)
            if r.random() < 0.25:
                # the number of onsets (and sometimes the number of steps) changes from bar to bar
                bars = r.randint(2, 4)
                kk = E("PStutter", E("PSequence", [r.randint(0, n) for _ in range(bars)], 1), n)
                if r.random() < 0.3:
                    n2 = r.randint(max(1, n - 3), n + 3)
                    return E("PEuclidean", E("PSequence", [r.randint(0, min(n, n2)) for _ in range(n + n2)], 1),
                             E("PSequence", [n] * n + [n2] * n2, 1))
                return E("PEuclidean", kk, n)
            return E("PEuclidean", k, n) if r.random() < 0.7 else E("PEuclidean", k, n, r.randint(0, n - 1))
        if c == "PLSystem":
            rule = r.choice(["N[-N++N]-N", "N+N", "N-N+N", "N[+N]N", "+N-[N]", "NN", "N[+N][-N]", "[N]-N"])
            return E("PLSystem", rule, r.randint(0, 3))
        if c == "PIndexOf":
            items = [self.val("norest") for _ in range(r.randint(1, 6))]
            return E("PIndexOf", items, g(d, fin, "num"))
        if c == "PDictKey":
            keys = ["note", "amp", "dur"][:r.randint(1, 3)]
            dct = {k: self.val(kind) for k in keys}
            ks = [r.choice(keys) for _ in range(r.randint(1, 5))]
            return E("PDictKey", dct, E("PSequence", ks, r.randint(1, 2)) if (fin or r.random() < 0.7) else E("PSequence", ks))
        if c == "PScalar":
            xs = []
            for _ in range(r.randint(1, 6)):
                k = r.random()
                if k < 0.4:
                    xs.append(self.val("int"))
                elif k < 0.5 and rests:
                    xs.append(())
                else:
                    xs.append(tuple(r.randint(-4, 9) * (2 if kind in ("int", "intrest") else 1) for _ in range(2 if kind in ("int", "intrest") else r.randint(1, 4))))
            if kind in ("int", "intrest"):
                return E("PScalar", E("PSequence", xs, r.randint(1, 2)), "first")
            return E("PScalar", E("PSequence", xs, r.randint(1, 2))) if r.random() < 0.6 else E("PScalar", E("PSequence", xs, r.randint(1, 2)), r.choice(["mean", "first"]))
        if c == "PNormalise":
            return E("PNormalise", g(d, fin, "norest"))
        if c == "PScaleLinLin":
            f0 = r.randint(-4, 4)
            return E("PScaleLinLin", g(d, fin, "norest"), f0, f0 + r.choice([1, 2, 4, 8, 3, 10]), r.randint(-8, 8), r.randint(-8, 30))
        if c == "PScaleLinExp":
            f0 = r.randint(-4, 4)
            return E("PScaleLinExp", g(d, fin, "norest"), f0, f0 + r.choice([1, 2, 4, 8, 3, 10]), r.choice([1, 2, 40, 0.5]), r.choice([8, 100, 20000, 3.5]))
        if c == "PInterpolate":
            x = g(d, fin, "norest")
            s = self.try_ref(x)
            if s is None or not s.v:
                x = E("PSequence", [r.randint(-3, 9) for _ in range(r.randint(1, 5))], 1)
            steps = r.randint(1, 5) if r.random() < 0.6 else E("PSequence", [r.randint(1, 4) for _ in range(r.randint(1, 4))])
            if r.random() < 0.3:
                return E("PInterpolate", x, steps, Raw("iso.INTERPOLATION_NONE"))
            return E("PInterpolate", x, steps)
        if c == "PMidiNoteToFrequency":
            return E("PMidiNoteToFrequency", g(d, fin, "num"))
        if c in ("PTri", "PSaw"):
            args = [r.randint(1, 12), r.choice([0.0, -1.0, 0.25, 2]), r.choice([1.0, 4.0, 0.75, 7])]
            return E(c, *args[:r.choice([1, 1, 3])])
        raise ValueError(c)

    def try_ref(self, x):
        try:
            return ref(x)
        except Exception:
            return None


ALL_CLASSES = DocGen.STRUCT + DocGen.RESTS + DocGen.TOINT + DocGen.FLOATY + DocGen.INEXACT
LEAF_CLASSES = ["PSequence", "PSeries", "PRange", "PGeom", "PImpulse", "PConstant"]


def exhaustive_leaf_cases(rng):
    """every class alone over its argument domain: lengths 0..64, steps of either sign, ints and floats"""
    out = []
    for n in range(0, 65):
        st, sp = rng.randint(-9, 9), rng.choice([-3, -2, -1, 1, 2, 3, 5])
        out.append(E("PSeries", st, sp, n))
        out.append(E("PSeries", rng.randint(-20, 20) / 4.0, rng.choice([-1.25, -0.5, 0.25, 0.75, 2.5]), n))
        out.append(E("PRange", st, st + n * sp, sp))
        out.append(E("PRange", st, st + n * sp + (1 if sp > 1 else 0), sp))
        out.append(E("PRange", st / 2.0, st / 2.0 + n * 0.25 * (1 if sp > 0 else -1), 0.25 * (1 if sp > 0 else -1)))
        out.append(E("PGeom", rng.choice([1, -1, 2, 3]), rng.choice([2, -2, 3, -1]), min(n, 40)))
        xs = [rng.choice([None, rng.randint(-5, 9), rng.randint(-20, 36) / 4.0]) if rng.random() < 0.4 else rng.randint(-5, 9) for _ in range(n)]
        out.append(E("PSequence", xs, 1))
        if n <= 20:
            out.append(E("PSequence", xs, 3))
        base = E("PSequence", xs, 1)
        out.append(E("PStutter", base, rng.randint(1, 3)))
        out.append(E("PReverse", base))
        out.append(E("PPad", base, rng.choice([0, n, n + 1, 64, max(0, n - 1)])))
        out.append(E("PPadToMultiple", base, rng.randint(1, 9), rng.randint(0, 3)))
        out.append(E("PLoop", base, rng.randint(1, 3)))
        out.append(E("PCollapse", base))
        out.append(E("PSubsequence", E("PSeries", 0, 1), rng.randint(0, 5), n))
        out.append(E("PPingPong", base, rng.randint(1, 2)))
        out.append(E("PImpulse", max(1, n)))
        if 2 <= n <= 16:
            # a reset that lands in the middle of a buffering class's first pass over its input (reset clause, nested)
            k = rng.randint(1, n - 1)
            trig = E("PSequence", [0] * k + [1] + [0] * (3 * n + 4), 1)
            for inner in (E("PLoop", base, rng.randint(2, 3)), E("PPingPong", base, 2), E("PStutter", base, 2),
                          E("PSubsequence", E("PSeries", 0, 1), 1, n), E("PPad", base, n + 3), E("PNoRepeats", base)):
                out.append(E("PReset", inner, trig))
            kk = E("PStutter", E("PSequence", [rng.randint(0, n) for _ in range(3)], 1), n)
            out.append(E("PEuclidean", kk, n))
    return out


# ================================================================================================
# the check
# ================================================================================================
def run_src_cases(run, cases, shards=12):
    """cases: objects with .expr; fills .obs/.status"""
    if not cases:
        return
    parts = [cases[i::shards] for i in range(shards) if cases[i::shards]]
    payloads = [{"cases": [{"src": src(c.expr), "n": N_NEXT} for c in part]} for part in parts]
    outs = run.impl_parallel("c10_impl", payloads)
    for part, out in zip(parts, outs):
        for c, r in zip(part, out["cases"]):
            c.obs, c.status = r["obs"], r.get("status")


def sub_exprs(x):
    seen, out = set(), []
    for path, n in nodes(x):
        if path and isinstance(n, E):
            s = src(n)
            if s not in seen:
                seen.add(s); out.append(n)
    return out


def snippet(expr, n):
    return "import isobar as iso\nFN = {'sq': lambda v: None if v is None else v * v, 'addc': lambda v, c: None if v is None else v + c, " \
           "'neg': lambda v: None if v is None else -v}\np = %s\nfor _ in range(%d):\n    print(next(p))" % (src(expr), n)


def modelled(x):
    return not has_raw(x) and classes_of(x) <= set(COQ_CLS)


def check(run):
    rng = run.rng
    thorough = run.tier == "thorough"
    g = DocGen(rng, run)
    cases = []

    def add(e, tag):
        cases.append(Case(e, [("next", 0)] * N_NEXT, tag))

    # 1. every class alone over its argument domain
    for e in exhaustive_leaf_cases(rng):
        add(e, "alone")
    per_class = 400 if thorough else 20
    for cls in ALL_CLASSES:
        for i in range(per_class):
            add(g.gen(1, rng.random() < 0.5 and cls not in DocGen.ENDLESS_ONLY, "any", cls), "alone")
    for i in range(per_class * 3):
        add(g.leaf(rng.random() < 0.6, "any"), "alone")
    # 2. nestings to depth 3
    for i in range(30000 if thorough else 1000):
        cls = ALL_CLASSES[i % len(ALL_CLASSES)]
        depth = 2 + (i % 2)
        add(g.gen(depth, rng.random() < 0.5 and cls not in DocGen.ENDLESS_ONLY, "any", cls), "nested")

    run_src_cases(run, cases)

    reported = {}

    def culprit(c):
        subs = [Case(n, c.ops, "sub") for n in sub_exprs(c.expr)]
        best = c
        if subs and len(reported) < 4:
            run_src_cases(run, subs, shards=4)
            bad = []
            for s in subs:
                try:
                    if not s.status and judge(s.expr, s.obs) is not None:
                        bad.append(s)
                except CannotJudge:
                    pass
                except Exception:
                    pass
            if bad:
                best = min(bad, key=lambda s: size(s.expr))
        return best

    judged = 0
    for c in cases:
        run.count(); run.dist("stream." + c.tag); run.dist("root." + c.expr.cls); run.dist("depth.%d" % depth_of(c.expr))
        if c.status:
            run.discard("impl-" + c.status); continue
        try:
            dev = judge(c.expr, c.obs)
        except CannotJudge as e:
            run.discard("oracle: " + str(e).split(" ")[0] + " " + " ".join(str(e).split(" ")[1:3])); continue
        except (ZeroDivisionError, OverflowError, TypeError, IndexError, KeyError, ValueError) as e:
            run.discard("oracle: reference raised %s" % type(e).__name__); continue
        judged += 1
        run.cov["oracle_evaluations"] += len(c.obs)
        vals = [o for o in c.obs[1:] if isinstance(o, dict) and "y" in o]
        if len(vals) >= 2:
            run.nontrivial(src(c.expr))
        if dev is None:
            continue
        small = culprit(c)
        d = judge(small.expr, small.obs)
        sig = {"kind": "reference", "class": small.expr.cls, "how": "raise" if d["observed"].startswith("raise") else "stop" if d["observed"] == "StopIteration" else "value"}
        key = json.dumps(sig, sort_keys=True)
        if key in reported:
            continue
        reported[key] = 1
        if len(reported) > 6:
            continue
        s = ref(small.expr)
        run.violation(sig, {
            "case": {"expr": src(small.expr), "n": N_NEXT},
            "expected": "output %d = %s   (reference list: %s%s)" % (d["index"], d["expected"], [canon(v) for v in s.v[:d["index"] + 3]], " then StopIteration" if s.done else " ..."),
            "observed": d["observed"], "observed_outputs": small.obs_pretty()[:d["index"] + 3],
            "python": snippet(small.expr, d["index"] + 1)})
    run.cov["judged_by_reference_interpreter"] = judged

    # 3. PEuclidean, k <= n <= 64, exhaustively; arpeggiator orders x chord sizes 1..8
    check_euclid(run)
    check_arp(run)

    # 3b. sessions: several objects of one class alive in one process
    session_cases = check_sessions(run, g)
    check_param_streams(run, g)

    # 4. the model, inside Coq
    mc = [c for c in cases if modelled(c.expr) and not c.status]
    if not thorough:
        mc = mc[:1800]
    gen = Gen(rng, run)
    extra = []
    classes = list(GENERATORS)
    for i in range(4000 if thorough else 350):              # the registry generator: arguments outside the documented domain too
        e = gen.gen(1 + i % 3, rng.random() < 0.6, classes[i % len(classes)])
        extra.append(Case(e, [("next", 0)] * 24, "registry"))
    run_impl(run, extra)
    for c in extra:
        run.count(); run.dist("stream.registry")
    run_model(run, mc + extra + session_cases)
    session_model_verdicts(run, session_cases)
    for c in mc + extra:
        if c.verdict == "discard":
            run.discard("model: " + (c.status or "?").split(":")[0])
        elif c.verdict == "agree":
            run.cov["traces_validated_against_impl"] += 1
    bad = [c for c in mc + extra if c.verdict == "disagree"]
    seen = set()
    for c in bad[:3]:
        small = shrink(run, c, rounds=4) if c.tag == "registry" else c
        sig = {"kind": "correspondence", "class": small.expr.cls if isinstance(small.expr, E) else "operator"}
        if json.dumps(sig) in seen:
            continue
        seen.add(json.dumps(sig))
        run.violation(sig, {
            "broken": "correspondence Pat/Step.v vs the implementation on %s: the theorems of Props/C10.v no longer speak about this code" % sig["class"],
            "case": {"expr": to_source(small.expr), "ops": [list(o) for o in small.ops]},
            "observed": small.obs_pretty(), "model": model_trace(run, small),
            "python": replay_snippet(small.expr, small.ops)}, found_input=False)
    run.sample({"expr": src(cases[-1].expr), "observed": cases[-1].obs_pretty()[:12]})
    run.cov["rule"] = ("one case = one expression + %d calls of next(); judged = the reference interpreter has a definition for every class "
                       "and argument form of the expression; non-trivial = at least two values were produced" % N_NEXT)


# ================================================================================================
# SESSIONS: 1-4 programs of the same class with different (mostly: nearly the same) arguments, constructed,
# stepped and reset in interleaved order inside ONE interpreter (a forked child per session: nothing is carried
# over from an earlier session, so a failing session replays on its own).  Every program is judged by ITS OWN
# reference list (the oracle `ref` of its own expression): what an object produces is a function of its own
# arguments, whatever else is alive in the process (theorems C10_session_isolation / C10_arp_session_isolation).
# The arpeggiator takes part with its `loop` argument (all 9 orders x chord sizes 1..8 alone, and mixed sessions
# of looping / one-shot arpeggiators over chords of the same size), compared with Pat/Session.v inside Coq.
# ================================================================================================
S_NEXT = 20
SESSION_HEADER = """From Isobar Require Import Base.Prelude Pat.Val Pat.Ref Pat.Session.
Open Scope Z_scope.
"""


def perturb(rng, g, x, depth):
    """an argument that is nearly the same: numbers move a little, flags flip, lists change one entry, patterns are redrawn"""
    if isinstance(x, bool):
        return not x
    if isinstance(x, int):
        return x + rng.choice([-1, 1, 1, 2])
    if isinstance(x, float):
        return x + rng.choice([-0.5, 0.5, 1.0])
    if isinstance(x, list) and x and not any(isinstance(v, (E, Raw)) for v in x):
        y = list(x)
        k = rng.randrange(len(y))
        if rng.random() < 0.5 and len(y) > 1:
            y[k], y[k - 1] = y[k - 1], y[k]
        else:
            y[k] = perturb(rng, g, y[k], depth) if isinstance(y[k], (int, float)) and not isinstance(y[k], bool) else y[k]
        return y
    if isinstance(x, E):
        return g.gen(max(0, depth - 1), g.finite(x), "any")
    return x


def near_duplicate(rng, g, e, depth):
    """the same constructor call with ONE argument changed (a cache keyed on the other arguments would confuse the two)"""
    if not isinstance(e, E) or not e.args:
        return e
    args = list(e.args)
    k = rng.randrange(len(args))
    args[k] = perturb(rng, g, args[k], depth)
    return E(e.cls, *args)


def arp_program(rng, ty, n, loop):
    notes = rng.sample(range(-12, 30), n)
    if rng.random() < 0.15 and n > 1:
        notes[1] = notes[0]
    return E("PArpeggiator", notes, ty, True) if loop else (E("PArpeggiator", notes, ty) if rng.random() < 0.5 else E("PArpeggiator", notes, ty, False))


def interleave(rng, seqs):
    """merge the per-program operation lists, alternating between the programs in bursts of 1-3 operations"""
    ptr = [0] * len(seqs)
    out, cur = [], 0
    while any(ptr[i] < len(seqs[i]) for i in range(len(seqs))):
        live = [i for i in range(len(seqs)) if ptr[i] < len(seqs[i])]
        cur = rng.choice([i for i in live if i != cur] or live)
        for _ in range(rng.choice([1, 1, 1, 2, 3])):
            if ptr[cur] < len(seqs[cur]):
                out.append([seqs[cur][ptr[cur]], cur]); ptr[cur] += 1
    return out


def session_ops(rng, resettable):
    ops = ["new"] + ["next"] * rng.randint(6, S_NEXT)
    if resettable and rng.random() < 0.4:
        ops.insert(rng.randint(1, len(ops)), "reset")
        ops += ["next"] * rng.randint(2, 6)
    return ops


def judge_program(expr, ops, obs):
    """None | deviation of one program of a session from its own reference list; raises CannotJudge"""
    s = ref(expr)
    pos, stopped = 0, False
    for k, (op, o) in enumerate(zip(ops, obs)):
        got = obs_canon(o)
        if op == "new":
            if got != "None":
                return {"op": k, "what": "constructor", "expected": "the constructor succeeds", "observed": got}
            continue
        if op == "reset":
            if got != "None":
                return {"op": k, "what": "reset()", "expected": "reset() returns None", "observed": got}
            pos, stopped = 0, False
            continue
        if stopped:
            continue
        if pos < len(s.v):
            want = canon(s.v[pos]); pos += 1
        elif s.done:
            want, stopped = "StopIteration", True
        else:
            break
        if got != want:
            return {"op": k, "what": "output %d since construction / the last reset()" % (pos - 1 if want != "StopIteration" else pos),
                    "expected": want, "observed": got}
    return None


def session_snippet(sess):
    lines = ["import isobar as iso", "FN = {'sq': lambda v: None if v is None else v * v, 'addc': lambda v, c: None if v is None else v + c, 'neg': lambda v: None if v is None else -v}"]
    for op, i in sess["sched"]:
        if op == "new":
            lines.append("p%d = %s" % (i, sess["programs"][i]))
        elif op == "next":
            lines.append("print('p%d', next(p%d))" % (i, i))
        else:
            lines.append("p%d.reset()" % i)
    return "\n".join(lines)


def run_sessions(run, sessions, shards=12):
    parts = [sessions[i::shards] for i in range(shards) if sessions[i::shards]]
    payloads = [{"sessions": [{"programs": s["programs"], "sched": s["sched"]} for s in part]} for part in parts]
    for part, out in zip(parts, run.impl_parallel("c10_impl", payloads)):
        for s, r in zip(part, out["sessions"]):
            s["obs"], s["status"] = r["obs"], r.get("status")


def check_sessions(run, g):
    rng = run.rng
    thorough = run.tier == "thorough"
    sessions = []

    def add(exprs, tag, resettable):
        seqs = [session_ops(rng, resettable(e)) for e in exprs]
        sessions.append({"exprs": exprs, "programs": [src(e) for e in exprs], "ops": seqs, "sched": interleave(rng, seqs), "tag": tag})

    # every order x chord size 1..8, looping, alone (the arrangement round and round)
    for ty in sorted(ARP.values()):
        for n in range(1, 9):
            add([arp_program(rng, ty, n, True)], "arp-loop-alone", lambda e: True)
    # arpeggiators of the same order over chords of the same size, looping and one-shot mixed
    for j in range(900 if thorough else 90):
        ty = sorted(ARP.values())[j % len(ARP)]
        n = rng.randint(ARP_MIN.get(ty, 1), 8)
        k = rng.choice([2, 2, 3, 4])
        loops = [rng.random() < 0.5 for _ in range(k)]
        if len(set(loops)) == 1 and rng.random() < 0.8:
            loops[rng.randrange(k)] = not loops[0]
        progs = []
        for l in loops:
            same = rng.random() < 0.8
            progs.append(arp_program(rng, ty if same else rng.choice(sorted(ARP.values())), n if same or True else n, l))
        progs = [p for p in progs if len(p.args[0]) >= ARP_MIN.get(p.args[1], 1)]
        add(progs, "arp-mixed", lambda e: True)
    # every class of the property: a program and 1-3 near-duplicates / other instances of the same class
    per = 40 if thorough else 6
    for cls in ALL_CLASSES + LEAF_CLASSES:
        for j in range(per):
            depth = 1 + j % 2
            first = g.gen(depth, rng.random() < 0.5 and cls not in DocGen.ENDLESS_ONLY, "any", cls) if cls in ALL_CLASSES else g.leaf(rng.random() < 0.6, "any")
            progs = [first]
            for _ in range(rng.choice([1, 1, 2, 3])):
                progs.append(near_duplicate(rng, g, first, depth) if rng.random() < 0.75 else
                             (g.gen(depth, rng.random() < 0.5 and cls not in DocGen.ENDLESS_ONLY, "any", cls) if cls in ALL_CLASSES else g.leaf(rng.random() < 0.6, "any")))
            add(progs, "same-class", modelled)
    run_sessions(run, sessions)

    found, mcases, aterms, aowner = [], [], [], []
    for s in sessions:
        run.count(); run.dist("stream.session"); run.dist("session." + s["tag"]); run.dist("session.programs.%d" % len(s["exprs"]))
        if s.get("status"):
            run.discard("session: impl-" + s["status"]); continue
        judged = 0
        for i, e in enumerate(s["exprs"]):
            ops, obs = s["ops"][i], s["obs"][i]
            run.dist("session.class." + e.cls)
            try:
                dev = judge_program(e, ops, obs)
            except CannotJudge as ex:
                run.discard("session oracle: " + " ".join(str(ex).split(" ")[:3])); continue
            except (ZeroDivisionError, OverflowError, TypeError, IndexError, KeyError, ValueError) as ex:
                run.discard("session oracle: reference raised %s" % type(ex).__name__); continue
            judged += 1
            run.cov["oracle_evaluations"] += len(obs)
            if dev is not None:
                found.append((len(s["exprs"]), len(s["sched"]), len(found), s, i, dev))
                continue
            if len(obs) != len(ops):
                continue
            if e.cls == "PArpeggiator":
                ty = e.args[1]
                loop = len(e.args) > 2 and bool(e.args[2])
                lops = lst(["LNext" if o == "next" else "LReset" for o in ops[1:]])
                try:
                    aterms.append("arp_check (%d, %s, %s) %s %s" % (ty, zlist(e.args[0]), blit(loop), lops, lst([obs_coq(o) for o in obs])))
                    aowner.append((s, i))
                except Unrepresentable:
                    pass
            elif modelled(e):
                c = Case(e, [("next", 0) if o == "next" else ("reset", 0) for o in ops[1:]], "session")
                c.obs = obs
                mcases.append(c)
        if judged >= 2:
            run.nontrivial("session " + repr(s["programs"]) + repr(s["sched"]))
    # a deviation inside a session: does the program, run alone, produce its reference list?
    reported = {}
    for _, _, _, s, i, dev in sorted(found, key=lambda t: t[:3]):
        e = s["exprs"][i]
        key = json.dumps({"class": e.cls, "what": dev["what"].split(" ")[0]})
        if key in reported or len(reported) >= 5:
            continue
        reported[key] = 1
        solo = {"exprs": [e], "programs": [src(e)], "ops": [s["ops"][i]], "sched": [[o, 0] for o in s["ops"][i]], "tag": "alone"}
        run_sessions(run, [solo], shards=1)
        try:
            alone = "fails alone too" if judge_program(e, solo["ops"][0], solo["obs"][0]) is not None else \
                "passes when it is the only object in the process: state is carried from one object of the class to another"
        except Exception:
            alone = "could not be judged alone"
        how = "raise" if dev["observed"].startswith("raise") else "stop" if dev["observed"] == "StopIteration" else "value"
        run.violation({"kind": "session", "class": e.cls, "how": how, "alone": alone.split(" ")[0]}, {
            "case": {"session": {"programs": s["programs"], "sched": s["sched"]}, "program": i},
            "expected": "program %d = %s, operation %d of its own (%s): %s   [its own reference list, whatever else is alive in the process]" % (
                i, s["programs"][i], dev["op"], dev["what"], dev["expected"]),
            "observed": dev["observed"], "observed_outputs_of_the_program": [pretty_obs(o) for o in s["obs"][i]],
            "alone": alone, "python": session_snippet(s)})
    # ---- the model: every program of a session against its own model run alone (engine-P programs: compared together with
    # the single-program cases by the caller, `session_model_verdicts`; arpeggiators: Pat/Session.v, here)
    bad = run.coq_failing(SESSION_HEADER, aterms)
    run.cov["traces_validated_against_impl"] += len(aterms) - len(bad)
    run.cov["session_arp_model_comparisons"] = len(aterms)
    if bad:
        s, i = aowner[bad[0]]
        run.violation({"kind": "correspondence", "class": "PArpeggiator", "stream": "session"}, {
            "broken": "correspondence Pat/Session.v (arp_build / arp_next / arp_reset with `loop`) vs PArpeggiator inside a session: "
                      "C10_arp_session_isolation / C10_arp_loop_periodic no longer speak about this code",
            "case": {"session": {"programs": s["programs"], "sched": s["sched"]}, "program": i, "term": aterms[bad[0]]},
            "observed": [pretty_obs(o) for o in s["obs"][i]], "python": session_snippet(s)}, found_input=False)
    return mcases


def session_model_verdicts(run, mcases):
    for c in mcases:
        if c.verdict == "agree":
            run.cov["traces_validated_against_impl"] += 1
        elif c.verdict == "discard":
            run.discard("session model: " + (c.status or "?").split(":")[0])
    for c in [c for c in mcases if c.verdict == "disagree"][:1]:
        run.violation({"kind": "correspondence", "class": c.expr.cls, "stream": "session"}, {
            "broken": "correspondence Pat/Step.v vs the implementation on %s inside a session of several objects: the theorem "
                      "C10_session_isolation no longer speaks about this code" % c.expr.cls,
            "case": {"expr": to_source(c.expr), "ops": [list(o) for o in c.ops]}, "observed": c.obs_pretty(), "model": model_trace(run, c)},
            found_input=False)


# ================================================================================================
# PARAMETER STREAMS: the classes whose parameters may themselves be patterns, with VARYING parameter patterns together
# with rests in the main input.  The reference takes the streams index by index - out[n] = f(in[n], param[n]), a rest in
# one input never shifts another, the output ends with the shortest input: PDegree(degree, scale),
# PFilterByKey(pattern, key), PNearestNoteInKey(pattern, key) (model Pat/TonalStreams.v, theorems Props/C10Streams.v,
# compared inside Coq), PRound(input, digits) and PScaleLinLin(input, a, b, c, d) with pattern arguments (oracle only).
# ================================================================================================
STREAM_HEADER = HEADER + "From Isobar Require Import Tonal.Key Pat.TonalStreams.\n"
KEY_TONICS = [0, 2, 5, 7, 9, 11]


def scale_get_ref(sc, d):
    return 12 * (d // len(sc)) + sc[d % len(sc)]


def key_semis_ref(tonic, sc):
    return sorted((n + tonic) % 12 for n in sc)


def nearest_ref(tonic, sc, note):
    """the in-key note closest to `note`; a tie between a lower and a higher neighbour is not decided by the documentation"""
    ks = key_semis_ref(tonic, sc)
    best = [c for c in range(note - 12, note + 13) if c % 12 in ks]
    dmin = min(abs(c - note) for c in best)
    cands = [c for c in best if abs(c - note) == dmin]
    return cands[0] if len(cands) == 1 else AnyOf(cands)


class AnyOf:
    """several values are equally right (two in-key notes at the same distance)"""
    def __init__(self, c):
        self.c = c


class ParamStream:
    """a parameter given as a pattern: Python source, the list of its values (None-terminated flag) and the Coq operand"""
    def __init__(self, src_, vals, done, coq):
        self.src, self.v, self.done, self.coq = src_, vals, done, coq


def scale_coq(name):
    return "(scale_val (mkScale %s 12))" % zlist(SCALES[name])


def key_coq(k):
    return "(key_val (mkKey %d (mkScale %s 12)))" % (k[0], zlist(SCALES[k[1]]))


def param_stream(rng, kind):
    """kind: 'scale' | 'key'; constant (20 %), PSequence of several (finite or endless), PStutter of such"""
    def one():
        if kind == "scale":
            n = rng.choice(sorted(SCALES))
            return n, "iso.Scale.%s" % n, scale_coq(n)
        k = (rng.choice(KEY_TONICS), rng.choice(sorted(SCALES)))
        return k, "iso.Key(%d, %r)" % k, key_coq(k)
    if rng.random() < 0.2:
        v, sr, cq = one()
        return ParamStream(sr, [v] * H, False, "(EV %s)" % cq)
    items = [one() for _ in range(rng.randint(2, 4))]
    rep = rng.choice([None, None, 1, 2, 3])
    vals = [v for v, _, _ in items]
    sr = "iso.PSequence([%s]%s)" % (", ".join(x for _, x, _ in items), "" if rep is None else ", %d" % rep)
    cq = "(ECall CSequence [EL %s; EV (VInt %d)])" % (lst(["(EV %s)" % c for _, _, c in items]), SYS_MAXSIZE if rep is None else rep)
    out = (vals * (H // len(vals) + 1))[:H] if rep is None else vals * rep
    done = rep is not None
    if rng.random() < 0.4:
        k = rng.randint(2, 4)
        sr, cq = "iso.PStutter(%s, %d)" % (sr, k), "(ECall CStutter [EP %s; EV (VInt %d)])" % (cq, k)
        out = [v for v in out for _ in range(k)][:4 * H]
    return ParamStream(sr, out, done, "(EP %s)" % cq)


def check_param_streams(run, g):
    rng = run.rng
    thorough = run.tier == "thorough"
    cases = []

    def main_input(tuples=False):
        """ints with rests in the middle (a rest that is the last value cannot shift anything)"""
        k = rng.random()
        if k < 0.6:
            xs = [rng.randint(-7, 14) for _ in range(rng.randint(3, 10))]
            for _ in range(rng.choice([1, 1, 2, 3])):
                xs[rng.randrange(max(1, len(xs) - 1))] = None
            if tuples and rng.random() < 0.3:
                xs[rng.randrange(len(xs))] = (rng.randint(0, 6), rng.randint(0, 6))
            return E("PSequence", xs, rng.choice([1, 1, 2])) if rng.random() < 0.8 else E("PSequence", xs)
        if k < 0.8:
            return E("PSkipIf", E("PSeries", rng.randint(-3, 5), rng.choice([1, 1, 2, -1]), rng.randint(4, 12)),
                     E("PSequence", [rng.choice([0, 0, 1]) for _ in range(rng.randint(2, 5))]))
        return g.gen(1, rng.random() < 0.7, "intrest")

    for i in range(2400 if thorough else 240):
        c = ["PDegree", "PDegree", "PFilterByKey", "PNearestNoteInKey", "PRound", "PScaleLinLin"][i % 6]
        x = main_input(tuples=(c == "PDegree"))
        try:
            ins = ref(x)
        except Exception:
            continue
        model = None
        if c in ("PDegree", "PFilterByKey", "PNearestNoteInKey"):
            ps = param_stream(rng, "scale" if c == "PDegree" else "key")
            source = "iso.%s(%s, %s)" % (c, src(x), ps.src)
            n = min(len(ins.v), len(ps.v))
            done = (ins.done and len(ins.v) == n) or (ps.done and len(ps.v) == n)

            def f(v, p, c=c):
                if v is None:
                    return None
                if c == "PDegree":
                    return tuple(scale_get_ref(SCALES[p], d) for d in v) if isinstance(v, tuple) else scale_get_ref(SCALES[p], v)
                if c == "PFilterByKey":
                    return v if v % 12 in key_semis_ref(p[0], SCALES[p[1]]) else None
                return nearest_ref(p[0], SCALES[p[1]], v)
            if modelled(x):
                model = ({"PDegree": "TDegree", "PFilterByKey": "TFilterByKey", "PNearestNoteInKey": "TNearestNoteInKey"}[c], "(EP %s)" % to_coq(x), ps.coq)
            want_fn = lambda f=f, ins=ins, ps=ps, n=n, done=done: S([f(ins.v[j], ps.v[j]) for j in range(n)], done)
        elif c == "PRound":
            ds = [rng.choice([0, 1, 2, -1]) for _ in range(rng.randint(2, 4))]
            x = E("PMul", x, rng.choice([0.5, 0.25, 1.5, 2.5]))
            try:
                ins = ref(x)
            except Exception:
                continue
            source = "iso.PRound(%s, iso.PSequence(%r))" % (src(x), ds)
            n, done = len(ins.v), ins.done
            want_fn = lambda ins=ins, ds=ds, n=n, done=done: S([None if ins.v[j] is None else round(ins.v[j], ds[j % len(ds)]) for j in range(n)], done)
        else:
            x = E("PSequence", [rng.randint(-4, 12) for _ in range(rng.randint(3, 8))], rng.choice([1, 2]))
            ins = ref(x)
            lo = [rng.randint(-4, 0) for _ in range(rng.randint(2, 3))]
            hi = [rng.randint(4, 12) for _ in range(rng.randint(2, 4))]
            source = "iso.PScaleLinLin(%s, iso.PSequence(%r), iso.PSequence(%r), 0, iso.PSequence([1, 10]))" % (src(x), lo, hi)
            n, done = len(ins.v), ins.done
            want_fn = lambda ins=ins, lo=lo, hi=hi, n=n, done=done: S(
                [((ins.v[j] - lo[j % len(lo)]) / (hi[j % len(hi)] - lo[j % len(lo)])) * ([1, 10][j % 2] - 0) + 0 for j in range(n)], done)
        wrap = rng.random()
        post = None
        if wrap < 0.15:
            source, post = "iso.PStutter(%s, 2)" % source, (lambda s_: S([v for v in s_.v for _ in range(2)], s_.done))
        elif wrap < 0.25:
            source, post = "iso.PSubsequence(%s, 1, 6)" % source, (lambda s_: S(s_.v[1:7], True) if (len(s_.v) >= 7 or s_.done) else None)
        elif wrap < 0.32:
            source, post = "iso.PCollapse(%s)" % source, (lambda s_: S([v for v in s_.v if v is not None], s_.done) if s_.done else None)
        if post is not None:
            model = None
        cc = Case(Raw(source), [("next", 0)] * N_NEXT, "param-stream", {"cls": c, "want": want_fn, "post": post, "model": model})
        cases.append(cc)
    run_src_cases(run, cases)
    terms, owners, reported = [], [], set()
    for c in cases:
        run.count(); run.dist("stream.parameter-streams"); run.dist("paramstream." + c.meta["cls"])
        if c.status:
            run.discard("paramstream: impl-" + c.status); continue
        try:
            s_ = c.meta["want"]()
            if c.meta["post"] is not None:
                s_ = c.meta["post"](s_)
                if s_ is None:
                    raise CannotJudge("wrapper beyond the horizon")
        except CannotJudge as e:
            run.discard("paramstream oracle: " + " ".join(str(e).split(" ")[:3])); continue
        except (ZeroDivisionError, OverflowError, TypeError, IndexError, KeyError, ValueError) as e:
            run.discard("paramstream oracle: reference raised %s" % type(e).__name__); continue
        run.cov["oracle_evaluations"] += len(c.obs)
        got = c.obs[1:]
        want = [{canon(x) for x in v.c} if isinstance(v, AnyOf) else canon(v) for v in s_.v[:len(got)]]
        if s_.done and len(want) < len(got):
            want.append("StopIteration")
        dev = None
        if obs_canon(c.obs[0]) != "None":
            dev = (-1, "the constructor succeeds", obs_canon(c.obs[0]))
        else:
            for j, w in enumerate(want):
                if (obs_canon(got[j]) not in w) if isinstance(w, set) else (obs_canon(got[j]) != w):
                    dev = (j, " or ".join(sorted(w)) if isinstance(w, set) else w, obs_canon(got[j]))
                    break
        if len([o for o in got if isinstance(o, dict) and "y" in o]) >= 2:
            run.nontrivial(c.expr.s)
        if dev is not None:
            sig = {"kind": "reference", "class": c.meta["cls"], "how": "raise" if dev[2].startswith("raise") else "stop" if dev[2] == "StopIteration" else "value",
                   "stream": "parameter-streams"}
            key = json.dumps(sig, sort_keys=True)
            if key not in reported and len(reported) < 4:
                reported.add(key)
                run.violation(sig, {
                    "case": {"expr": c.expr.s, "n": N_NEXT},
                    "expected": "output %d = %s   (reference list: %s%s)" % (dev[0], dev[1], [canon(v.c[0]) + "|.." if isinstance(v, AnyOf) else canon(v) for v in s_.v[:dev[0] + 3]], " then StopIteration" if s_.done else " ..."),
                    "observed": dev[2], "observed_outputs": c.obs_pretty()[:dev[0] + 4],
                    "python": snippet(c.expr, dev[0] + 1)})
            continue
        if c.meta["model"]:
            t, ea, eb = c.meta["model"]
            n = min(len(got), 40)
            try:
                terms.append("tonal_check Val.binop LMAX FUEL %d %s %s %s %s" % (n, t, ea, eb, lst([obs_coq(o) for o in got[:n]])))
                owners.append(c)
            except Unrepresentable:
                run.discard("paramstream model: unrepresentable")
    codes = []
    chunk = 40

    def one(i0):
        srcc = STREAM_HEADER + "\nDefinition results : list nat := [\n" + ";\n".join(terms[i0:i0 + chunk]) + "\n].\nEval vm_compute in results.\n"
        return parse_nat_list(run.coqc_text("pstream%d" % i0, srcc, timeout=300))
    with ThreadPoolExecutor(max_workers=8) as ex:
        for r in ex.map(one, range(0, len(terms), chunk)):
            codes.extend(r)
    run.cov["parameter_stream_model_comparisons"] = len(terms)
    bad = False
    for c, k in zip(owners, codes):
        if k == 0:
            run.cov["traces_validated_against_impl"] += 1
        elif k == 2:
            run.discard("paramstream model: Inexact/OutOfFuel")
        elif not bad:
            bad = True
            run.violation({"kind": "correspondence", "class": c.meta["cls"], "model": "Pat/TonalStreams.v"}, {
                "broken": "correspondence Pat/TonalStreams.v (tstep: one value of each input per call) vs the implementation on %s over a parameter "
                          "stream: the theorems of Props/C10Streams.v no longer speak about this code" % c.meta["cls"],
                "case": {"expr": c.expr.s, "n": N_NEXT}, "observed": c.obs_pretty()[:20]}, found_input=False)


META["text"] += (" Classes whose parameters may be patterns are exercised with VARYING parameter patterns and rests in the main input against a reference "
                 "that takes the streams index by index (check_param_streams); for PDegree / PFilterByKey / PNearestNoteInKey over arbitrary operand patterns "
                 "the pointwise closed form is proved (Pat/TonalStreams.v, Props/C10Streams.v: C10_tonal_parameter_streams, C10_tonal_rest_does_not_shift) and "
                 "compared with the implementation inside Coq.")


# ---- Euclidean rhythms -----------------------------------------------------------------------------------
def euclid_props(seq, n, k):
    """None or the name of the violated clause: length n, exactly k onsets, every two windows of equal length differ by
    at most one onset (maximal evenness), gaps between consecutive onsets differ by at most 1"""
    if len(seq) != n:
        return "length %d, expected %d" % (len(seq), n)
    if any(x not in (0, 1) for x in seq):
        return "a value other than 1 / None"
    if sum(seq) != k:
        return "%d onsets, expected %d" % (sum(seq), k)
    d = seq + seq
    for w in range(1, n + 1):
        cs = [sum(d[i:i + w]) for i in range(n)]
        if max(cs) - min(cs) > 1:
            return "windows of length %d hold between %d and %d onsets" % (w, min(cs), max(cs))
    return None


EUCLID_HEADER = """From Isobar Require Import Base.Prelude Pat.Ref.
Open Scope Z_scope.
"""


def check_euclid(run):
    res = run.impl("c10_impl", {"euclid": 64})["euclid"]
    terms, idx = [], []
    for r in res:
        n, k = r["n"], r["k"]
        run.count(); run.dist("euclid")
        for how in ("direct", "next"):
            seq = r[how]
            if isinstance(seq, str):
                why = "raises " + seq
            else:
                body = seq if how == "direct" else seq[:n]
                why = euclid_props(body, n, k)
                if why is None and how == "next" and seq != (body * 3)[:len(seq)]:
                    why = "next() does not repeat the rhythm with period n"
                if why is None and body != bjorklund(k, n):
                    why = "differs from Bjorklund's algorithm: expected %s" % bjorklund(k, n)
            run.cov["oracle_evaluations"] += 1
            if why:
                run.violation({"kind": "euclid", "how": how}, {
                    "case": {"k": k, "n": n}, "expected": "length n, exactly k onsets, maximally even (Bjorklund)", "observed": "%s: %s" % (seq, why),
                    "python": "import isobar as iso\np = iso.PEuclidean(%d, %d)\nprint([next(p) for _ in range(%d)])" % (k, n, n)})
                break
        if not isinstance(r["direct"], str):
            run.nontrivial("euclid %d %d" % (k, n))
            terms.append("zl_eqb (euclid %d%%nat %d%%nat) %s" % (n, k, zlist(r["direct"])))
            idx.append((k, n))
    run.cov["exhaustive_domains"] = "PEuclidean: all 0 <= k <= n, 1 <= n <= 64 (%d pairs); PArpeggiator: 9 deterministic orders x chord sizes 1..8" % len(res)
    if os.path.exists(os.path.join(COQDIR, "Pat", "Ref.v")):
        bad = run.coq_failing(EUCLID_HEADER, terms)
        run.cov["traces_validated_against_impl"] += len(terms) - len(bad)
        if bad:
            k, n = idx[bad[0]]
            run.violation({"kind": "correspondence", "class": "PEuclidean"}, {
                "broken": "correspondence Pat/Ref.v euclid vs PEuclidean._euclidean at k=%d n=%d: C10_euclid_* no longer speak about this code" % (k, n),
                "case": {"k": k, "n": n}}, found_input=False)


def check_arp(run):
    rng = run.rng
    cases = []
    for ty in sorted(ARP.values()):
        for n in range(1, 9):
            for rep in range(3):
                notes = rng.sample(range(-12, 30), n)
                if rep == 2 and n > 1:
                    notes[1] = notes[0]
                cases.append((notes, ty, False))
    res = run.impl("c10_impl", {"arp": cases})["arp"]
    terms = []
    for (notes, ty, loop), got in zip(cases, res):
        run.count(); run.dist("arp.type%d" % ty)
        n = len(notes)
        if n < ARP_MIN.get(ty, 1):
            want = "ValueError"
        else:
            order = diverge_order(n) if ty == 3 else arp_order(n, ty)
            want = [sorted(notes)[i] for i in order] + ["stop"]
        run.cov["oracle_evaluations"] += 1
        if got != want:
            run.violation({"kind": "arpeggiator", "type": ty}, {
                "case": {"notes": notes, "type": ty}, "expected": want, "observed": got,
                "python": "import isobar as iso\nprint(list(iso.PArpeggiator(%r, %d)))" % (notes, ty)})
            continue
        run.nontrivial("arp %r %d" % (notes, ty))
        if isinstance(got, list):
            terms.append("zl_eqb (arp_notes %d %s) %s" % (ty, zlist(notes), zlist(got[:-1])))
    if os.path.exists(os.path.join(COQDIR, "Pat", "Ref.v")):
        bad = run.coq_failing(EUCLID_HEADER, terms)
        run.cov["traces_validated_against_impl"] += len(terms) - len(bad)
        if bad:
            run.violation({"kind": "correspondence", "class": "PArpeggiator"}, {
                "broken": "correspondence Pat/Ref.v arp_notes vs PArpeggiator: C10_arp_* no longer speak about this code",
                "case": {"term": terms[bad[0]]}}, found_input=False)


def replay(run, doc):
    case = doc.get("case", {})
    if "session" in case and "program" in case and not doc.get("broken"):
        sess = dict(case["session"])
        run_sessions(run, [sess], shards=1)
        i = case["program"]
        print(session_snippet(sess))
        print("program %d observed: %s" % (i, [pretty_obs(o) for o in sess["obs"][i]]))
        print("expected:  ", doc.get("expected"))
        m = re.match(r"program \d+ = .*?, operation (\d+) of its own \(.*?\): (.*?)   \[", doc.get("expected", ""))
        if m:
            k, want = int(m.group(1)), m.group(2)
            got = obs_canon(sess["obs"][i][k]) if k < len(sess["obs"][i]) else "nothing"
            if got != want and not want.startswith("the constructor") and not want.startswith("reset()"):
                print("REPLAY-FAILS: operation %d of program %d gives %s, its reference list %s" % (k, i, got, want))
                print("VIOLATION property=C10 replay=(replayed)")
                return 1
        print("replay: the property holds on this session")
        return 0
    if "expr" not in case:
        print("replay: %s" % (doc.get("python") or doc.get("broken", "?")))
        return 1 if doc.get("broken") else 2

    class C:
        pass
    c = C()
    c.expr = Raw(case["expr"])
    run_src_cases(run, [c], shards=1)
    print("expression:", case["expr"])
    print("observed:  ", [pretty_obs(o) for o in c.obs][:20])
    print("expected:  ", doc.get("expected"))
    i = None
    m = re.match(r"output (-?\d+) = (.*?)   \(", doc.get("expected", ""))
    if m:
        i, want = int(m.group(1)), m.group(2)
        got = obs_canon(c.obs[i + 1]) if i + 1 < len(c.obs) else "nothing"
        if got != want:
            print("REPLAY-FAILS: output %d is %s, the reference definition gives %s" % (i, got, want))
            print("VIOLATION property=C10 replay=(replayed)")
            return 1
    print("replay: the property holds on this case")
    return 0

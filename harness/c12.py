"""C12 — pattern-valued parameters are resolved afresh at every step.

Theorems: coq/Props/C12.v (scalar / PConstant / PRef(PConstant) parameters are indistinguishable, for every class of the
embedding at once; a varying parameter is consumed one value per use, in order; Pattern.value resolves nested patterns and
tuples down to plain values, each nested pattern stepped once; the two PDict forms; PRef.set_pattern).
Registry: derived on every run from the repository (c12_registry.py, Python ast) and compared with the Coq side's view
(which attributes of each `pat` constructor are `arg` and which the step clause resolves with `value`).
Check: for every registry pair P(x) vs P(PConstant(x)) vs P(PRef(PConstant(x))) vs nestings of depth 2..3 vs
P(PSequence([x1, x2, ...])) with a counting wrapper around the parameter, judged by (a) the use schedule (exactly one
next() per use), (b) the step-wise scalar reference (the same class with the parameter re-assigned by hand to the value
the i-th use must see), (c) explicit plain-Python references for the arithmetic classes, (d) the Coq model."""
import copy as _copy, re
from pat_common import *
import c12_registry as REG
import c12_live as LIVE

PROP = "C12"
META = {
 "engine": "P-pattern-algebra",
 "text": "Coq theorems (Props/C12.v, closed under the global context) prove on the executable model of the pattern classes (Pat/Step.v): a parameter given as the scalar x, as PConstant(x), as PRef(PConstant(x)) or as any deeper nesting of references is indistinguishable (a simulation relation on object states that step, reset and value preserve, for ALL classes of the embedding at once and any nesting depth); a varying parameter of the per-step classes is advanced exactly once per parent output and the i-th output uses its i-th value, with the block laws of PStutter.count (one value per block) proved separately; Pattern.value resolves tuples containing patterns and chains of pattern-returning patterns down to plain values, stepping each nested pattern exactly once; PDict of one-shot sequences and the list-of-dicts form build the same object and hence the same event stream, which ends with the shortest column; PRef.set_pattern takes effect at the very next step. The registry of (class, parameter) pairs that accept patterns is derived from the repository on every run (ast: Pattern.value in __next__ is decisive; type hints, docstrings and isobar's tests are recorded as evidence) and compared with the model's view of the same classes; every pair is then exercised on the real code with a counting wrapper (one next() per use), a step-wise scalar reference, explicit plain-Python references for the arithmetic classes and the Coq model.",
 "note": "Trusted: Coq kernel + VM; the harness incl. the ast-based registry derivation. The step-wise scalar reference runs the class under test itself with the parameter attribute re-assigned before every use (it is independent of how the class resolves patterns, not of the class's arithmetic); the arithmetic of the core sequence classes is additionally checked against plain-Python references and the Coq model. Outside C12 (listed in the evidence): hardware / LFO / warp / fade families, PStaticPattern (needs a running Timeline), keyword arguments of PMap. Parameters the code uses as plain values (PGeom.length, PPad.length, PWrap.min/max, PLoop.count, ...) are not pattern-accepting and are reported, not judged.",
}

N_STEPS = 12
MAX_REPORTS_PER_KIND = 4      # distinct (class, parameter) signatures reported per kind of failure; the rest is counted

# registry pairs that are value-resolved by __next__ but cannot be given a pattern for a documented reason
NOT_ACCEPTING = {
    ("PSequence", "sequence"): "the constructor demands __getitem__ (\"Sequence must take a list argument\")",
    ("PStaticPattern", "pattern"): "needs a running Timeline (not exercised here)",
    ("PStaticPattern", "element_duration"): "needs a running Timeline (not exercised here)",
    ("PMap", "kwargs"): "keyword arguments are not expressible in the expression syntax of the harness",
    ("PScalar", "method"): "keyword argument of PMap; a method name",
}
# constructor options deliberately left at their default, with the reason
OPTIONS_NOT_VARIED = {
    "PGlobals.default": "returned only when the global is unset; the globals are set in these cases",
}
# how often a parameter is used: "step" = once per output; "ctor+step" = once at construction and once per output;
# "block" = once per block (law given by BLOCK_LAW); "atmost1" = at most once per output (irregular by design)
SCHEDULE = {
    ("PStutter", "count"): "block", ("PShuffleInput", "every"): "block", ("PInterpolate", "steps"): "block",
    ("PRandomImpulseSequence", "length"): "block", ("PRandomImpulseSequence", "probability"): "atmost1",
    ("PSequenceAction", "repeats"): "atmost1",
    ("PChanged", "source"): "ctor+step", ("PDiff", "source"): "ctor+step",
    ("PCollapse", "input"): "loop", ("PNoRepeats", "input"): "loop",
}
# outputs before the first block (PInterpolate yields its initial value first)
BLOCK_PREFIX = {("PInterpolate", "steps"): 1}
# classes whose model clause is narrower than the source for a stated reason (registry comparison)
MODEL_NARROWER = {
    ("PSequence", "sequence"): "the model takes a literal list only (the constructor rejects patterns)",
}
COQ_NAME = {"PRound": "PMap"}
# value-resolved parameters of modelled classes that the general theorems (Param.vfield) do not cover, with the reason
THEOREM_TABLE_GAPS = {
    "PArrayIndex.list": "list-valued (a literal list is special-cased by the model); correspondence and oracles only",
    "PDictKey.dict": "dict-valued (a literal dict is special-cased by the model); correspondence and oracles only",
    "PIndexOf.list": "list-valued (a literal list is special-cased by the model); correspondence and oracles only",
    "PSequence.sequence": "the constructor rejects patterns",
    "PStutter.count": "block-wise: its own theorems C12_stutter_block_start / C12_stutter_block_rest",
    "PCollapse.input": "looping class: C12_const_collapse", "PNoRepeats.input": "looping class: C12_const_norepeats",
    "PRound.args": "list of arguments (PMap): correspondence and oracles only",
}
# pairs for which no varying stream can change the outputs, with the reason
NO_DISCRIMINATION = {
    ("PRandomImpulseSequence", "probability"): "read only when the sequence grows (the length is fixed in these cases)",
}


def K(tonic, name):
    return E("KEY", tonic, name)


def SC(name):
    return E("SCALE", name)


def FN(name):
    return E("FN", name)


def ints(r, n, lo=-5, hi=9):
    return [r.randint(lo, hi) for _ in range(n)]


def series(r):
    return E("PSeries", r.randint(0, 5), r.randint(1, 3))


def flt(r, lo, hi):
    return r.randint(lo * 4, hi * 4) / 4.0


def num(r, lo=-6, hi=9):
    return flt(r, lo, hi) if r.random() < 0.3 else r.randint(lo, hi)


def numn(r, lo=-6, hi=9, p=0.2):
    """a number or, with probability p, a rest (None): a class must read ALL its parameters also when one is a rest"""
    return None if r.random() < p else num(r, lo, hi)


# class -> lambda r: [(param, value)] in positional order; *args parameters are spliced
def _binop(lo=-6, hi=9, nz=False, small=False):
    def f(r):
        if small:
            return [("a", r.randint(0, 5)), ("b", r.randint(0, 4))]
        b = numn(r, lo, hi)
        while nz and b == 0:
            b = num(r, lo, hi)
        return [("a", numn(r, lo, hi)), ("b", b)]
    return f


TEMPLATES = {
    "PFunc": lambda r: [("function", FN(r.choice(["seven", "three"])))],
    "PArrayIndex": lambda r: [("list", ints(r, 4)), ("index", r.choice([None, 0, 1, 2, 3, 1, 2]))],
    "PDictKey": lambda r: [("dict", {"a": r.randint(0, 9), "b": r.randint(10, 19)}), ("key", r.choice(["a", "b"]))],
    "PAbs": lambda r: [("input", numn(r))], "PInt": lambda r: [("input", numn(r))],
    "PAnd": lambda r: [("a", r.choice([0, 1, 2, 0, 5, 0.0])), ("b", r.choice([0, 1, 2, 0, 5, 0.0]))],
    "PSequence": lambda r: [("sequence", ints(r, r.randint(2, 3))), ("repeats", r.randint(1, 4))],
    "PSeries": lambda r: [("start", num(r)), ("step", num(r, -3, 4)), ("length", r.randint(3, 20))],
    "PRange": lambda r: [("start", r.randint(-2, 2)), ("end", r.randint(6, 15)), ("step", r.randint(1, 3))],
    "PGeom": lambda r: [("start", r.randint(1, 3)), ("multiply", r.randint(-2, 3)), ("length", r.choice([SYS_MAXSIZE, SYS_MAXSIZE, 4, 9]))],
    "PImpulse": lambda r: [("period", r.randint(1, 5))],
    "PCreep": lambda r: [("pattern", series(r)), ("length", r.randint(1, 4)), ("creep", r.randint(1, 2)),
                         ("repeats", r.randint(1, 3)), ("prob", r.choice([0, 1, 2]))],
    "PStutter": lambda r: [("pattern", series(r)), ("count", r.randint(1, 4))],
    "PSubsequence": lambda r: [("pattern", series(r)), ("offset", r.randint(0, 4)), ("length", r.randint(4, 14))],
    "PInterpolate": lambda r: [("pattern", E("PSequence", ints(r, 4))), ("steps", r.randint(1, 4)), ("interpolation", r.choice(["linear", "linear", "cosine"]))],
    "PCollapse": lambda r: [("input", num(r))], "PNoRepeats": lambda r: [("input", r.randint(-50, 50))],
    "PEuclidean": lambda r: [("mod", r.randint(1, 4)), ("length", r.randint(5, 9)), ("phase", r.choice([0, 0, 1, 2, 3]))],
    "PSequenceAction": lambda r: [("list", ints(r, 3)), ("fn", FN("rot")), ("repeats", r.randint(1, 4))],
    "PWhite": lambda r: [("min", r.choice([r.randint(0, 3), flt(r, 0, 3)])), ("max", r.randint(5, 40)), ("length", r.choice([0, 0, r.randint(3, 9)]))],
    "PBrown": lambda r: [("initial_value", r.randint(-2, 2)), ("step", r.choice([r.randint(1, 3), flt(r, 1, 3)])),
                         ("min", r.randint(-3, -1)), ("max", r.randint(1, 3))],
    "PCoin": lambda r: [("probability", r.randint(0, 8) / 8.0), ("regular", r.random() < 0.5)],
    "PRandomWalk": lambda r: [("values", ints(r, 5)), ("min", r.randint(0, 1)), ("max", r.randint(2, 3)), ("wrap", r.random() < 0.5)],
    "PChoice": lambda r: [("values", ints(r, 4)), ("weights", r.choice([None, [r.randint(1, 4) / 4.0 for _ in range(4)]]))],
    "PSample": lambda r: [("values", ints(r, 5)), ("count", r.randint(1, 3)), ("weights", r.choice([None, [r.randint(1, 4) / 4.0 for _ in range(5)]]))],
    "PShuffle": lambda r: [("values", ints(r, 3)), ("repeats", r.randint(1, 4))],
    "PShuffleInput": lambda r: [("pattern", series(r)), ("every", r.randint(1, 4))],
    "PSkip": lambda r: [("pattern", num(r)), ("play", r.randint(0, 8) / 8.0), ("regular", r.random() < 0.5)],
    "PFlipFlop": lambda r: [("initial", r.randint(0, 1)), ("p_on", r.randint(0, 8) / 8.0), ("p_off", r.randint(0, 8) / 8.0)],
    "PSwitchOne": lambda r: [("pattern", series(r)), ("length", r.randint(2, 5))],
    "PRandomExponential": lambda r: [("min", r.choice([r.randint(1, 3), flt(r, 1, 3)])), ("max", r.randint(5, 40))],
    "PRandomImpulseSequence": lambda r: [("probability", r.randint(0, 8) / 8.0), ("length", r.randint(2, 6))],
    "PChanged": lambda r: [("source", numn(r))], "PDiff": lambda r: [("source", numn(r))],
    "PSkipIf": lambda r: [("pattern", numn(r, p=0.3)), ("skip", r.choice([0, 1, True, False]))],
    "PNormalise": lambda r: [("input", num(r))],
    "PMap": lambda r: [("input", series(r)), ("operator", FN("addmul")), ("args", [r.randint(-3, 3), r.randint(1, 3)])],
    "PScaleLinLin": lambda r: [("input", series(r)), ("args", [0, r.randint(8, 16), r.randint(-4, 4), r.randint(8, 40)])],
    "PScaleLinExp": lambda r: [("input", E("PSeries", 1, 1)), ("args", [1, r.randint(8, 16), r.randint(1, 4), r.randint(8, 40)])],
    "PRound": lambda r: [("input", E("PSeries", flt(r, 0, 3) + 0.125, 0.375)), ("args", [r.randint(0, 2)])],
    "PIndexOf": lambda r: [("list", r.sample(range(0, 9), 5)), ("item", r.choice([None] + list(range(10))))],
    "PGlobals": lambda r: [("name", r.choice(["g1", "g2"]))],
    "PDegree": lambda r: [("degree", r.choice([None, None] + list(range(-3, 11)))), ("scale", SC(r.choice(["major", "minor", "dorian", "chromatic"])))],
    "PFilterByKey": lambda r: [("pattern", r.randint(40, 80)), ("key", K(r.randint(0, 11), r.choice(["major", "minor"])))],
    "PNearestNoteInKey": lambda r: [("pattern", r.randint(40, 80)), ("key", K(r.randint(0, 11), r.choice(["major", "minor"])))],
    "PMidiNoteToFrequency": lambda r: [("input", r.choice([None] + list(range(30, 90, 7))))],
    "PMidiSemitonesToFrequencyRatio": lambda r: [("input", r.randint(-12, 12))],
    "PKeyTonic": lambda r: [("key", r.choice([None, K(r.randint(0, 11), "major"), K(r.randint(0, 11), "minor")]))],
    "PKeyScale": lambda r: [("key", K(r.randint(0, 11), r.choice(["major", "minor"])))],
    "PTri": lambda r: [("length", r.choice([2, 4, 8, 16, 4, 8, r.randint(3, 9)])), ("min", flt(r, -2, 1)), ("max", flt(r, 2, 5))],
    "PSaw": lambda r: [("length", r.choice([2, 4, 8, 16, 4, 8, r.randint(3, 9)])), ("min", flt(r, -2, 1)), ("max", flt(r, 2, 5))],
}
for _n, (_sym, _) in BINOPS.items():
    TEMPLATES[_n] = _binop(nz=_n in ("PDiv", "PFloorDiv", "PMod"), small=_n in ("PPow", "PLShift", "PRShift"))
for _n in ("PEqual", "PNotEqual", "PGreaterThan", "PGreaterThanOrEqual", "PLessThan", "PLessThanOrEqual"):
    TEMPLATES[_n] = _binop(0, 2)


# ------------------------------------------------------------------------------------------------
# explicit step-wise references in plain Python (written from the class documentation; `use(p)` gives the value
# the next use of parameter p sees)
# ------------------------------------------------------------------------------------------------
STOP = object()       # the reference raises StopIteration at this call (and goes on: nothing is sticky by itself)


def ref_series(a, use):
    v, count = a["start"], 0
    while True:
        if count >= use("length"):
            yield STOP                  # the parameter is read again at the next call: a larger length revives the series
            continue
        step = use("step")
        yield v
        v, count = v + step, count + 1


def ref_range(a, use):
    v = a["start"]
    while True:
        end, step = use("end"), use("step")
        if (step > 0 and v >= end) or (step < 0 and v <= end):
            yield STOP
            continue
        yield v
        v += step


def ref_geom(a, use):
    v, count = a["start"], 0
    while True:
        if count >= a.get("length", SYS_MAXSIZE):
            yield STOP                  # (the multiplier is not read once the length is reached)
            continue
        m = use("multiply")
        yield v
        v, count = v * m, count + 1


def ref_impulse(a, use):
    pos = 0
    while True:
        if pos >= use("period"):
            pos = 0
        yield 1 if pos == 0 else 0
        pos += 1


def _series_at(e, i):
    return e.args[0] + i * e.args[1]


def ref_stutter(a, use):
    i = 0
    while True:
        c = use("count")
        v = _series_at(a["pattern"], i)
        i += 1
        for _ in range(max(c, 1)):
            yield v


def ref_subsequence(a, use):
    pos = 0
    while True:
        off, ln = use("offset"), use("length")
        if pos >= ln:
            yield STOP
            continue
        yield _series_at(a["pattern"], off + pos)
        pos += 1


def ref_sequence(a, use):
    seq, pos, rcount = a["sequence"], 0, 0
    while True:
        if rcount >= use("repeats"):
            yield STOP
            continue
        yield seq[pos]
        pos += 1
        if pos >= len(seq):
            pos, rcount = 0, rcount + 1


def ref_pointwise(f):
    def g(a, use):
        names = list(a)
        while True:
            vals = [use(n) for n in names]
            yield f(*vals)
    return g


def _rest2(f):
    return lambda x, y: None if (x is None or y is None) else f(x, y)


def ref_saw(tri):
    def g(a, use):
        phase = 0.0
        while True:
            length, mn, mx = use("length"), use("min"), use("max")
            norm = float(phase) / length
            rv = norm
            if tri:
                rv = norm * 2.0 if norm < 0.5 else 1.0 - (norm - 0.5) * 2.0
            yield mn + (mx - mn) * rv
            phase += 1
            if phase > length:
                phase -= length
    return g


def ref_changed(diff):
    def g(a, use):
        cur = use("source")
        while True:
            nxt = use("source")
            yield ((None if (nxt is None or cur is None) else nxt - cur) if diff else (0 if nxt == cur else 1))
            cur = nxt
    return g


def ref_arrayindex(a, use):
    while True:
        l, i = use("list"), use("index")
        yield None if i is None else l[int(i)]


def ref_indexof(a, use):
    while True:
        l, it = use("list"), use("item")
        yield l.index(it) if (it is not None and it in l) else None


REFS = {
    "PSeries": ref_series, "PRange": ref_range, "PGeom": ref_geom, "PImpulse": ref_impulse, "PStutter": ref_stutter,
    "PSubsequence": ref_subsequence, "PSequence": ref_sequence, "PTri": ref_saw(True), "PSaw": ref_saw(False),
    "PChanged": ref_changed(False), "PDiff": ref_changed(True), "PArrayIndex": ref_arrayindex, "PIndexOf": ref_indexof,
    "PAbs": ref_pointwise(lambda x: None if x is None else abs(x)), "PInt": ref_pointwise(lambda x: None if x is None else int(x)),
    "PAdd": ref_pointwise(_rest2(lambda x, y: x + y)), "PSub": ref_pointwise(_rest2(lambda x, y: x - y)),
    "PMul": ref_pointwise(_rest2(lambda x, y: x * y)),
    "PSkipIf": ref_pointwise(lambda p, s: None if s else p),
    "PLessThan": ref_pointwise(_rest2(lambda x, y: x < y)), "PEqual": ref_pointwise(_rest2(lambda x, y: x == y)),
}


def run_ref(cls, args, param, xs, n):
    """expected observations (without the constructor's) and the number of uses of `param` after each step"""
    a = dict(args)
    k = [0]

    def use(p):
        if p == param:
            v = xs[k[0] % len(xs)]
            k[0] += 1
            return v
        return a[p]
    g = REFS[cls](a, use)
    obs, uses = [], []
    for _ in range(n):
        v = next(g)
        obs.append("stop" if v is STOP else {"y": value_to_json(v)})
        uses.append(k[0])
    return obs, uses


# ------------------------------------------------------------------------------------------------
def build(cls, args, param=None, value=None, item=0):
    """E(cls, ...) with `param` replaced by `value` (for a *args parameter: its item `item`)"""
    out = []
    for p, v in args:
        if p == "args":
            vs = list(v)
            if param == "args":
                vs[item] = value
            out.extend(vs)
        else:
            out.append(value if p == param else v)
    return E(cls, *out)


def wrap_const(r, x, depth):
    """x wrapped in `depth` >= 1 layers of pattern-returning patterns: the innermost is PConstant(x)"""
    e = E("PConstant", x)
    for _ in range(depth - 1):
        e = E(r.choice(["PConstant", "PRef", "PRef"]), e)
    return e


def wrap_pattern(r, p, depth):
    """the pattern p under depth-1 layers of patterns that YIELD it (PConstant(p)) or forward it (PRef(p))"""
    e = p
    for _ in range(depth - 1):
        e = E(r.choice(["PConstant", "PRef"]), e)
    return e


def canon(o):
    return json.dumps(o, sort_keys=True)


def first_diff(a, b):
    for i in range(max(len(a), len(b))):
        if i >= len(a) or i >= len(b) or canon(a[i]) != canon(b[i]):
            return i
    return None


def pretty_list(obs):
    return [pretty_obs(o) for o in obs]


class Job:
    """one run of the implementation driver"""
    __slots__ = ("expr", "n", "seed", "set", "retarget", "res", "tag")

    def __init__(self, expr, n, seed, set_=None, retarget=None, tag=""):
        self.expr, self.n, self.seed, self.set, self.retarget, self.tag = expr, n, seed, set_, retarget, tag
        self.res = None

    def payload(self):
        return {"expr": to_json(self.expr), "n": self.n, "seed": self.seed, "set": self.set, "retarget": self.retarget}

    @property
    def obs(self):
        return self.res["obs"] + (["<timeout>"] if self.res["status"] else [])

    def python(self):
        lines = ["import isobar as iso", "p = %s" % to_source(self.expr)]
        if any(isinstance(n, E) and n.cls in ("Probe", "KEY", "SCALE", "FN") for _, n in nodes(self.expr)):
            lines.insert(1, "# Probe(x) = x wrapped in a pattern that counts next() calls; KEY/SCALE/FN: see harness/impl/c12_impl.py")
        if self.seed is not None:
            lines.append("# every PStochasticPattern seeded with %d + its creation index" % self.seed)
        if self.set:
            lines.append("# before step i: p.%s = values[schedule[i]]  with values=%s schedule=%s" % (
                self.set["attr"], [to_source(from_json(v)) for v in self.set["values"]], self.set["schedule"]))
        if self.retarget:
            lines.append("# before step s: the PRef's set_pattern(e) for (s, e) in %s" % [(s, to_source(from_json(e))) for s, e in self.retarget])
        lines.append("print([next(p) for _ in range(%d)])" % self.n)
        return "\n".join(lines)


def run_jobs(run, jobs, shards=12):
    if not jobs:
        return
    parts = [jobs[i::shards] for i in range(shards) if jobs[i::shards]]
    outs = run.impl_parallel("c12_impl", [{"cases": [j.payload() for j in part]} for part in parts])
    for part, out in zip(parts, outs):
        for j, r in zip(part, out["cases"]):
            j.res = r


# ------------------------------------------------------------------------------------------------
def registry_checks(run, pairs, outside, view):
    """static part: registry vs templates (fail closed), registry vs the Coq side's view"""
    accepting = {k: i for k, i in pairs.items() if i["mode"] in ("value", "items")}
    judged = {k: i for k, i in accepting.items() if k not in NOT_ACCEPTING}
    missing = sorted(k for k in judged if k[0] not in TEMPLATES or not any(p == k[1] for p, _ in TEMPLATES[k[0]](random.Random(0))))
    # a class that cannot be built by itself (its __next__ calls a hook that only raises NotImplementedError) and whose code - the
    # __next__ and the constructor - is run unchanged by registered subclasses is exercised THROUGH those subclasses
    through = {}
    for k in list(missing):
        i = judged[k]
        subs = sorted(c for (c, p), j in judged.items() if p == k[1] and (c, p) not in missing and k[0] in j.get("bases", [])
                      and j.get("code_owner") == i.get("code_owner"))
        if i.get("placeholder_methods") and subs:
            through["%s.%s" % k] = subs
            missing.remove(k)
            del judged[k]
    run.cov["pairs_exercised_through_subclasses"] = through
    # FAIL CLOSED: every other class of isobar/pattern/*.py that resolves a constructor parameter with Pattern.value and is
    # neither registered here (TEMPLATES) nor excluded with a reason (c12_registry.OUTSIDE, NOT_ACCEPTING) is a pair the
    # property quantifies over and this check cannot judge
    for k in missing:
        i = judged.pop(k)
        run.violation({"kind": "registry", "class": k[0], "param": k[1], "what": "unregistered-pair"}, {
            "broken": "registry: %s.%s (isobar/pattern/%s) resolves its parameter with Pattern.value at every step - it accepts a pattern - but "
                      "the check has neither a generator for the class nor a stated reason to leave it out: C12 is not established for this pair"
                      % (k[0], k[1], i["file"]),
            "python": "# class %s in isobar/pattern/%s; add a template to harness/c12.py TEMPLATES or an exclusion with its reason" % (k[0], i["file"])},
            found_input=False)
    # every constructor OPTION (mode flag, enum, bound) of a judged class must be varied by its template: a pair is judged under each
    # documented value of the flags, not under the defaults only
    unvaried = sorted("%s.%s" % (c, p) for (c, p), i in pairs.items() if c in TEMPLATES and i["kind"] == "pos" and any(k[0] == c for k in judged)
                      and not any(q == p for q, _ in TEMPLATES[c](random.Random(0))) and "%s.%s" % (c, p) not in OPTIONS_NOT_VARIED)
    if unvaried:
        raise CheckError("constructor options that no template varies (add them to the template or to OPTIONS_NOT_VARIED with a reason): %s" % unvaried)
    run.cov["constructor_options_varied"] = sorted("%s.%s" % (c, q) for c in TEMPLATES for q, _ in TEMPLATES[c](random.Random(0))
                                                   if (c, q) in pairs and pairs[(c, q)]["mode"] in ("raw", "unused") and any(k[0] == c for k in judged))
    stale = sorted(k for k in NOT_ACCEPTING if k not in accepting)
    if stale:
        raise CheckError("exclusions that the source no longer justifies: %s" % stale)
    # documented as taking a pattern but never consumed anywhere
    for k, i in sorted(pairs.items()):
        if i["mode"] in ("raw", "unmapped") and ("doc" in i["evidence"] or "test" in i["evidence"]):
            run.violation({"kind": "registry", "class": k[0], "param": k[1], "what": "documented-not-resolved"}, {
                "broken": "registry: %s.%s is documented / tested as accepting a pattern (%s) but __next__ uses it as a plain value" % (k[0], k[1], i["evidence"]),
                "python": "# see %s: class %s" % (i["file"], k[0])}, found_input=False)
    # the Coq side
    n_cmp = 0
    for (cls, param), i in sorted(pairs.items()):
        coq_cls = "PBinOp" if cls in BINOPS else COQ_NAME.get(cls, cls)
        if cls not in COQ_CLS or i["attr"] is None:
            continue
        v = view.get((coq_cls, i["attr"]))
        if v is None:
            continue
        n_cmp += 1
        src_resolved = i["mode"] in ("value", "items")
        coq_resolved = v["value"] > 0
        problem = None
        if src_resolved and not coq_resolved and (cls, param) not in MODEL_NARROWER:
            problem = "the source resolves %s.%s with Pattern.value at every step, the model's step clause does not (field type %s)" % (cls, param, v["type"])
        elif coq_resolved and not src_resolved:
            problem = "the model resolves %s.%s with `value` at every step, the source uses it as %s" % (cls, param, i["mode"])
        elif i["mode"] == "next" and "arg" not in v["type"]:
            problem = "the source calls next() on %s.%s, the model holds it as %s" % (cls, param, v["type"])
        elif i["mode"] in ("raw",) and v["type"] == "arg" and v["anext"] > 0:
            problem = "the source uses %s.%s as a plain value, the model calls next() on it" % (cls, param)
        if problem:
            run.violation({"kind": "registry", "class": cls, "param": param, "what": "model-vs-source"}, {
                "broken": "correspondence of the parameter registry (Pat/Syntax.v, Pat/Step.v vs %s): %s" % (i["file"], problem),
                "python": "# compare class %s in isobar/pattern/%s with the clause of %s in coq/Pat/Step.v" % (cls, i["file"], coq_cls)},
                found_input=False)
    # the table the theorems quantify over (Param.vfield_names) against the source registry
    out = run.coq_eval("From Isobar Require Import Pat.Param.\nFrom Coq Require Import String.", "vfield_names")
    table = set(re.findall(r'\("(\w+)"(?:%string)?, "(\w+)"(?:%string)?\)', out))
    if len(table) < 10:
        raise CheckError("cannot read Param.vfield_names: %s" % out[:300])
    src_table = {}
    for (cls, param), i in pairs.items():
        if cls in COQ_CLS and i["attr"] is not None:
            coq_cls = "PBinOp" if cls in BINOPS else COQ_NAME.get(cls, cls)
            src_table.setdefault((coq_cls, i["attr"]), []).append((cls, param, i))
    for key in sorted(table):
        for cls, param, i in src_table.get(key, [(key[0], key[1], None)]):
            ok = i is not None and i["mode"] == "value" and schedule_of((cls, param)) in ("step", "ctor+step") and not i["overwrite"]
            if not ok:
                run.violation({"kind": "registry", "class": cls, "param": param, "what": "theorem-table"}, {
                    "broken": "C12_const_equiv / C12_use_schedule quantify over %s.%s (Param.vfield), but the source %s" % (
                        key[0], key[1], "has no such parameter" if i is None else "uses it as mode=%s, schedule=%s, overwrite=%s" % (i["mode"], schedule_of((cls, param)), i["overwrite"])),
                    "python": "# compare Param.vfield in coq/Pat/Param.v with class %s" % cls}, found_input=False)
    not_in_table = sorted("%s.%s" % (c, p) for key, l in src_table.items() for (c, p, i) in l
                          if i["mode"] in ("value", "items") and key not in table)
    unexplained = [x for x in not_in_table if x not in THEOREM_TABLE_GAPS]
    if unexplained:
        raise CheckError("modelled value-resolved parameters missing from Param.vfield without a stated reason: %s" % unexplained)
    run.cov["registry"] = {
        "theorem_table_size": len(table), "modelled_parameters_outside_the_theorem_table": {k: THEOREM_TABLE_GAPS[k] for k in not_in_table},
        "pairs_total": len(pairs), "accepting_pairs": len(accepting), "judged_pairs": len(judged),
        "by_mode": {m: sum(1 for i in pairs.values() if i["mode"] == m) for m in ("value", "items", "next", "raw", "unused", "unmapped")},
        "excluded_pairs": {"%s.%s" % k: v for k, v in NOT_ACCEPTING.items()},
        "classes_outside": outside, "compared_with_model": n_cmp,
        "plain_value_parameters": sorted("%s.%s" % k for k, i in pairs.items() if i["mode"] == "raw" and i["kind"] == "pos"),
        "evidence_counts": {e: sum(1 for i in pairs.values() if e in i["evidence"]) for e in ("value", "hint", "doc", "test")},
    }
    return judged


def schedule_of(pair):
    return SCHEDULE.get(pair, "step")


def judge_schedule(pair, job, xs):
    """the use schedule of a varying parameter observed through the counting wrapper; None or a description"""
    kind = schedule_of(pair)
    calls = [c[0] for c in job.res["calls"]]
    ctor = job.res["ctor_calls"][0] if job.res["ctor_calls"] else 0
    want_ctor = 1 if kind == "ctor+step" else 0
    if ctor != want_ctor:
        return "the constructor read the parameter %d times (expected %d)" % (ctor, want_ctor)
    prev = ctor
    obs = job.res["obs"][1:]
    block_left = BLOCK_PREFIX.get(pair, 0)
    for i, (c, o) in enumerate(zip(calls, obs)):
        d = c - prev
        ok_value = isinstance(o, dict) and "y" in o
        if kind in ("step", "ctor+step"):
            if (ok_value and d != 1) or (not ok_value and d not in (0, 1)):
                return "step %d read the parameter %d times (expected exactly 1)" % (i + 1, d)
        elif kind == "loop":
            if ok_value and d < 1:
                return "step %d did not read the parameter" % (i + 1)
        elif kind == "atmost1":
            if d not in (0, 1):
                return "step %d read the parameter %d times (expected at most 1)" % (i + 1, d)
        elif kind == "block":
            if block_left == 0:
                if ok_value and d != 1:
                    return "step %d starts a block and read the parameter %d times (expected exactly 1)" % (i + 1, d)
                if d == 1:
                    block_left = max(int(xs[(c - 1) % len(xs)]), 1)
            elif d != 0:
                return "step %d is inside a block and read the parameter %d times (expected 0)" % (i + 1, d)
            if ok_value:
                block_left -= 1
        prev = c
    return None


def check(run, only=None):
    """only: replay mode — judge just these (class, parameter) pairs on the implementation (no Coq involved)"""
    rng = run.rng
    thorough = run.tier == "thorough"
    try:
        pairs, outside, abstract = REG.derive(REPO)
        view = REG.coq_view(COQDIR)
    except REG.RegistryError as e:
        raise CheckError("registry: %s" % e)
    if only is None:
        judged = registry_checks(run, pairs, outside, view)
    else:
        judged = {k: i for k, i in pairs.items() if k in only and i["mode"] in ("value", "items")}
    per_pair = 60 if thorough else 8
    reported = set()

    def report(sig, doc):
        key = json.dumps(sig, sort_keys=True)
        if key in reported:
            return
        reported.add(key)
        per_kind[sig["kind"]] = per_kind.get(sig["kind"], 0) + 1
        if per_kind[sig["kind"]] > MAX_REPORTS_PER_KIND:
            run.cov["violations_not_reported_beyond_cap"] = run.cov.get("violations_not_reported_beyond_cap", 0) + 1
            return
        run.violation(sig, doc)
    per_kind = {}

    discriminating = {pair: 0 for pair in judged}

    def process(todo, count):
        # ---------------------------------------------------------------------------------------------
        # generate
        # ---------------------------------------------------------------------------------------------
        insts = []
        for pair in sorted(todo):
            cls, param = pair
            info = judged[pair]
            for t in range(count):
                args = TEMPLATES[cls](rng)
                a = dict(args)
                item = 0
                if param == "args":
                    item = rng.randrange(len(a["args"]))
                    x = a["args"][item]
                else:
                    x = a[param]
                xs = [x]
                for _ in range(60):
                    if len(xs) >= 3 + (t % 3):
                        break
                    b = dict(TEMPLATES[cls](rng))
                    y = b["args"][item] if param == "args" else b[param]
                    if to_source(y) != to_source(xs[-1]):
                        xs.append(y)
                seed = rng.randint(1, 10 ** 6)
                n = 1 if (cls == "PNoRepeats") else N_STEPS + (t % 5)
                J = lambda e, **kw: Job(e, kw.pop("n", n), seed, **kw)
                inst = {"pair": pair, "args": args, "x": x, "xs": xs, "item": item, "n": n, "seed": seed, "attr": info["attr"]}
                inst["scalar"] = J(build(cls, args, param, x, item), tag="scalar")
                inst["forms"] = [
                    ("PConstant(x)", J(build(cls, args, param, E("PConstant", x), item))),
                    ("PRef(PConstant(x))", J(build(cls, args, param, E("PRef", E("PConstant", x)), item))),
                    ("depth-2", J(build(cls, args, param, wrap_const(rng, x, 2), item))),
                    ("depth-3", J(build(cls, args, param, wrap_const(rng, x, 3), item))),
                ]
                nv = N_STEPS + (t % 5)
                vp = E("Probe", E("PSequence", list(xs)))
                inst["nv"] = nv
                inst["varying"] = Job(build(cls, args, param, vp, item), nv, seed)
                d = 2 + (t % 2)
                inst["nested"] = Job(build(cls, args, param, wrap_pattern(rng, vp, d), item), nv, seed)
                inst["nested_depth"] = d
                inst["x1"] = Job(build(cls, args, param, xs[0], item), nv, seed)
                # PRef retargeted at random steps to other constants
                s1 = rng.randint(1, nv - 3)
                s2 = rng.randint(s1 + 1, nv - 1)
                ys = [xs[0], xs[1 % len(xs)], xs[2 % len(xs)]]
                inst["retarget_plan"] = (s1, s2, ys)
                # the reference may itself point at a reference (chains of depth 1..3): the INNERMOST one is re-targeted
                # (the driver re-targets the PRef that was constructed first), and the effect must show from the next step
                chain = E("PRef", E("PConstant", ys[0]))
                for _ in range(t % 3):
                    chain = E("PRef", chain)
                inst["retarget_chain_depth"] = 1 + (t % 3)
                inst["retarget"] = Job(build(cls, args, param, chain, item), nv, seed,
                                       retarget=[[s1, to_json(E("PConstant", ys[1]))], [s2, to_json(E("PSequence", [ys[2]]))]])
                insts.append(inst)
        jobs = []
        for inst in insts:
            jobs += [inst["scalar"], inst["varying"], inst["nested"], inst["x1"], inst["retarget"]] + [j for _, j in inst["forms"]]
        run_jobs(run, jobs)

        # second round: the step-wise scalar reference needs the observed use schedule
        def attr_value(inst, v):
            """the plain value the attribute holds when the parameter is v"""
            if inst["pair"][1] == "args":
                vs = list(dict(inst["args"])["args"])
                vs[inst["item"]] = v
                return tuple(vs)
            return v
        round2 = []
        for inst in insts:
            xs, nv = inst["xs"], inst["nv"]
            calls = [c[0] for c in inst["varying"].res["calls"]]
            ctor = inst["varying"].res["ctor_calls"][0] if inst["varying"].res["ctor_calls"] else 0
            inst["setref"] = None
            if inst["varying"].res["status"] or len(inst["varying"].res["obs"]) < 2:
                continue
            before = [ctor] + calls[:-1]
            sched = [b % len(xs) for b in before] + [0] * (nv - len(before))
            first = xs[(ctor - 1) % len(xs)] if ctor else xs[0]
            inst["setref"] = Job(build(inst["pair"][0], inst["args"], inst["pair"][1], first, inst["item"]), nv, inst["seed"],
                                 set_={"attr": inst["attr"], "values": [to_json(attr_value(inst, v)) for v in xs], "schedule": sched})
            s1, s2, ys = inst["retarget_plan"]
            sched_r = [0 if i < s1 else 1 if i < s2 else 2 for i in range(nv)]
            inst["retarget_ref"] = Job(build(inst["pair"][0], inst["args"], inst["pair"][1], ys[0], inst["item"]), nv, inst["seed"],
                                       set_={"attr": inst["attr"], "values": [to_json(attr_value(inst, v)) for v in ys], "schedule": sched_r})
            round2 += [inst["setref"], inst["retarget_ref"]]
        run_jobs(run, round2)

        # ---------------------------------------------------------------------------------------------
        # judge
        # ---------------------------------------------------------------------------------------------
        for inst in insts:
            cls, param = inst["pair"]
            pname = "%s.%s" % (cls, param)
            base = inst["scalar"]
            run.dist("pair." + pname)
            sched_kind = schedule_of(inst["pair"])
            run.dist("schedule." + sched_kind)
            # (1) scalar / PConstant / PRef(PConstant) / deeper nestings are indistinguishable
            for fname, j in inst["forms"]:
                run.count()
                run.dist("form." + fname)
                run.cov["oracle_evaluations"] += len(j.obs)
                k = first_diff(base.obs, j.obs)
                if len(base.obs) > 1 and not base.res["status"]:
                    run.nontrivial("const %s %s" % (fname, to_source(j.expr)))
                if k is not None:
                    report({"kind": "const-equivalence", "class": cls, "param": param}, {
                        "case": {"class": cls, "param": param, "form": fname, "expr": to_source(j.expr), "scalar_expr": to_source(base.expr),
                                 "seed": inst["seed"], "n": inst["n"]},
                        "expected": "the outputs of %s: %s" % (to_source(base.expr), pretty_list(base.obs)),
                        "observed": "%s (first difference at observation %d; observation 0 is the constructor)" % (pretty_list(j.obs), k),
                        "python": j.python() + "\n# versus\n" + base.python()})
            # (2) varying parameter: schedule + step-wise scalar reference
            v = inst["varying"]
            run.count()
            run.dist("form.varying")
            if v.res["status"] or len(v.res["obs"]) < 2:
                # the scalar form must then fail in the same way at construction
                if canon(v.obs[:1] + v.obs[-1:]) != canon(inst["x1"].obs[:1] + inst["x1"].obs[-1:]) and (v.res["status"] or len(v.res["obs"]) < 2) \
                        and not (inst["x1"].res["status"] == v.res["status"] and len(inst["x1"].res["obs"]) == len(v.res["obs"])):
                    report({"kind": "varying-construction", "class": cls, "param": param}, {
                        "case": {"class": cls, "param": param, "expr": to_source(v.expr), "seed": inst["seed"]},
                        "expected": "constructed and stepped like %s: %s" % (to_source(inst["x1"].expr), pretty_list(inst["x1"].obs)),
                        "observed": pretty_list(v.obs), "python": v.python()})
                else:
                    run.discard("varying: not constructible either way")
                continue
            run.cov["oracle_evaluations"] += len(v.obs)
            why = judge_schedule(inst["pair"], v, inst["xs"])
            if why:
                report({"kind": "use-schedule", "class": cls, "param": param}, {
                    "case": {"class": cls, "param": param, "expr": to_source(v.expr), "seed": inst["seed"], "n": inst["nv"], "schedule": sched_kind},
                    "expected": "a varying parameter is read exactly once per use (%s): never skipped, never read twice" % sched_kind,
                    "observed": "%s; cumulative next() calls on the parameter after each step: %s (constructor: %s); outputs %s" % (
                        why, [c[0] for c in v.res["calls"]], v.res["ctor_calls"], pretty_list(v.obs)),
                    "python": v.python()})
            sr = inst["setref"]
            if sr is not None and sched_kind == "loop":
                cs = [inst["varying"].res["ctor_calls"][0]] + [c[0] for c in v.res["calls"]]
                if any(y - x != 1 for x, y in zip(cs, cs[1:])):
                    run.discard("loop class: a step read more than one value")
                    sr = None
            if sr is not None:
                k = first_diff(sr.obs, v.obs)
                if k is not None:
                    report({"kind": "stepwise-reference", "class": cls, "param": param}, {
                        "case": {"class": cls, "param": param, "expr": to_source(v.expr), "seed": inst["seed"], "n": inst["nv"],
                                 "parameter_stream": [to_source(x) for x in inst["xs"]]},
                        "expected": "the outputs of the same class with the parameter re-assigned by hand to the value its i-th use must see: %s" % pretty_list(sr.obs),
                        "observed": "%s (first difference at observation %d)" % (pretty_list(v.obs), k),
                        "python": v.python() + "\n# reference\n" + sr.python()})
                if first_diff(inst["x1"].obs, v.obs) is not None:
                    discriminating[inst["pair"]] += 1
                    run.nontrivial("varying " + to_source(v.expr))
            # (3) explicit plain-Python reference
            if cls in REFS and param != "args":
                try:
                    want, uses = run_ref(cls, inst["args"], param, inst["xs"], inst["nv"])
                    got = v.res["obs"][1:]
                    k = first_diff(want, got)
                    run.cov["oracle_evaluations"] += len(got)
                    run.dist("oracle.plain-python-reference")
                    if k is not None:
                        report({"kind": "python-reference", "class": cls, "param": param}, {
                            "case": {"class": cls, "param": param, "expr": to_source(v.expr), "n": inst["nv"],
                                     "parameter_stream": [to_source(x) for x in inst["xs"]]},
                            "expected": "%s (plain-Python reference of %s: the i-th use of %s sees the i-th value)" % (pretty_list(want), cls, param),
                            "observed": "%s (first difference at step %d)" % (pretty_list(got), k + 1), "python": v.python()})
                    want1, _ = run_ref(cls, inst["args"], param, [inst["x"]], inst["n"])
                    k = first_diff(want1, base.res["obs"][1:])
                    if k is not None and not base.res["status"]:
                        report({"kind": "python-reference", "class": cls, "param": param, "form": "scalar"}, {
                            "case": {"class": cls, "param": param, "expr": to_source(base.expr), "n": inst["n"]},
                            "expected": pretty_list(want1), "observed": pretty_list(base.res["obs"][1:]), "python": base.python()})
                except (TypeError, ValueError, ZeroDivisionError, IndexError, OverflowError):
                    run.discard("python-reference: outside its domain")
            # (4) the varying parameter under 1..2 more layers of pattern-returning patterns
            nj = inst["nested"]
            run.count()
            run.dist("form.varying-depth-%d" % inst["nested_depth"])
            k = first_diff(v.obs, nj.obs)
            kc = None if [c[:1] for c in v.res["calls"]] == [c[:1] for c in nj.res["calls"]] else "calls"
            if k is not None or kc:
                report({"kind": "nested-resolution", "class": cls, "param": param}, {
                    "case": {"class": cls, "param": param, "expr": to_source(nj.expr), "depth": inst["nested_depth"], "seed": inst["seed"]},
                    "expected": "as with the parameter pattern given directly: %s, next() calls %s" % (pretty_list(v.obs), [c[0] for c in v.res["calls"]]),
                    "observed": "%s, next() calls %s" % (pretty_list(nj.obs), [c[0] for c in nj.res["calls"]]), "python": nj.python()})
            # (5) PRef.set_pattern takes effect from the very next use
            rj, rr = inst["retarget"], inst.get("retarget_ref")
            if rr is not None:
                run.count()
                run.dist("form.retarget")
                run.dist("form.retarget.chain-depth-%d" % inst.get("retarget_chain_depth", 1))
                k = first_diff(rr.obs, rj.obs)
                if first_diff(inst["x1"].obs, rj.obs) is not None:
                    run.nontrivial("retarget " + to_source(rj.expr) + repr(inst["retarget_plan"][:2]))
                if k is not None:
                    report({"kind": "retarget", "class": cls, "param": param}, {
                        "case": {"class": cls, "param": param, "expr": to_source(rj.expr), "seed": inst["seed"],
                                 "retarget": [(s, to_source(from_json(e))) for s, e in rj.retarget]},
                        "expected": "after set_pattern the very next use sees the new pattern: %s" % pretty_list(rr.obs),
                        "observed": "%s (first difference at observation %d)" % (pretty_list(rj.obs), k),
                        "python": rj.python()})
        return insts

    insts = process(sorted(judged), per_pair if only is None else 40)
    for attempt in range(3):          # pairs whose varying cases all happened to coincide with the constant run: more instances
        again = [p for p, n in discriminating.items() if n == 0 and p not in NO_DISCRIMINATION]
        if not again or run.violations:
            break
        run.dist('regenerated-pairs', len(again))
        process(again, per_pair * 3)
    weak = sorted("%s.%s" % p for p, n in discriminating.items() if n == 0 and p not in NO_DISCRIMINATION)
    run.cov["pairs_without_discriminating_varying_case"] = weak

    extra_checks(run, rng, report, thorough)
    if only is not None:
        return
    LIVE.keyorder_checks(run, rng, report, Job, run_jobs, thorough)
    LIVE.live_checks(run, rng, report, thorough)
    model_checks(run, insts, report)
    LIVE.osc_model_checks(run, insts, report)
    if insts:
      run.sample({"pair": "%s.%s" % insts[0]["pair"], "scalar": to_source(insts[0]["scalar"].expr),
                  "varying": to_source(insts[0]["varying"].expr), "outputs": pretty_list(insts[0]["varying"].obs),
                  "calls": [c[0] for c in insts[0]["varying"].res["calls"]]})
    run.cov["rule"] = ("one evaluation = one run of a form of one (class, parameter) instance; non-trivial: the constant forms produced "
                       "at least one output; a varying / retarget case is non-trivial when its outputs differ from those of the same "
                       "class with the parameter fixed to the first value (reading the parameter once would be noticed)")
    if weak and not run.violations:
        raise CheckError("no discriminating varying case was generated for %s" % weak)


# ------------------------------------------------------------------------------------------------
# tuples containing patterns, nesting depth 1..3; PDict: two forms
# ------------------------------------------------------------------------------------------------
def leaf(r):
    """a leaf pattern with a known stream: (expression, function step index -> value)"""
    k = r.random()
    if k < 0.5:
        xs = ints(r, r.randint(2, 4))
        return E("PSequence", xs), (lambda i, xs=xs: xs[i % len(xs)])
    if k < 0.8:
        a, b = r.randint(-3, 5), r.randint(1, 3)
        return E("PSeries", a, b), (lambda i, a=a, b=b: a + i * b)
    x = r.randint(-9, 9)
    return E("PConstant", x), (lambda i, x=x: x)


def nested_value(r, depth, probes):
    """(expression tree of tuples / pattern-returning patterns with leaf patterns, function i -> resolved value)"""
    if depth <= 0 or r.random() < 0.25:
        if r.random() < 0.3:
            x = r.randint(-9, 9)
            return x, (lambda i, x=x: x)
        e, f = leaf(r)
        probes.append(f)
        return E("Probe", e), f
    k = r.random()
    if k < 0.55:
        parts = [nested_value(r, depth - 1, probes) for _ in range(r.randint(1, 3))]
        return tuple(p[0] for p in parts), (lambda i, parts=parts: tuple(p[1](i) for p in parts))
    inner, f = nested_value(r, depth - 1, probes)
    if k < 0.8:
        return E("PConstant", inner), f          # a pattern that yields a pattern / a tuple containing patterns
    if is_pat(inner):
        return E("PRef", inner), f
    return E("PConstant", inner), f


def extra_checks(run, rng, report, thorough):
    jobs, metas = [], []
    n = 10
    for t in range(1200 if thorough else 150):
        probes = []
        depth = 1 + t % 3
        e, f = nested_value(rng, depth, probes)
        if not (is_pat(e) or isinstance(e, tuple)):
            continue
        ctx = t % 4
        if ctx == 0:
            expr, g = E("PSkipIf", e, 0), f
        elif ctx == 1:
            expr, g = E("PSequence", [e]), f
        elif ctx == 2:
            expr, g = E("PDict", {"k": e if is_pat(e) else E("PConstant", e)}), (lambda i, f=f: {"k": f(i)})
        else:
            expr, g = E("PArrayIndex", [e, 0], 0), f
        jobs.append(Job(expr, n, 1))
        metas.append((depth, ctx, g, len(probes)))
    run_jobs(run, jobs)
    for j, (depth, ctx, g, nprobes) in zip(jobs, metas):
        run.count()
        run.dist("nested.depth-%d" % depth)
        run.dist("nested.context-%s" % ("PSkipIf", "PSequence", "PDict", "PArrayIndex")[ctx])
        want = [{"y": None}] + [{"y": value_to_json(g(i))} for i in range(n)]
        run.cov["oracle_evaluations"] += n
        run.nontrivial("nested " + to_source(j.expr))
        k = first_diff(want, j.obs)
        calls_ok = all(c == [i + 1] * nprobes for i, c in enumerate(j.res["calls"]))
        if k is not None or not calls_ok:
            report({"kind": "recursive-resolution", "context": ("PSkipIf", "PSequence", "PDict", "PArrayIndex")[ctx]}, {
                "case": {"expr": to_source(j.expr), "depth": depth},
                "expected": "%s; every nested pattern advanced exactly once per step" % pretty_list(want),
                "observed": "%s; next() calls on the nested patterns after each step: %s" % (pretty_list(j.obs), j.res["calls"]),
                "python": j.python()})
    # PDict: dict of one-shot sequences vs list of dicts
    jobs, metas = [], []
    for t in range(800 if thorough else 120):
        keys = rng.sample(["note", "amp", "dur", "gate", "x"], rng.randint(1, 4))
        ln = rng.randint(0, 5)
        cols = {k: [num(rng) if rng.random() > 0.1 else None for _ in range(ln)] for k in keys}
        rows = [{k: cols[k][i] for k in keys} for i in range(ln)]
        a = Job(E("PDict", {k: E("PSequence", cols[k], 1) for k in keys}), ln + 2, 1)
        b = Job(E("PDict", rows), ln + 2, 1)
        ragged = {k: cols[k] + [num(rng) for _ in range(rng.randint(0, 3))] for k in keys}
        c = Job(E("PDict", {k: E("PSequence", ragged[k], 1) for k in keys}), ln + 4, 1)
        jobs += [a, b, c]
        metas.append((keys, rows, ragged, a, b, c))
    run_jobs(run, jobs)
    for keys, rows, ragged, a, b, c in metas:
        run.count(2)
        run.dist("pdict.keys-%d" % len(keys))
        run.dist("pdict.length-%d" % len(rows))
        want = [{"y": None}] + [{"y": value_to_json(r)} for r in rows] + ["stop", "stop"]
        if not rows:
            want = [{"y": None}, "stop", "stop"]          # the list form of an empty list has no keys: see below
        run.cov["oracle_evaluations"] += 2 * len(want)
        if rows:
            run.nontrivial("pdict " + to_source(b.expr))
            ka, kb = first_diff(want, a.obs), first_diff(want, b.obs)
            if ka is not None or kb is not None:
                report({"kind": "pdict-forms"}, {
                    "case": {"dict_of_sequences": to_source(a.expr), "list_of_dicts": to_source(b.expr)},
                    "expected": pretty_list(want), "observed": {"dict_of_sequences": pretty_list(a.obs), "list_of_dicts": pretty_list(b.obs)},
                    "python": a.python() + "\n" + b.python()})
        m = min(len(v) for v in ragged.values())
        wantc = [{"y": None}] + [{"y": value_to_json({k: ragged[k][i] for k in keys})} for i in range(m)] + ["stop"]
        if first_diff(wantc, c.obs[:len(wantc)]) is not None:
            report({"kind": "pdict-shortest"}, {
                "case": {"expr": to_source(c.expr)}, "expected": "%s (ends with the shortest column)" % pretty_list(wantc),
                "observed": pretty_list(c.obs), "python": c.python()})


# ------------------------------------------------------------------------------------------------
def strip_probe(x):
    if isinstance(x, E):
        if x.cls == "Probe":
            return strip_probe(x.args[0])
        return E(x.cls, *[strip_probe(a) for a in x.args])
    if isinstance(x, tuple):
        return tuple(strip_probe(a) for a in x)
    if isinstance(x, list):
        return [strip_probe(a) for a in x]
    if isinstance(x, dict):
        return {k: strip_probe(v) for k, v in x.items()}
    return x


def modelled(x):
    return all(n.cls in COQ_CLS for _, n in nodes(x) if isinstance(n, E))


def model_checks(run, insts, report):
    """the same forms on the Coq model (classes of the embedding)"""
    cases = []
    for inst in insts:
        for j in [inst["scalar"], inst["varying"], inst["nested"]] + [j for _, j in inst["forms"]]:
            e = strip_probe(j.expr)
            if not modelled(e) or j.res["status"]:
                continue
            # PConstant(pattern) has no image in the model's PConstant (a plain value)
            if any(isinstance(n, E) and n.cls == "PConstant" and is_pat(n.args[0]) for _, n in nodes(e)):
                run.discard("model: PConstant holding a pattern")
                continue
            c = Case(e, [("next", 0)] * j.n, "c12", {"pair": inst["pair"]})
            c.obs = j.res["obs"]
            cases.append(c)
    run_model(run, cases)
    for c in cases:
        if c.verdict == "discard":
            run.discard((c.status or "?").split(":")[0])
        elif c.verdict == "agree":
            run.cov["traces_validated_against_impl"] += 1
    bad = [c for c in cases if c.verdict == "disagree"]
    for c in bad[:3]:
        cls, param = c.meta["pair"]
        report({"kind": "correspondence", "class": cls, "param": param}, {
            "case": {"expr": to_source(c.expr), "expr_json": to_json(c.expr), "ops": [list(o) for o in c.ops]},
            "expected": "the Coq model of %s (Pat/Step.v): %s" % (cls, model_trace(run, c)),
            "observed": c.obs_pretty(), "python": replay_snippet(c.expr, c.ops)})


def replay(run, doc):
    """prints the recorded case and re-judges the (class, parameter) pair of the signature on the implementation with
    fresh instances (40 per pair, all oracles except the Coq model)"""
    if "case" not in doc:
        print("replay: no concrete case recorded (%s)" % doc.get("broken", "?"))
        return 1
    if doc.get("signature", {}).get("kind") in ("pdict-key-order", "live-retarget", "live-driver-error") or doc.get("signature", {}).get("what") == "live":
        print(doc.get("python"))
        return LIVE.replay(run, doc)
    print(doc.get("python"))
    print("expected:", doc.get("expected"))
    print("observed:", doc.get("observed"))
    sig = doc.get("signature", {})
    only = {(sig["class"], sig["param"])} if "class" in sig and "param" in sig else set()
    run.rng.seed(doc.get("seed", 1))
    check(run, only=only)
    if run.violations:
        print("VIOLATION property=C12 replay=(replayed)")
        return 1
    print("replay: the property holds on the re-generated cases of this pair")
    return 0

#!/venv/bin/python
"""developer tool: show the first difference between the implementation's and the model's sparse observation of a replay file"""
import json, re, sys
d = json.load(open(sys.argv[1]))
sc = d["scenario"]
print("config", sc["config"], "tpb", sc["tpb"], "U", sc["U"])
for i, cb in enumerate(sc.get("callbacks", [])):
    print(" CB%d" % i, json.dumps(cb)[:1200])
idx = 0
for o in sc["ops"]:
    print(" OP@%d" % idx, json.dumps(o)[:1200]); idx += o[1] if o[0] == "tick" else 1
impl = d["observed"]
m = d["model"]
ents = re.findall(r"\((\d+), \[(.*?)\], (R\w+), \[(.*?)\]\)", m)
def norm_impl(e):
    i, calls, res, ids = e
    cs = []
    for c in calls:
        cs.append({"on": "CNoteOn", "off": "CNoteOff", "ctl": "CControl", "pgm": "CProgram", "cb": "CCallback"}[c[0]] + " " + " ".join(str(x) for x in c[1:]))
    return (i, "; ".join(cs), {"ok": "ROk", "stop": "RStopIteration", "exc": "RException", "limit": "RTrackLimit", "notfound": "RTrackNotFound"}[res], "; ".join("%d" % t for t in ids))
mi = [(int(a), b.replace("%nat", ""), c, d_.replace("%nat", "").replace(" ", "").replace(";", "; ")) for a, b, c, d_ in ents]
ii = [norm_impl(e) for e in impl]
for k in range(max(len(mi), len(ii))):
    a = ii[k] if k < len(ii) else None
    b = mi[k] if k < len(mi) else None
    if a != b:
        print("first difference at sparse entry", k)
        for j in range(max(0, k - 4), k):
            print("   same ", ii[j])
        print("   IMPL ", a); print("   MODEL", b)
        print("   next IMPL ", ii[k + 1:k + 3]); print("   next MODEL", mi[k + 1:k + 3])
        break
else:
    print("no difference found by this tool (model output truncated?)")

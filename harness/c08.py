"""C08 — arithmetic and comparison operators apply element-wise.

Theorems: coq/Props/C08.v (element-wise law of every PBinOp class for ANY operator semantics, rests, ending,
reflected forms, &, unary minus, abs, nesting by induction on the expression).
Correspondence: operator expressions written with the Python operators (so the dunder dispatch is what is
exercised) are evaluated on the implementation and on the Coq model (Pat/Step.v through Pat/Dunder.v) and
the observation lists are compared inside Coq with typed equality.
Oracle: plain Python, from the property text: the i-th output is the Python operator applied to the i-th
values of the operand streams (operand streams of non-literal leaves are obtained by running a fresh
instance of the leaf on its own)."""
import operator, math, contextlib
import pat_common as _pc
from pat_common import *

PROP = "C08"
META = {
 "engine": "P-pattern-algebra",
 "text": "Coq theorems (Props/C08.v, closed under the global context) prove, for an ARBITRARY operator semantics (a Section variable) and arbitrary operand objects of the pattern model: the i-th output of every PBinOp class is the operator applied to the i-th operand values, a rest on either side gives a rest, the output stops at the first index at which either operand stops (left operand first), & yields the conjunction of the truth values, -p is 0 - p_i and abs(p) is |p_i| with rests kept; what the Python operators build (dunder table incl. reflected forms) denotes the operator with the operands in the written order; and the law lifts to operator expression trees of any depth by induction. The model (Pat/Step.v, a clause-by-clause transcription of core.py) is tied to the repository on every run: operator expressions built through the Python operators for all 15 operators and &, -x, abs(x), pattern/scalar on either side, ints/floats/bools/rests, equal and unequal lengths, raising operands, nestings to depth 3 (5 % deeper) are run on both sides and compared inside Coq; an independent oracle applies Python's own operators to the operand streams in the written nesting order, compares floats bit for bit (incl. the sign of a zero) and supplies the failing input. Rounding-sensitive strata (two-operator chains and nested trees with scalars at every level over float themes: non-dyadic decimals, cancellation with 1e16, values near 2**53, subnormals, signed zeros) make re-association, distribution, constant folding and single rounding visible; these cases are also compared with the model under the operator semantics Pat/Ieee.v (exact result rounded to binary64, ties to even), for which Props/C08.v proves the nesting law instance, non-associativity / non-distributivity witnesses, the reflected-form side condition and conservativity over Pat/Val.v.",
 "note": "Trusted: Coq kernel + VM; the harness; Val.binop as a description of CPython's arithmetic on the exact (dyadic) value domain - the C08 theorems do not depend on it (operator semantics is a Section variable), only the correspondence does; and Ieee.binop_ieee (round-to-nearest-even + - * / on all finite floats) as a description of CPython's float arithmetic, validated by the correspondence only; results outside both domains (// % ** on non-dyadic floats, inf/nan, complex, huge ints) are judged by the oracle only and discarded from the model comparison; the sign of a zero is judged by the oracle only, and not under a unary minus (property text undecided). After the first exception the operand streams are no longer aligned (the left operand has advanced, the right has not): the law is judged up to and including the first StopIteration/exception.",
}

PYOP = {"+": operator.add, "-": operator.sub, "*": operator.mul, "/": operator.truediv, "//": operator.floordiv,
        "%": operator.mod, "**": operator.pow, "<<": operator.lshift, ">>": operator.rshift, "==": operator.eq,
        "!=": operator.ne, "<": operator.lt, ">": operator.gt, "<=": operator.le, ">=": operator.ge}
SYMS = list(PYOP) + ["&"]
CLS2SYM = {name: sym for name, (sym, _) in BINOPS.items()}
CLS2SYM["PAnd"] = "&"
SMALL_RHS = ("**", "<<", ">>")          # right operand kept small: Python would compute astronomically large ints
NEXTS = 14


# ---- oracle ----------------------------------------------------------------------------------------------
def apply_op(sym, a, b):
    """what the property demands of one element"""
    if sym == "&":
        return ("y", bool(a) and bool(b))
    if a is None or b is None:
        return ("y", None)
    try:
        return ("y", PYOP[sym](a, b))
    except Exception as e:
        return ("r", type(e).__name__)


class CannotJudge(Exception):
    pass


def elem(x, i, streams):
    """outcome of the i-th element of expression x: ("y", v) | "stop" | ("r", class name)"""
    if isinstance(x, Infix) or (isinstance(x, E) and x.cls in CLS2SYM and len(x.args) == 2):
        sym, l, r = (x.op, x.lhs, x.rhs) if isinstance(x, Infix) else (CLS2SYM[x.cls], x.args[0], x.args[1])
        a = elem(l, i, streams)
        if a == "stop" or a[0] == "r":
            return a
        b = elem(r, i, streams)
        if b == "stop" or b[0] == "r":
            return b
        return apply_op(sym, a[1], b[1])
    if isinstance(x, Unary) or (isinstance(x, E) and x.cls == "PAbs" and len(x.args) == 1):
        op, arg = (x.op, x.x) if isinstance(x, Unary) else ("abs", x.args[0])
        a = elem(arg, i, streams)
        if a == "stop" or a[0] == "r":
            return a
        if op == "neg":
            return apply_op("-", 0, a[1])
        if a[1] is None:
            return ("y", None)
        try:
            return ("y", abs(a[1]))
        except Exception as e:
            return ("r", type(e).__name__)
    if isinstance(x, E):
        if x.cls == "PSequence" and len(x.args) == 2 and isinstance(x.args[0], list) and type(x.args[1]) is int \
                and not any(is_pat(v) or isinstance(v, (tuple, list, dict)) for v in x.args[0]):
            xs, rep = x.args
            return ("y", xs[i % len(xs)]) if xs and i < len(xs) * rep else "stop"
        if x.cls == "PConstant" and len(x.args) == 1 and not is_pat(x.args[0]) and not isinstance(x.args[0], (tuple, list, dict)):
            return ("y", x.args[0])
        s = streams.get(to_source(x))
        if s is None or i >= len(s):
            raise CannotJudge(to_source(x))
        o = s[i]
        if o == "stop":
            return "stop"
        if "r" in o:
            return ("r", o["r"])
        return ("y", obs_value(o["y"]))
    if is_pat(x) or isinstance(x, (tuple, list, dict)):
        raise CannotJudge(repr(x))
    return ("y", x)


def is_literal(x):
    if x.cls == "PSequence":
        return len(x.args) == 2 and isinstance(x.args[0], list) and type(x.args[1]) is int \
            and not any(is_pat(v) or isinstance(v, (tuple, list, dict)) for v in x.args[0])
    return x.cls == "PConstant" and len(x.args) == 1 and not is_pat(x.args[0]) and not isinstance(x.args[0], (tuple, list, dict))


def ctor_raises(x):
    """scalar & pattern: Pattern has no __rand__, so building the expression is a TypeError"""
    if isinstance(x, Infix):
        if x.op == "&" and not is_pat(x.lhs):
            return True
        return ctor_raises(x.lhs) or ctor_raises(x.rhs)
    if isinstance(x, Unary):
        return ctor_raises(x.x)
    if isinstance(x, E):
        return any(ctor_raises(a) for a in x.args)
    return False


def neg_zero(v):
    return type(v) is float and v == 0.0 and math.copysign(1.0, v) < 0


def canon(o, signed=True):
    """typed canonical text of an outcome (True, 1 and 1.0 are three different observations).  A float is its
    integer ratio, which is exact for every finite binary64 except that it cannot tell -0.0 from 0.0: a negative
    zero carries the mark "z" (as in the observations of impl/c08_impl.py) when `signed`."""
    if o == "stop":
        return "stop"
    if o[0] == "r":
        return "raise " + o[1]
    j = value_to_json(o[1])
    if signed and neg_zero(o[1]):
        j = {"f": [0, 1], "z": 1}
    return "value " + json.dumps(j, sort_keys=True)


def canon_obs(o, signed=True):
    if o == "stop":
        return "stop"
    if "r" in o:
        return "raise " + o["r"]
    y = o["y"]
    if not signed and isinstance(y, dict) and "z" in y:
        y = {"f": y["f"]}
    return "value " + json.dumps(y, sort_keys=True)


def obs_value(y):
    """the Python value of an observation of impl/c08_impl.py (the sign of a zero kept)"""
    if isinstance(y, dict) and y.get("z"):
        return -0.0
    return from_json(y)


def describe(text, o):
    """canonical text, plus repr and float.hex for a float value (the comparison itself is on the canonical text)"""
    v = None
    if isinstance(o, tuple) and o[0] == "y":
        v = o[1]
    elif isinstance(o, dict) and "y" in o and isinstance(o["y"], dict) and "f" in o["y"]:
        v = obs_value(o["y"])
    if type(v) is float and math.isfinite(v):
        return "%s (= %r = %s)" % (text, v, v.hex())
    return text


def has_neg(x):
    return any(isinstance(n, Unary) and n.op == "neg" for _, n in nodes(x))


def resumes_after_stop(stream):
    seen_stop = False
    for o in stream:
        if o == "stop":
            seen_stop = True
        elif seen_stop and isinstance(o, dict) and "y" in o:
            return True
    return False


def judge(case, streams):
    """None if the implementation's observations are what the property demands, else a dict describing
    the first deviation.  Judged: the constructor, then every next() up to and including the first
    StopIteration / exception; after a StopIteration no value may appear again."""
    obs = case.obs
    for _, n in nodes(case.expr):                       # a non-literal operand whose own constructor raised
        if isinstance(n, E) and n.cls not in CLS2SYM and n.cls != "PAbs" and not is_literal(n) \
                and to_source(n) not in streams:
            raise CannotJudge(to_source(n))
    if ctor_raises(case.expr):
        if obs and canon_obs(obs[0]) == "raise TypeError":
            return None
        return {"index": "constructor", "expected": "raise TypeError", "observed": canon_obs(obs[0]) if obs else "nothing"}
    if not obs or canon_obs(obs[0]) != "value null":
        return {"index": "constructor", "expected": "an object", "observed": canon_obs(obs[0]) if obs else "nothing"}
    ended = None
    # the sign of a zero is judged (bit-for-bit floats) unless the expression contains a unary minus: the property
    # text says "the Python operator" (-0.0 for 0.0) and names the mechanism 0 - self (0.0 for 0.0): undecided.
    # The sign of a zero operand can only show in the sign of a zero result, so nothing else is affected.
    signed = not has_neg(case.expr)
    # an operand that itself gives a value again after its own StopIteration (PSeries with a pattern-valued length
    # does) has no defined end: "ends as soon as either operand ends" is then judged up to the first StopIteration
    # only (found by seed 6: -PSeries(False, -1, PSequence([0, 9.0], 1)) gives StopIteration, 0, StopIteration ...)
    resumes = any(resumes_after_stop(streams[to_source(n)]) for _, n in nodes(case.expr)
                  if isinstance(n, E) and to_source(n) in streams)
    for i, o in enumerate(obs[1:]):
        if ended == "stop":
            if resumes:
                break
            if canon_obs(o).startswith("value"):
                return {"index": i, "expected": "StopIteration (an operand has ended)", "observed": canon_obs(o)}
            continue
        want = elem(case.expr, i, streams)
        if canon(want, signed) != canon_obs(o, signed):
            return {"index": i, "expected": describe(canon(want, signed), want), "observed": describe(canon_obs(o, signed), o)}
        if want == "stop":
            ended = "stop"
        elif want[0] == "r":
            break
    return None


# ---- generators ------------------------------------------------------------------------------------------
KINDS = ("int", "float", "mixed", "rests", "bool")


def gen_value(rng, kind, small=False, nonneg=False):
    lo, hi = (0, 4) if small else (-6, 12)
    if nonneg:
        lo = max(lo, 0)
    if kind == "float" or (kind == "mixed" and rng.random() < 0.5):
        return rng.randint(lo * 4, hi * 4) / 4.0
    if kind == "rests" and rng.random() < 0.35:
        return None
    if kind == "bool" and rng.random() < 0.5:
        return rng.random() < 0.5
    return rng.randint(lo, hi)


def gen_leaf(rng, kind, n, small=False, endless=False):
    xs = [gen_value(rng, kind, small) for _ in range(n)]
    if endless:
        return E("PSequence", xs, SYS_MAXSIZE)
    return E("PSequence", xs, 1 if (rng.random() < 0.8 or not xs) else 2)


def leaf_len(x):
    return len(x.args[0]) * x.args[1] if isinstance(x, E) else None


def single_cases(rng, per_cell):
    """every operator x {pattern o pattern, pattern o scalar, scalar o pattern} x value kinds x length relations"""
    out = []
    for sym in SYMS:
        small = sym in SMALL_RHS
        for form in ("pp", "ps", "sp"):
            for kind in KINDS:
                for rel in ("equal", "left-shorter", "right-shorter", "empty"):
                    if form != "pp" and rel in ("left-shorter", "right-shorter"):
                        continue
                    for _ in range(per_cell):
                        n = rng.randint(1, 6)
                        m = n if rel == "equal" else rng.randint(1, 5)
                        if rel == "left-shorter":
                            n, m = min(n, m + 1) - 1 or 1, max(n, m) + 1
                        elif rel == "right-shorter":
                            n, m = max(n, m) + 1, min(n, m + 1) - 1 or 1
                        elif rel == "empty":
                            n, m = (0, m) if rng.random() < 0.5 else (n, 0)
                        if form == "pp":
                            l, r = gen_leaf(rng, kind, n), gen_leaf(rng, kind, m, small)
                        elif form == "ps":
                            l, r = gen_leaf(rng, kind, n), gen_value(rng, kind, small)
                        else:
                            l, r = gen_value(rng, kind), gen_leaf(rng, kind, m, small)
                        out.append(Case(Infix(sym, l, r), [("next", 0)] * (max(n, m) + 3),
                                        "single", {"op": sym, "form": form, "kind": kind, "len": rel}))
    return out


def raising_cases(rng, n_cases):
    """operands on which the Python operator itself raises: compared by exception class"""
    out = []
    for _ in range(n_cases):
        sym = rng.choice(["/", "//", "%", "**", "<<", ">>", "<<", ">>", "+", "<", "-"])
        n = rng.randint(2, 5)
        xs = [gen_value(rng, "mixed" if sym in ("/", "//", "%", "**") else "int") for _ in range(n)]
        ys = [gen_value(rng, "int", small=True) for _ in range(n)]
        k = rng.randrange(n)
        if sym in ("/", "//", "%"):
            ys[k] = rng.choice([0, 0.0, False])
        elif sym == "**":
            xs[k], ys[k] = rng.choice([0, 0.0]), rng.choice([-1, -2, -1.0])
        elif sym in ("<<", ">>"):
            if rng.random() < 0.5:
                ys[k] = -rng.randint(1, 3)
            else:
                (xs if rng.random() < 0.5 else ys)[k] = rng.choice([1.5, 2.0])
        else:
            (xs if rng.random() < 0.5 else ys)[k] = rng.choice(["a", (1, 2)]) if rng.random() < 0.5 else None
            if sym == "<" and rng.random() < 0.5:
                xs[k], ys[k] = "a", 1
        form = rng.choice(["pp", "pp", "ps", "sp"])
        l, r = E("PSequence", xs, 1), E("PSequence", ys, 1)
        if form == "ps":
            r = ys[k]
        elif form == "sp":
            l = xs[k]
        if isinstance(l, (str, tuple)) or isinstance(r, (str, tuple)):
            continue                                     # str % pattern etc.: Python dispatches to str first
        out.append(Case(Infix(sym, l, r), [("next", 0)] * (n + 2), "raising", {"op": sym, "form": form}))
    return out


class TreeGen:
    def __init__(self, rng, gen):
        self.rng, self.gen = rng, gen
        self.opaque = []

    def operand(self, depth, small=False, allow_scalar=True, opaque_p=0.0):
        r = self.rng
        if small:                                        # exponents / shift counts: literal small numbers only
            if allow_scalar and r.random() < 0.4:
                return gen_value(r, r.choice(["int", "int", "bool"]), small=True)
            return gen_leaf(r, r.choice(["int", "int", "rests"]), r.randint(1, 6), small=True, endless=r.random() < 0.2)
        if depth <= 0 or r.random() < 0.25:
            k = r.random()
            if allow_scalar and k < 0.3:
                return gen_value(r, r.choice(KINDS))
            if k < 0.3 + opaque_p:
                x = self.gen.gen(r.choice([0, 0, 1]), fin=r.random() < 0.7)
                self.opaque.append(x)
                return x
            return gen_leaf(r, r.choice(KINDS), r.randint(0 if r.random() < 0.05 else 1, 6), endless=r.random() < 0.15)
        return self.tree(depth, opaque_p)

    def tree(self, depth, opaque_p=0.0):
        """an operator expression of the given depth (a pattern)"""
        r = self.rng
        k = r.random()
        if k < 0.12:
            return Unary(r.choice(["neg", "abs"]), self.pattern_operand(depth - 1, opaque_p))
        sym = r.choice(SYMS)
        small = sym in SMALL_RHS
        l = self.operand(depth - 1, opaque_p=opaque_p)
        rr = self.operand(depth - 1, small=small, opaque_p=opaque_p)
        if not is_pat(l) and not is_pat(rr):
            l = self.pattern_operand(depth - 1, opaque_p)
        if r.random() < 0.06:                            # the constructor called directly
            cls = [c for c, s in CLS2SYM.items() if s == sym][0]
            return E(cls, l, rr)
        return Infix(sym, l, rr)

    def pattern_operand(self, depth, opaque_p):
        return self.operand(depth, allow_scalar=False, opaque_p=opaque_p)


def depth_of(x):
    if isinstance(x, Infix):
        return 1 + max(depth_of(x.lhs), depth_of(x.rhs))
    if isinstance(x, Unary):
        return 1 + depth_of(x.x)
    if isinstance(x, E) and x.cls in CLS2SYM or isinstance(x, E) and x.cls == "PAbs":
        return 1 + max([depth_of(a) for a in x.args] or [0])
    return 0


def root_sig(x):
    if isinstance(x, Infix):
        return x.op, ("p" if is_pat(x.lhs) else "s") + ("p" if is_pat(x.rhs) else "s")
    if isinstance(x, Unary):
        return x.op, "p"
    if isinstance(x, E) and x.cls in CLS2SYM:
        return CLS2SYM[x.cls], "ctor"
    return getattr(x, "cls", "?"), "?"


def model_case_ok(c):
    """scalar & pattern raises when the EXPRESSION is evaluated by Python, before any isobar code runs:
    it has no image in the model and is judged by the oracle only"""
    return not ctor_raises(c.expr)


# ---- rounding-sensitive strata ----------------------------------------------------------------------------
# On ints (and on the quarter-multiples of the strata above) the Python operators obey the laws of the rationals:
# (x + c1) + c2 = x + (c1 + c2), (x + y) * c = x*c + y*c, x / c = x * (1/c), (x * c1) * c2 = x * (c1 * c2) ...
# so an implementation that re-associates, distributes, folds constants, or evaluates in higher precision and
# rounds once is indistinguishable there.  On floats every operator rounds, and none of these laws holds.  Each
# theme is a small pool from which BOTH the stream values and the scalars at every level of one expression are
# drawn, so that the interesting coincidences (cancellation, ties, half-ulp sums) actually occur.
FP_THEMES = {
    "decimal": [0.1, 0.2, 0.3, 0.7, 1.1, 2.5, 0.01, 1 / 3, -0.1, -0.3, 1, 3, 10, 100, 0.6, 1e-3],
    "cancel": [1e16, -1e16, 1.0, -1.0, 0.5, 3, 1e-16, 2.5, 1e15, -1, 7, 1e16 + 2, 0.1],
    "near2p53": [float(2 ** 53), float(2 ** 53 + 2), float(2 ** 53 - 1), -float(2 ** 53), 4.0, 1, 2, 3, -1,
                 2 ** 53 + 1, 1.0, 0.5, float(2 ** 52) + 0.5],
    "scale": [3.0, 7.0, 10.0, 0.1, 1e-3, 1e3, 49, 1 / 7, 6, 1.5, 1e30, 1e-30, 0.3, 1e22, 1e23],
    "zeros": [0.0, -0.0, 0, 1, -1, 1.0, -1.0, 0.5, -2, 2.0, False, True, -0.0, 1e-320],
    "tiny": [5e-324, 2.2250738585072014e-308, 1e-300, 0.5, 3, 1e300, 2.0, 0.1, 1e-310, 7, 1.5, 1e308, 1e-308],
    "ints": [0, 1, -1, 2, 3, 7, -5, 12, True, 2 ** 53 + 1, 10 ** 18, 6, 4],
}
CMPS = ["==", "!=", "<", ">", "<=", ">="]
FP_FAMILIES = {                                          # operators used at the levels of one expression
    "additive": ["+", "+", "+", "-", "-"],
    "multiplicative": ["*", "*", "*", "/", "/"],
    "distributive": ["+", "-", "*", "*", "/"],
    "intdiv": ["//", "%", "//", "%", "*", "+", "-"],
    "power": ["**", "**", "*", "/"],
    "shift": ["<<", ">>", "<<", ">>", "*", "+"],
    "compare": ["+", "-", "*", "/"],                     # a comparison (or &) at the root, arithmetic below
    "free": list(PYOP) + ["&"],
}
FAMILY_WEIGHTS = [("additive", 4), ("multiplicative", 4), ("distributive", 4), ("intdiv", 2), ("power", 1),
                  ("shift", 1), ("compare", 3), ("free", 3)]


class FpGen:
    def __init__(self, rng):
        self.rng = rng

    def value(self, theme):
        r = self.rng
        v = r.choice(FP_THEMES[theme])
        if type(v) is not bool and r.random() < 0.25:   # a relative of a pool member
            k = r.choice([-1, 2, 0.5, 10, 3, 0.1])
            if theme == "ints":
                k = r.choice([-1, 2, 3, 10])
            try:
                w = v * k
                if not (type(w) is float and not math.isfinite(w)) and not (type(w) is int and w.bit_length() > 80):
                    v = w
            except OverflowError:
                pass
        return v

    def leaf(self, theme, n=None):
        r = self.rng
        n = n or r.randint(3, 6)
        xs = [None if r.random() < 0.1 else self.value(theme) for _ in range(n)]
        return E("PSequence", xs, 1 if r.random() < 0.9 else SYS_MAXSIZE)

    def small_rhs(self, sym):
        """exponents / shift counts: literal and small (Python would compute astronomically large ints)"""
        r = self.rng
        if sym == "**":
            pool = [0, 1, 2, 3, 2, 3, 0.5, -1, 2.0, -2, True]
        else:
            pool = [0, 1, 2, 3, 4, 1, 2, -1, True, 1.0]  # -1: ValueError, 1.0: TypeError
        if r.random() < 0.25:
            return E("PSequence", [r.choice(pool) for _ in range(r.randint(3, 5))], 1)
        return r.choice(pool)

    def join(self, sym, sub, theme, depth):
        """one more level above `sub`: sub o x or x o sub, x a scalar (mostly) or a pattern"""
        r = self.rng
        if sym in SMALL_RHS:
            return Infix(sym, sub, self.small_rhs(sym))
        k = r.random()
        other = self.value(theme) if k < 0.65 else self.leaf(theme) if k < 0.9 or depth <= 1 \
            else self.node(depth - 1, theme, "free")
        if sym == "&" and not is_pat(other):
            return Infix(sym, sub, other)                 # scalar & p does not build
        e = Infix(sym, sub, other) if r.random() < 0.55 else Infix(sym, other, sub)
        if r.random() < 0.04 and sym != "&":             # the constructor called directly
            return E([c for c, s in CLS2SYM.items() if s == sym][0], e.lhs, e.rhs)
        return e

    def node(self, depth, theme, family):
        r = self.rng
        if depth <= 0:
            return self.leaf(theme)
        sub = self.node(depth - 1, theme, family)
        e = self.join(r.choice(FP_FAMILIES[family]), sub, theme, depth)
        if r.random() < 0.06:
            e = Unary(r.choice(["neg", "abs"]), e)
        return e

    def tree(self, depth, theme, family):
        e = self.node(depth - 1 if family == "compare" else depth, theme, family)
        if family == "compare":
            sym = self.rng.choice(CMPS + CMPS + CMPS + ["&"])
            if sym in CMPS and self.rng.random() < 0.6:
                c = threshold(self.rng, e, self.value(theme))
                e = Infix(sym, e, c) if self.rng.random() < 0.55 else Infix(sym, c, e)
            else:
                e = self.join(sym, e, theme, depth)
        return e


CHAIN_PAIRS = [(a, b) for a in "+-" for b in "+-"] + [(a, b) for a in "*/" for b in "*/"] + \
              [(a, b) for a in "+-" for b in "*/"] + [(a, b) for a in "*/" for b in "+-"] + \
              [(a, b) for a in ("//", "%") for b in ("//", "%")] + [("*", "//"), ("//", "*"), ("+", "%"), ("*", "%")] + \
              [("**", "**"), ("*", "**"), ("**", "*")] + [(a, b) for a in ("<<", ">>") for b in ("<<", ">>")] + \
              [("+", "<"), ("-", ">="), ("*", "=="), ("/", "<="), ("+", "!="), ("*", ">"), ("-", "=="), ("/", "<")] + \
              [("<", "+"), ("==", "*"), ("+", "&")]


def threshold(rng, inner, default):
    """a comparison is only sensitive to rounding at its boundary: compare with a value the operand actually takes
    (the inner expression evaluated level by level at one of its elements) or with a float next to it"""
    if rng.random() < 0.25:
        return default
    try:
        o = elem(inner, rng.randrange(3), {})
    except CannotJudge:
        return default
    if o == "stop" or o[0] != "y" or type(o[1]) not in (int, float) or (type(o[1]) is float and not math.isfinite(o[1])):
        return default
    v = o[1]
    k = rng.random()
    if type(v) is float and k < 0.4:
        return math.nextafter(v, math.inf if k < 0.2 else -math.inf)
    return v


def chain_cases(rng, fg, reps):
    """two operators applied one after the other to one stream, a scalar at each level, in the four written
    forms ((p o1 c1) o2 c2, c2 o2 (p o1 c1), (c1 o1 p) o2 c2, c2 o2 (c1 o1 p)), over every theme"""
    out = []
    for rep in range(2 * reps):
        for o1, o2 in (CHAIN_PAIRS if rep % 2 == 0 else CHAIN_PAIRS[:16]):     # the 16 pairs over + - * / twice
            for form in ("ll", "lr", "rl", "rr"):
                for theme in FP_THEMES:
                    if (o1 in ("<<", ">>") or o2 in ("<<", ">>")) and theme not in ("ints", "zeros", "near2p53"):
                        continue
                    if theme == "tiny" and rng.random() < 0.6:  # subnormals / overflow: 1000-bit rationals in the model
                        continue
                    p = fg.leaf(theme)
                    c1 = fg.small_rhs(o1) if o1 in SMALL_RHS else fg.value(theme)
                    c2 = fg.small_rhs(o2) if o2 in SMALL_RHS else fg.value(theme)
                    if o1 in SMALL_RHS and form[0] == "r" or o2 in SMALL_RHS and form[1] == "r" or o2 == "&" and form[1] == "r":
                        continue
                    inner = Infix(o1, p, c1) if form[0] == "l" else Infix(o1, c1, p)
                    if o2 in CMPS:
                        c2 = threshold(rng, inner, c2)
                    e = Infix(o2, inner, c2) if form[1] == "l" else Infix(o2, c2, inner)
                    out.append(Case(e, [("next", 0)] * (leaf_len(p) + 2 if leaf_len(p) < 20 else 8), "fp-chain",
                                    {"theme": theme, "family": "%s then %s" % (o1, o2), "form": form}))
    return out


def fp_tree_cases(rng, fg, n):
    out = []
    fams = [f for f, w in FAMILY_WEIGHTS for _ in range(w)]
    themes = [t for t in FP_THEMES for _ in range(1 if t == "tiny" else 2)]
    for i in range(n):
        family = fams[i % len(fams)]
        theme = rng.choice(["ints", "zeros", "near2p53"]) if family == "shift" else themes[(i // len(fams)) % len(themes)] \
            if rng.random() < 0.8 else rng.choice(themes)
        depth = rng.choice([2, 2, 2, 3, 3, 3, 3, 4]) if rng.random() >= 0.03 else 5
        e = fg.tree(depth, theme, family)
        out.append(Case(e, [("next", 0)] * 8, "fp-nested", {"theme": theme, "family": family}))
    return out


def run_impl8(run, cases, shards=12):
    """as pat_common.run_impl, on impl/c08_impl.py: the expression travels as its Python source text as well (the
    JSON form, floats as integer ratios, would lose the sign of a literal -0.0), observations mark negative zeros"""
    if not cases:
        return
    parts = [cases[i::shards] for i in range(shards) if cases[i::shards]]
    payloads = [{"cases": [{"expr": to_json(c.expr), "source": to_source(c.expr), "ops": [list(o) for o in c.ops]}
                           for c in part]} for part in parts]
    outs = run.impl_parallel("c08_impl", payloads)
    for part, out in zip(parts, outs):
        for c, r in zip(part, out["cases"]):
            c.obs = r["obs"]
            c.status = r.get("status")


IEEE_HEADER = HEADER.replace("Pat.Script ", "Pat.Script Pat.Ieee ").replace(
    "check_trace Val.binop", "check_trace Ieee.binop_ieee").replace("trace Val.binop", "trace Ieee.binop_ieee")
assert "Pat.Ieee" in IEEE_HEADER and IEEE_HEADER.count("Ieee.binop_ieee") == 2


_val_coq = _pc.val_coq


def val_coq_ieee(v):
    """every finite float has an image: the literal is (mkf m e) = m * 2^e, m odd (short whatever the magnitude:
    Coq reads a 300-digit numeral in about half a second)"""
    if type(v) is float and math.isfinite(v):
        n, d = v.as_integer_ratio()
        if n == 0:
            return "(mkf 0 0)"
        if d == 1:
            e = (n & -n).bit_length() - 1
            return "(mkf %s %d)" % (zlit(n >> e), e)
        return "(mkf %s (-%d))" % (zlit(n), d.bit_length() - 1)
    return _val_coq(v)


@contextlib.contextmanager
def ieee_model():
    """inside: the shared runner (run_model, model_trace, shrink) compares with the operator semantics
    Pat/Ieee.v binop_ieee, and every finite binary64 literal has an image (no small-dyadic restriction)"""
    saved = (_pc.HEADER, _pc.val_coq)
    _pc.HEADER, _pc.val_coq = IEEE_HEADER, val_coq_ieee
    try:
        yield
    finally:
        _pc.HEADER, _pc.val_coq = saved


# ---- the check -------------------------------------------------------------------------------------------
def check(run):
    rng = run.rng
    thorough = run.tier == "thorough"
    import time
    t0 = [time.time()]
    phase = {}

    def lap(name):
        phase[name] = round(time.time() - t0[0], 1); t0[0] = time.time()
        run.cov["phase_seconds"] = phase
    sigs = run.impl("pat_impl", {"signatures": list(REGISTRY)})["signatures"]
    stale = {cls for cls, _ in check_registry(run, sigs)}
    for cls in sorted(stale):
        run.discard("registry:" + cls)
    run.cov["registry_mismatches"] = sorted(stale)

    gen = Gen(rng, None)
    tg = TreeGen(rng, gen)
    cases = single_cases(rng, 6 if thorough else 1)
    cases += raising_cases(rng, 3000 if thorough else 260)
    n_nested = 40000 if thorough else 2000
    for i in range(n_nested):
        d = 2 + (i % 2) if rng.random() >= 0.05 else rng.choice([4, 5])
        e = tg.tree(d, opaque_p=0.25 if i % 4 == 0 else 0.0)
        cases.append(Case(e, [("next", 0)] * NEXTS, "nested", {"depth": depth_of(e)}))
    for _ in range(300 if thorough else 60):
        x = gen_leaf(rng, rng.choice(KINDS), rng.randint(0, 6))
        cases.append(Case(Unary(rng.choice(["neg", "abs"]), x), [("next", 0)] * (leaf_len(x) + 3), "unary"))
    # a few scripts with helpers / reset / copies on operator expressions (model comparison only)
    script_cases = []
    for _ in range(2000 if thorough else 150):
        e = tg.tree(rng.choice([1, 2]))
        script_cases.append(Case(e, gen_ops(rng, False), "script"))

    # rounding-sensitive strata (generated last: the cases above are the same as before for a given seed)
    fg = FpGen(rng)
    fp_cases = chain_cases(rng, fg, 6 if thorough else 1) + fp_tree_cases(rng, fg, 20000 if thorough else 800)

    # operand streams of the non-literal leaves: a fresh instance of the leaf, run on its own
    leaves = {}
    for x in tg.opaque:
        leaves.setdefault(to_source(x), x)
    leaf_cases = [Case(x, [("next", 0)] * NEXTS, "leaf") for x in leaves.values()]
    run_impl8(run, cases + script_cases + leaf_cases + fp_cases)
    streams = {to_source(c.expr): c.obs[1:] for c in leaf_cases
               if not c.status and c.obs and canon_obs(c.obs[0]) == "value null"}
    lap("generate+implementation")

    # ---- oracle
    explained = set()
    for c in cases + fp_cases:
        run.count()
        sym, form = root_sig(c.expr)
        run.dist("op.%s" % sym); run.dist("form.%s" % form); run.dist("stream.%s" % c.tag)
        run.dist("depth.%d" % depth_of(c.expr))
        if c.tag == "single":
            run.dist("kind.%s" % c.meta["kind"]); run.dist("len.%s" % c.meta["len"])
        if c.tag.startswith("fp-"):
            run.dist("fp.theme.%s" % c.meta["theme"]); run.dist("fp.family.%s" % c.meta["family"])
            if not c.status and rounding_visible(c):
                run.dist("fp.rounding-visible")
        if c.status:
            run.discard("impl-" + c.status)
            continue
        try:
            dev = judge(c, streams)
        except CannotJudge:
            run.discard("oracle-no-operand-stream")
            continue
        run.cov["oracle_evaluations"] += len(c.obs)
        if len(c.obs) > 1 and canon_obs(c.obs[1]).startswith("value"):
            run.nontrivial(to_source(c.expr))
        if dev is not None:
            explained.add(id(c))
            report(run, c, dev, streams)
    run.sample({"expr": to_source(cases[len(cases) // 2].expr), "observed": cases[len(cases) // 2].obs_pretty()})

    lap("oracle")
    # ---- model
    allc = [c for c in cases + script_cases if model_case_ok(c) and not (stale and uses(c.expr, stale))]
    run_model(run, allc)
    lap("model")
    for c in script_cases:
        run.count(); run.dist("stream.script")
    for c in allc:
        if c.verdict == "discard":
            run.discard((c.status or "?").split(":")[0])
        elif c.verdict == "agree":
            run.cov["traces_validated_against_impl"] += 1
    disagreements(run, allc, explained, streams)

    # ---- model, rounding-sensitive strata: operator semantics Pat/Ieee.v (round to nearest even)
    fpc = [c for c in fp_cases if model_case_ok(c)]
    with ieee_model():
        run_model(run, fpc, chunk=100)
        for c in fpc:
            if c.verdict == "discard":
                run.discard("ieee-" + (c.status or "?").split(":")[0])
            elif c.verdict == "agree":
                run.cov["traces_validated_against_impl"] += 1
                run.cov["traces_validated_with_rounding_model"] = run.cov.get("traces_validated_with_rounding_model", 0) + 1
        disagreements(run, fpc, explained, streams)
    lap("model-ieee")
    run.cov["rule"] = ("one case = one operator expression (Python source text) and its next() outputs up to the end; "
                       "non-trivial = the expression produced at least one value; distinct by expression text")
    run.cov["strata"] = ("16 operator symbols x {pp, ps, sp} x {int, float, mixed, rests, bool} x {equal, left-shorter, right-shorter, empty}; "
                         "raising operands; unary; nested depth 2-5; non-literal operand patterns; helper scripts; "
                         "rounding-sensitive: two-operator chains (%d operator pairs x 4 written forms x %d value themes) and nested "
                         "trees depth 2-5 per operator family, scalars at every level, floats compared bit-for-bit"
                         % (len(CHAIN_PAIRS), len(FP_THEMES)))


def disagreements(run, allc, explained, streams):
    """model and implementation disagree on a case the oracle accepted: shrink, judge the shrunk case, else report"""
    bad = [c for c in allc if c.verdict == "disagree" and id(c) not in explained]
    seen = set()
    for c in bad[:3]:
        small = shrink(run, c, rounds=4)
        sig = {"kind": "correspondence", "site": "operator %s (%s)" % root_sig(small.expr)}
        if json.dumps(sig) in seen:
            continue
        seen.add(json.dumps(sig))
        dev = None
        try:
            run_impl8(run, [small], shards=1)
            if not small.status:
                dev = judge(small, streams)
        except CannotJudge:
            pass
        if dev is not None:
            report(run, small, dev, streams)
            continue
        run.violation(sig, {
            "broken": "correspondence Pat/Step.v (step of PBinOp/PAnd/PAbs, Pat/Dunder.v; operator semantics %s) vs "
                      "isobar/pattern/core.py: the theorems of Props/C08.v no longer speak about this code"
                      % ("Pat/Ieee.v binop_ieee" if _pc.HEADER is IEEE_HEADER else "Pat/Val.v binop"),
            "case": {"expr": to_source(small.expr), "expr_json": to_json(small.expr), "ops": [list(o) for o in small.ops]},
            "observed": small.obs_pretty(), "model": model_trace(run, small),
            "python": replay_snippet(small.expr, small.ops)}, found_input=False)


def exact_elem(x, i):
    """the i-th value of an expression over literal leaves in exact rational arithmetic (+ - * / only), or None"""
    if isinstance(x, Infix) and x.op in ("+", "-", "*", "/"):
        a, b = exact_elem(x.lhs, i), exact_elem(x.rhs, i)
        if a is None or b is None or (x.op == "/" and b == 0):
            return None
        return PYOP[x.op](a, b)
    if isinstance(x, E) and is_literal(x) and x.cls == "PSequence":
        xs, rep = x.args
        v = xs[i % len(xs)] if xs and i < len(xs) * rep else None
    elif is_pat(x):
        return None
    else:
        v = x
    if isinstance(v, (int, float)) and (type(v) is not float or math.isfinite(v)):
        return Fraction(v)
    return None


def rounding_visible(c):
    """measured, for the evidence: some output of the case is a float that differs from the exact rational value
    of the expression, i.e. the case can tell level-by-level rounding from any other evaluation order"""
    for i, o in enumerate(c.obs[1:]):
        if isinstance(o, dict) and isinstance(o.get("y"), dict) and "f" in o["y"]:
            try:
                q = exact_elem(c.expr, i)
            except (OverflowError, ZeroDivisionError):
                q = None
            if q is not None and isinstance(o["y"]["f"], list) and q != Fraction(*o["y"]["f"]):
                return True
    return False


def uses(x, classes):
    return any(isinstance(n, E) and n.cls in classes for _, n in nodes(x))


def report(run, c, dev, streams):
    sym, form = root_sig(c.expr)
    what = "constructor" if dev["index"] == "constructor" else \
        "length" if "stop" in (dev["expected"], dev["observed"]) or dev["expected"].startswith("StopIteration") else \
        "rest" if dev["expected"] == "value null" or dev["observed"] == "value null" else \
        "exception" if dev["expected"].startswith("raise") or dev["observed"].startswith("raise") else "value"
    # the smallest failing sub-expression names the operator
    culprit = c
    run._c08_reports = getattr(run, "_c08_reports", 0) + 1
    if run._c08_reports > 60:
        return
    for path, n in (() if run._c08_reports > 4 else sorted(nodes(c.expr), key=lambda pn: -len(pn[0]))):
        if path and is_pat(n) and depth_of(n) >= 1:
            sub = Case(n, c.ops, c.tag)
            try:
                run_impl8(run, [sub], shards=1)
                if not sub.status and judge(sub, streams) is not None:
                    culprit = sub
                    break
            except (CannotJudge, CheckError):
                pass
    if culprit is not c:
        dev = judge(culprit, streams)
        sym, form = root_sig(culprit.expr)
    run.violation({"kind": "elementwise", "op": sym, "form": form, "what": what}, {
        "case": {"expr": to_source(culprit.expr), "expr_json": to_json(culprit.expr), "ops": [list(o) for o in culprit.ops]},
        "element": dev["index"], "expected": dev["expected"], "observed": dev["observed"],
        "observed_outputs": culprit.obs_pretty(),
        "python": replay_snippet(culprit.expr, culprit.ops)})


def replay(run, doc):
    case = doc.get("case", {})
    if "expr_json" not in case:
        print("replay: no concrete case recorded (%s)" % doc.get("broken", "?"))
        return 1
    c = Case(from_json(case["expr_json"]), [tuple(o) for o in case["ops"]])
    leaves = {}
    for _, n in nodes(c.expr):
        if isinstance(n, E) and n.cls not in CLS2SYM and n.cls != "PAbs":
            leaves.setdefault(to_source(n), n)
    leaf_cases = [Case(x, [("next", 0)] * NEXTS, "leaf") for x in leaves.values()]
    run_impl8(run, [c] + leaf_cases, shards=1)
    streams = {to_source(l.expr): l.obs[1:] for l in leaf_cases if l.obs}
    try:
        dev = judge(c, streams)
    except CannotJudge as e:
        print("replay: cannot judge (%s)" % e)
        return 2
    print("expression:", to_source(c.expr))
    print("observed:  ", c.obs_pretty())
    if dev:
        print("REPLAY-FAILS: element %s: expected %s, observed %s" % (dev["index"], dev["expected"], dev["observed"]))
        print("VIOLATION property=C08 replay=(replayed)")
        return 1
    print("replay: the property holds on this case")
    return 0

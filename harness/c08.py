"""C08 — arithmetic and comparison operators apply element-wise.

Theorems: coq/Props/C08.v (element-wise law of every PBinOp class for ANY operator semantics, rests, ending,
reflected forms, &, unary minus, abs, nesting by induction on the expression).
Correspondence: operator expressions written with the Python operators (so the dunder dispatch is what is
exercised) are evaluated on the implementation and on the Coq model (Pat/Step.v through Pat/Dunder.v) and
the observation lists are compared inside Coq with typed equality.
Oracle: plain Python, from the property text: the i-th output is the Python operator applied to the i-th
values of the operand streams (operand streams of non-literal leaves are obtained by running a fresh
instance of the leaf on its own)."""
import operator, math, contextlib, re
from concurrent.futures import ThreadPoolExecutor
import pat_common as _pc
from pat_common import *

PROP = "C08"
META = {
 "engine": "P-pattern-algebra",
 "text": "Coq theorems (Props/C08.v, closed under the global context) prove, for an ARBITRARY operator semantics (a Section variable) and arbitrary operand objects of the pattern model: the i-th output of every PBinOp class is the operator applied to the i-th operand values, a rest on either side gives a rest, the output stops at the first index at which either operand stops (left operand first), & yields the conjunction of the truth values, -p is 0 - p_i and abs(p) is |p_i| with rests kept; what the Python operators build (dunder table incl. reflected forms) denotes the operator with the operands in the written order; and the law lifts to operator expression trees of any depth by induction. The model (Pat/Step.v, a clause-by-clause transcription of core.py) is tied to the repository on every run: operator expressions built through the Python operators for all 15 operators and &, -x, abs(x), pattern/scalar on either side, ints/floats/bools/rests, equal and unequal lengths, raising operands, nestings to depth 3 (5 % deeper) are run on both sides and compared inside Coq; an independent oracle applies Python's own operators to the operand streams in the written nesting order, compares floats bit for bit (incl. the sign of a zero) and supplies the failing input. Rounding-sensitive strata (two-operator chains and nested trees with scalars at every level over float themes: non-dyadic decimals, cancellation with 1e16, values near 2**53, subnormals, signed zeros) make re-association, distribution, constant folding and single rounding visible; these cases are also compared with the model under the operator semantics Pat/Ieee.v (exact result rounded to binary64, ties to even), for which Props/C08.v proves the nesting law instance, non-associativity / non-distributivity witnesses, the reflected-form side condition and conservativity over Pat/Val.v. Special IEEE values (NaN, +-inf, overflow) as operand values - stream elements, scalars on either side, arising inside expressions - are explored by element-wise tables of every operator class / & / abs / unary minus over all ordered pairs of a pool (forms ctor, pp, ps, sp), singles, two-operator chains and nested trees; they are modelled in Pat/IeeeSpecial.v (xf = XNaN | XInf | XFin: NaN unordered, IEEE + - * / with overflow, // % with a non-finite operand, abs, truthiness), for which Props/C08.v proves that x >= y is not (x < y) exactly on ordered operands, trichotomy exactly on non-NaN, that orderings derived from a three-way comparison are right exactly on ordered operands, NaN propagation and the inf arithmetic, the reflected-form side condition for ALL values, conservativity over Pat/Ieee.v, and - through an encoding into val - the pattern-level law instantiated at this semantics; the tables are compared element by element and the expressions through the shared pattern model inside Coq. Operand classes: the dunder theorems hold for an arbitrary operand expression (C08_dunder_any_operand_class: the operands are passed on untouched); the correspondence runs every operator, reflected form, &, unary minus and abs with one instance of EVERY Pattern subclass of the live library (list by introspection; registry classes as typed random instances also compared with the model, the others from recipes, stochastic ones seeded) as the pattern operand itself, judged element-wise against a fresh twin, and records which classes store instance attributes that shadow attributes of class Pattern.",
 "note": "Trusted: Coq kernel + VM; the harness; Val.binop as a description of CPython's arithmetic on the exact (dyadic) value domain - the C08 theorems do not depend on it (operator semantics is a Section variable), only the correspondence does; and Ieee.binop_ieee (round-to-nearest-even + - * / on all finite floats) as a description of CPython's float arithmetic, validated by the correspondence only; IeeeSpecial.xbinop as a description of CPython's float arithmetic on NaN / inf, validated by the correspondence only; results outside these domains (// % ** on non-dyadic floats, ** with a non-finite operand, complex, huge ints) are judged by the oracle only and discarded from the model comparison; the sign of a zero is judged by the oracle only, and not under a unary minus (property text undecided). After the first exception the operand streams are no longer aligned (the left operand has advanced, the right has not): the law is judged up to and including the first StopIteration/exception.",
}

PYOP = {"+": operator.add, "-": operator.sub, "*": operator.mul, "/": operator.truediv, "//": operator.floordiv,
        "%": operator.mod, "**": operator.pow, "<<": operator.lshift, ">>": operator.rshift, "==": operator.eq,
        "!=": operator.ne, "<": operator.lt, ">": operator.gt, "<=": operator.le, ">=": operator.ge}
SYMS = list(PYOP) + ["&"]
CLS2SYM = {name: sym for name, (sym, _) in BINOPS.items()}
CLS2SYM["PAnd"] = "&"
SMALL_RHS = ("**", "<<", ">>")          # right operand kept small: Python would compute astronomically large ints
NEXTS = 14


# ---- oracle ----------------------------------------------------------------------------------------------
def apply_op(sym, a, b):
    """what the property demands of one element"""
    if sym == "&":
        return ("y", bool(a) and bool(b))
    if a is None or b is None:
        return ("y", None)
    try:
        return ("y", PYOP[sym](a, b))
    except Exception as e:
        return ("r", type(e).__name__)


class CannotJudge(Exception):
    pass


def elem(x, i, streams):
    """outcome of the i-th element of expression x: ("y", v) | "stop" | ("r", class name)"""
    if isinstance(x, Infix) or (isinstance(x, E) and x.cls in CLS2SYM and len(x.args) == 2):
        sym, l, r = (x.op, x.lhs, x.rhs) if isinstance(x, Infix) else (CLS2SYM[x.cls], x.args[0], x.args[1])
        a = elem(l, i, streams)
        if a == "stop" or a[0] == "r":
            return a
        b = elem(r, i, streams)
        if b == "stop" or b[0] == "r":
            return b
        return apply_op(sym, a[1], b[1])
    if isinstance(x, Unary) or (isinstance(x, E) and x.cls == "PAbs" and len(x.args) == 1):
        op, arg = (x.op, x.x) if isinstance(x, Unary) else ("abs", x.args[0])
        a = elem(arg, i, streams)
        if a == "stop" or a[0] == "r":
            return a
        if op == "neg":
            return apply_op("-", 0, a[1])
        if a[1] is None:
            return ("y", None)
        try:
            return ("y", abs(a[1]))
        except Exception as e:
            return ("r", type(e).__name__)
    if isinstance(x, E):
        if x.cls == "PSequence" and len(x.args) == 2 and isinstance(x.args[0], list) and type(x.args[1]) is int \
                and not any(is_pat(v) or isinstance(v, (tuple, list, dict)) for v in x.args[0]):
            xs, rep = x.args
            return ("y", xs[i % len(xs)]) if xs and i < len(xs) * rep else "stop"
        if x.cls == "PConstant" and len(x.args) == 1 and not is_pat(x.args[0]) and not isinstance(x.args[0], (tuple, list, dict)):
            return ("y", x.args[0])
        s = streams.get(to_source(x))
        if s is None or i >= len(s):
            raise CannotJudge(to_source(x))
        o = s[i]
        if o == "stop":
            return "stop"
        if "r" in o:
            return ("r", o["r"])
        v = obs_value(o["y"])
        if isinstance(v, Opaque):                       # an object that did not travel (a Scale, a complex ...): the Python
            raise CannotJudge("opaque value %r" % v)    # operator cannot be applied to a stand-in
        return ("y", v)
    if is_pat(x) or isinstance(x, (tuple, list, dict)):
        raise CannotJudge(repr(x))
    return ("y", x)


def is_literal(x):
    if x.cls == "PSequence":
        return len(x.args) == 2 and isinstance(x.args[0], list) and type(x.args[1]) is int \
            and not any(is_pat(v) or isinstance(v, (tuple, list, dict)) for v in x.args[0])
    return x.cls == "PConstant" and len(x.args) == 1 and not is_pat(x.args[0]) and not isinstance(x.args[0], (tuple, list, dict))


def ctor_raises(x):
    """scalar & pattern: Pattern has no __rand__, so building the expression is a TypeError"""
    if isinstance(x, Infix):
        if x.op == "&" and not is_pat(x.lhs):
            return True
        return ctor_raises(x.lhs) or ctor_raises(x.rhs)
    if isinstance(x, Unary):
        return ctor_raises(x.x)
    if isinstance(x, E):
        return any(ctor_raises(a) for a in x.args)
    return False


def neg_zero(v):
    return type(v) is float and v == 0.0 and math.copysign(1.0, v) < 0


def canon(o, signed=True):
    """typed canonical text of an outcome (True, 1 and 1.0 are three different observations).  A float is its
    integer ratio, which is exact for every finite binary64 except that it cannot tell -0.0 from 0.0: a negative
    zero carries the mark "z" (as in the observations of impl/c08_impl.py) when `signed`."""
    if o == "stop":
        return "stop"
    if o[0] == "r":
        return "raise " + o[1]
    j = value_to_json(o[1])
    if signed and neg_zero(o[1]):
        j = {"f": [0, 1], "z": 1}
    return "value " + json.dumps(j, sort_keys=True)


def canon_obs(o, signed=True):
    if o == "stop":
        return "stop"
    if "r" in o:
        return "raise " + o["r"]
    y = o["y"]
    if not signed and isinstance(y, dict) and "z" in y:
        y = {"f": y["f"]}
    return "value " + json.dumps(y, sort_keys=True)


def obs_value(y):
    """the Python value of an observation of impl/c08_impl.py (the sign of a zero kept)"""
    if isinstance(y, dict) and y.get("z"):
        return -0.0
    if isinstance(y, dict) and isinstance(y.get("o"), str) and y["o"] in ("float:nan", "float:inf", "float:-inf"):
        return float(y["o"][6:])                       # value_to_json writes a non-finite float as {"o": "float:nan"}
    return from_json(y)


def describe(text, o):
    """canonical text, plus repr and float.hex for a float value (the comparison itself is on the canonical text)"""
    v = None
    if isinstance(o, tuple) and o[0] == "y":
        v = o[1]
    elif isinstance(o, dict) and "y" in o and isinstance(o["y"], dict) and "f" in o["y"]:
        v = obs_value(o["y"])
    if type(v) is float and math.isfinite(v):
        return "%s (= %r = %s)" % (text, v, v.hex())
    return text


def has_neg(x):
    return any(isinstance(n, Unary) and n.op == "neg" for _, n in nodes(x))


def resumes_after_stop(stream):
    seen_stop = False
    for o in stream:
        if o == "stop":
            seen_stop = True
        elif seen_stop and isinstance(o, dict) and "y" in o:
            return True
    return False


def operand_leaves(x):
    """the operands of an operator expression: descend through operator nodes (infix, unary, operator classes called
    directly), stop at any other pattern (whatever it holds inside is its own business)"""
    if isinstance(x, Infix):
        yield from operand_leaves(x.lhs); yield from operand_leaves(x.rhs)
    elif isinstance(x, Unary):
        yield from operand_leaves(x.x)
    elif isinstance(x, E) and ((x.cls in CLS2SYM and len(x.args) == 2) or (x.cls == "PAbs" and len(x.args) == 1)):
        for a in x.args:
            yield from operand_leaves(a)
    elif isinstance(x, E):
        yield x


def judge(case, streams, operand_only=False):
    """None if the implementation's observations are what the property demands, else a dict describing
    the first deviation.  Judged: the constructor, then every next() up to and including the first
    StopIteration / exception; after a StopIteration no value may appear again.
    operand_only: only the operands themselves need a recorded stream, not the patterns nested inside them."""
    obs = case.obs
    for _, n in ([((), l) for l in operand_leaves(case.expr)] if operand_only else nodes(case.expr)):   # a non-literal operand whose own constructor raised
        if isinstance(n, E) and n.cls not in CLS2SYM and n.cls != "PAbs" and not is_literal(n) \
                and to_source(n) not in streams:
            raise CannotJudge(to_source(n))
    if ctor_raises(case.expr):
        if obs and canon_obs(obs[0]) == "raise TypeError":
            return None
        return {"index": "constructor", "expected": "raise TypeError", "observed": canon_obs(obs[0]) if obs else "nothing"}
    if not obs or canon_obs(obs[0]) != "value null":
        return {"index": "constructor", "expected": "an object", "observed": canon_obs(obs[0]) if obs else "nothing"}
    ended = None
    # the sign of a zero is judged (bit-for-bit floats) unless the expression contains a unary minus: the property
    # text says "the Python operator" (-0.0 for 0.0) and names the mechanism 0 - self (0.0 for 0.0): undecided.
    # The sign of a zero operand can only show in the sign of a zero result, so nothing else is affected.
    signed = not has_neg(case.expr)
    # an operand that itself gives a value again after its own StopIteration (PSeries with a pattern-valued length
    # does) has no defined end: "ends as soon as either operand ends" is then judged up to the first StopIteration
    # only (found by seed 6: -PSeries(False, -1, PSequence([0, 9.0], 1)) gives StopIteration, 0, StopIteration ...)
    resumes = any(resumes_after_stop(streams[to_source(n)]) for _, n in nodes(case.expr)
                  if isinstance(n, E) and to_source(n) in streams)
    for i, o in enumerate(obs[1:]):
        if ended == "stop":
            if resumes:
                break
            if canon_obs(o).startswith("value"):
                return {"index": i, "expected": "StopIteration (an operand has ended)", "observed": canon_obs(o)}
            continue
        want = elem(case.expr, i, streams)
        if canon(want, signed) != canon_obs(o, signed):
            return {"index": i, "expected": describe(canon(want, signed), want), "observed": describe(canon_obs(o, signed), o)}
        if want == "stop":
            ended = "stop"
        elif want[0] == "r":
            break
    return None


# ---- generators ------------------------------------------------------------------------------------------
KINDS = ("int", "float", "mixed", "rests", "bool")


def gen_value(rng, kind, small=False, nonneg=False):
    lo, hi = (0, 4) if small else (-6, 12)
    if nonneg:
        lo = max(lo, 0)
    if kind == "float" or (kind == "mixed" and rng.random() < 0.5):
        return rng.randint(lo * 4, hi * 4) / 4.0
    if kind == "rests" and rng.random() < 0.35:
        return None
    if kind == "bool" and rng.random() < 0.5:
        return rng.random() < 0.5
    return rng.randint(lo, hi)


def gen_leaf(rng, kind, n, small=False, endless=False):
    xs = [gen_value(rng, kind, small) for _ in range(n)]
    if endless:
        return E("PSequence", xs, SYS_MAXSIZE)
    return E("PSequence", xs, 1 if (rng.random() < 0.8 or not xs) else 2)


def leaf_len(x):
    return len(x.args[0]) * x.args[1] if isinstance(x, E) else None


def single_cases(rng, per_cell):
    """every operator x {pattern o pattern, pattern o scalar, scalar o pattern} x value kinds x length relations"""
    out = []
    for sym in SYMS:
        small = sym in SMALL_RHS
        for form in ("pp", "ps", "sp"):
            for kind in KINDS:
                for rel in ("equal", "left-shorter", "right-shorter", "empty"):
                    if form != "pp" and rel in ("left-shorter", "right-shorter"):
                        continue
                    for _ in range(per_cell):
                        n = rng.randint(1, 6)
                        m = n if rel == "equal" else rng.randint(1, 5)
                        if rel == "left-shorter":
                            n, m = min(n, m + 1) - 1 or 1, max(n, m) + 1
                        elif rel == "right-shorter":
                            n, m = max(n, m) + 1, min(n, m + 1) - 1 or 1
                        elif rel == "empty":
                            n, m = (0, m) if rng.random() < 0.5 else (n, 0)
                        if form == "pp":
                            l, r = gen_leaf(rng, kind, n), gen_leaf(rng, kind, m, small)
                        elif form == "ps":
                            l, r = gen_leaf(rng, kind, n), gen_value(rng, kind, small)
                        else:
                            l, r = gen_value(rng, kind), gen_leaf(rng, kind, m, small)
                        out.append(Case(Infix(sym, l, r), [("next", 0)] * (max(n, m) + 3),
                                        "single", {"op": sym, "form": form, "kind": kind, "len": rel}))
    return out


def raising_cases(rng, n_cases):
    """operands on which the Python operator itself raises: compared by exception class"""
    out = []
    for _ in range(n_cases):
        sym = rng.choice(["/", "//", "%", "**", "<<", ">>", "<<", ">>", "+", "<", "-"])
        n = rng.randint(2, 5)
        xs = [gen_value(rng, "mixed" if sym in ("/", "//", "%", "**") else "int") for _ in range(n)]
        ys = [gen_value(rng, "int", small=True) for _ in range(n)]
        k = rng.randrange(n)
        if sym in ("/", "//", "%"):
            ys[k] = rng.choice([0, 0.0, False])
        elif sym == "**":
            xs[k], ys[k] = rng.choice([0, 0.0]), rng.choice([-1, -2, -1.0])
        elif sym in ("<<", ">>"):
            if rng.random() < 0.5:
                ys[k] = -rng.randint(1, 3)
            else:
                (xs if rng.random() < 0.5 else ys)[k] = rng.choice([1.5, 2.0])
        else:
            (xs if rng.random() < 0.5 else ys)[k] = rng.choice(["a", (1, 2)]) if rng.random() < 0.5 else None
            if sym == "<" and rng.random() < 0.5:
                xs[k], ys[k] = "a", 1
        form = rng.choice(["pp", "pp", "ps", "sp"])
        l, r = E("PSequence", xs, 1), E("PSequence", ys, 1)
        if form == "ps":
            r = ys[k]
        elif form == "sp":
            l = xs[k]
        if isinstance(l, (str, tuple)) or isinstance(r, (str, tuple)):
            continue                                     # str % pattern etc.: Python dispatches to str first
        out.append(Case(Infix(sym, l, r), [("next", 0)] * (n + 2), "raising", {"op": sym, "form": form}))
    return out


class TreeGen:
    def __init__(self, rng, gen):
        self.rng, self.gen = rng, gen
        self.opaque = []

    def operand(self, depth, small=False, allow_scalar=True, opaque_p=0.0):
        r = self.rng
        if small:                                        # exponents / shift counts: literal small numbers only
            if allow_scalar and r.random() < 0.4:
                return gen_value(r, r.choice(["int", "int", "bool"]), small=True)
            return gen_leaf(r, r.choice(["int", "int", "rests"]), r.randint(1, 6), small=True, endless=r.random() < 0.2)
        if depth <= 0 or r.random() < 0.25:
            k = r.random()
            if allow_scalar and k < 0.3:
                return gen_value(r, r.choice(KINDS))
            if k < 0.3 + opaque_p:
                x = self.gen.gen(r.choice([0, 0, 1]), fin=r.random() < 0.7)
                self.opaque.append(x)
                return x
            return gen_leaf(r, r.choice(KINDS), r.randint(0 if r.random() < 0.05 else 1, 6), endless=r.random() < 0.15)
        return self.tree(depth, opaque_p)

    def tree(self, depth, opaque_p=0.0):
        """an operator expression of the given depth (a pattern)"""
        r = self.rng
        k = r.random()
        if k < 0.12:
            return Unary(r.choice(["neg", "abs"]), self.pattern_operand(depth - 1, opaque_p))
        sym = r.choice(SYMS)
        small = sym in SMALL_RHS
        l = self.operand(depth - 1, opaque_p=opaque_p)
        rr = self.operand(depth - 1, small=small, opaque_p=opaque_p)
        if not is_pat(l) and not is_pat(rr):
            l = self.pattern_operand(depth - 1, opaque_p)
        if r.random() < 0.06:                            # the constructor called directly
            cls = [c for c, s in CLS2SYM.items() if s == sym][0]
            return E(cls, l, rr)
        return Infix(sym, l, rr)

    def pattern_operand(self, depth, opaque_p):
        return self.operand(depth, allow_scalar=False, opaque_p=opaque_p)


def depth_of(x):
    if isinstance(x, Infix):
        return 1 + max(depth_of(x.lhs), depth_of(x.rhs))
    if isinstance(x, Unary):
        return 1 + depth_of(x.x)
    if isinstance(x, E) and x.cls in CLS2SYM or isinstance(x, E) and x.cls == "PAbs":
        return 1 + max([depth_of(a) for a in x.args] or [0])
    return 0


def root_sig(x):
    if isinstance(x, Infix):
        return x.op, ("p" if is_pat(x.lhs) else "s") + ("p" if is_pat(x.rhs) else "s")
    if isinstance(x, Unary):
        return x.op, "p"
    if isinstance(x, E) and x.cls in CLS2SYM:
        return CLS2SYM[x.cls], "ctor"
    return getattr(x, "cls", "?"), "?"


def model_case_ok(c):
    """scalar & pattern raises when the EXPRESSION is evaluated by Python, before any isobar code runs:
    it has no image in the model and is judged by the oracle only"""
    return not ctor_raises(c.expr)


# ---- rounding-sensitive strata ----------------------------------------------------------------------------
# On ints (and on the quarter-multiples of the strata above) the Python operators obey the laws of the rationals:
# (x + c1) + c2 = x + (c1 + c2), (x + y) * c = x*c + y*c, x / c = x * (1/c), (x * c1) * c2 = x * (c1 * c2) ...
# so an implementation that re-associates, distributes, folds constants, or evaluates in higher precision and
# rounds once is indistinguishable there.  On floats every operator rounds, and none of these laws holds.  Each
# theme is a small pool from which BOTH the stream values and the scalars at every level of one expression are
# drawn, so that the interesting coincidences (cancellation, ties, half-ulp sums) actually occur.
FP_THEMES = {
    "decimal": [0.1, 0.2, 0.3, 0.7, 1.1, 2.5, 0.01, 1 / 3, -0.1, -0.3, 1, 3, 10, 100, 0.6, 1e-3],
    "cancel": [1e16, -1e16, 1.0, -1.0, 0.5, 3, 1e-16, 2.5, 1e15, -1, 7, 1e16 + 2, 0.1],
    "near2p53": [float(2 ** 53), float(2 ** 53 + 2), float(2 ** 53 - 1), -float(2 ** 53), 4.0, 1, 2, 3, -1,
                 2 ** 53 + 1, 1.0, 0.5, float(2 ** 52) + 0.5],
    "scale": [3.0, 7.0, 10.0, 0.1, 1e-3, 1e3, 49, 1 / 7, 6, 1.5, 1e30, 1e-30, 0.3, 1e22, 1e23],
    "zeros": [0.0, -0.0, 0, 1, -1, 1.0, -1.0, 0.5, -2, 2.0, False, True, -0.0, 1e-320],
    "tiny": [5e-324, 2.2250738585072014e-308, 1e-300, 0.5, 3, 1e300, 2.0, 0.1, 1e-310, 7, 1.5, 1e308, 1e-308],
    "ints": [0, 1, -1, 2, 3, 7, -5, 12, True, 2 ** 53 + 1, 10 ** 18, 6, 4],
}
CMPS = ["==", "!=", "<", ">", "<=", ">="]
FP_FAMILIES = {                                          # operators used at the levels of one expression
    "additive": ["+", "+", "+", "-", "-"],
    "multiplicative": ["*", "*", "*", "/", "/"],
    "distributive": ["+", "-", "*", "*", "/"],
    "intdiv": ["//", "%", "//", "%", "*", "+", "-"],
    "power": ["**", "**", "*", "/"],
    "shift": ["<<", ">>", "<<", ">>", "*", "+"],
    "compare": ["+", "-", "*", "/"],                     # a comparison (or &) at the root, arithmetic below
    "free": list(PYOP) + ["&"],
}
FAMILY_WEIGHTS = [("additive", 4), ("multiplicative", 4), ("distributive", 4), ("intdiv", 2), ("power", 1),
                  ("shift", 1), ("compare", 3), ("free", 3)]


class FpGen:
    def __init__(self, rng):
        self.rng = rng

    def value(self, theme):
        r = self.rng
        v = r.choice(FP_THEMES[theme] if theme in FP_THEMES else SPECIAL_THEMES[theme])
        if type(v) is not bool and r.random() < 0.25:   # a relative of a pool member
            k = r.choice([-1, 2, 0.5, 10, 3, 0.1])
            if theme == "ints":
                k = r.choice([-1, 2, 3, 10])
            try:
                w = v * k
                if not (type(w) is float and not math.isfinite(w)) and not (type(w) is int and w.bit_length() > 80):
                    v = w
            except OverflowError:
                pass
        return v

    def leaf(self, theme, n=None):
        r = self.rng
        n = n or r.randint(3, 6)
        xs = [None if r.random() < 0.1 else self.value(theme) for _ in range(n)]
        return E("PSequence", xs, 1 if r.random() < 0.9 else SYS_MAXSIZE)

    def small_rhs(self, sym):
        """exponents / shift counts: literal and small (Python would compute astronomically large ints)"""
        r = self.rng
        if sym == "**":
            pool = [0, 1, 2, 3, 2, 3, 0.5, -1, 2.0, -2, True]
        else:
            pool = [0, 1, 2, 3, 4, 1, 2, -1, True, 1.0]  # -1: ValueError, 1.0: TypeError
        if r.random() < 0.25:
            return E("PSequence", [r.choice(pool) for _ in range(r.randint(3, 5))], 1)
        return r.choice(pool)

    def join(self, sym, sub, theme, depth):
        """one more level above `sub`: sub o x or x o sub, x a scalar (mostly) or a pattern"""
        r = self.rng
        if sym in SMALL_RHS:
            return Infix(sym, sub, self.small_rhs(sym))
        k = r.random()
        other = self.value(theme) if k < 0.65 else self.leaf(theme) if k < 0.9 or depth <= 1 \
            else self.node(depth - 1, theme, "free")
        if sym == "&" and not is_pat(other):
            return Infix(sym, sub, other)                 # scalar & p does not build
        e = Infix(sym, sub, other) if r.random() < 0.55 else Infix(sym, other, sub)
        if r.random() < 0.04 and sym != "&":             # the constructor called directly
            return E([c for c, s in CLS2SYM.items() if s == sym][0], e.lhs, e.rhs)
        return e

    def node(self, depth, theme, family):
        r = self.rng
        if depth <= 0:
            return self.leaf(theme)
        sub = self.node(depth - 1, theme, family)
        e = self.join(r.choice(FP_FAMILIES[family]), sub, theme, depth)
        if r.random() < 0.06:
            e = Unary(r.choice(["neg", "abs"]), e)
        return e

    def tree(self, depth, theme, family):
        e = self.node(depth - 1 if family == "compare" else depth, theme, family)
        if family == "compare":
            sym = self.rng.choice(CMPS + CMPS + CMPS + ["&"])
            if sym in CMPS and self.rng.random() < 0.6:
                c = threshold(self.rng, e, self.value(theme))
                e = Infix(sym, e, c) if self.rng.random() < 0.55 else Infix(sym, c, e)
            else:
                e = self.join(sym, e, theme, depth)
        return e


CHAIN_PAIRS = [(a, b) for a in "+-" for b in "+-"] + [(a, b) for a in "*/" for b in "*/"] + \
              [(a, b) for a in "+-" for b in "*/"] + [(a, b) for a in "*/" for b in "+-"] + \
              [(a, b) for a in ("//", "%") for b in ("//", "%")] + [("*", "//"), ("//", "*"), ("+", "%"), ("*", "%")] + \
              [("**", "**"), ("*", "**"), ("**", "*")] + [(a, b) for a in ("<<", ">>") for b in ("<<", ">>")] + \
              [("+", "<"), ("-", ">="), ("*", "=="), ("/", "<="), ("+", "!="), ("*", ">"), ("-", "=="), ("/", "<")] + \
              [("<", "+"), ("==", "*"), ("+", "&")]


def threshold(rng, inner, default):
    """a comparison is only sensitive to rounding at its boundary: compare with a value the operand actually takes
    (the inner expression evaluated level by level at one of its elements) or with a float next to it"""
    if rng.random() < 0.25:
        return default
    try:
        o = elem(inner, rng.randrange(3), {})
    except CannotJudge:
        return default
    if o == "stop" or o[0] != "y" or type(o[1]) not in (int, float) or (type(o[1]) is float and not math.isfinite(o[1])):
        return default
    v = o[1]
    k = rng.random()
    if type(v) is float and k < 0.4:
        return math.nextafter(v, math.inf if k < 0.2 else -math.inf)
    return v


def chain_cases(rng, fg, reps):
    """two operators applied one after the other to one stream, a scalar at each level, in the four written
    forms ((p o1 c1) o2 c2, c2 o2 (p o1 c1), (c1 o1 p) o2 c2, c2 o2 (c1 o1 p)), over every theme"""
    out = []
    for rep in range(2 * reps):
        for o1, o2 in (CHAIN_PAIRS if rep % 2 == 0 else CHAIN_PAIRS[:16]):     # the 16 pairs over + - * / twice
            for form in ("ll", "lr", "rl", "rr"):
                for theme in FP_THEMES:
                    if (o1 in ("<<", ">>") or o2 in ("<<", ">>")) and theme not in ("ints", "zeros", "near2p53"):
                        continue
                    if theme == "tiny" and rng.random() < 0.6:  # subnormals / overflow: 1000-bit rationals in the model
                        continue
                    p = fg.leaf(theme)
                    c1 = fg.small_rhs(o1) if o1 in SMALL_RHS else fg.value(theme)
                    c2 = fg.small_rhs(o2) if o2 in SMALL_RHS else fg.value(theme)
                    if o1 in SMALL_RHS and form[0] == "r" or o2 in SMALL_RHS and form[1] == "r" or o2 == "&" and form[1] == "r":
                        continue
                    inner = Infix(o1, p, c1) if form[0] == "l" else Infix(o1, c1, p)
                    if o2 in CMPS:
                        c2 = threshold(rng, inner, c2)
                    e = Infix(o2, inner, c2) if form[1] == "l" else Infix(o2, c2, inner)
                    out.append(Case(e, [("next", 0)] * (leaf_len(p) + 2 if leaf_len(p) < 20 else 8), "fp-chain",
                                    {"theme": theme, "family": "%s then %s" % (o1, o2), "form": form}))
    return out


def fp_tree_cases(rng, fg, n):
    out = []
    fams = [f for f, w in FAMILY_WEIGHTS for _ in range(w)]
    themes = [t for t in FP_THEMES for _ in range(1 if t == "tiny" else 2)]
    for i in range(n):
        family = fams[i % len(fams)]
        theme = rng.choice(["ints", "zeros", "near2p53"]) if family == "shift" else themes[(i // len(fams)) % len(themes)] \
            if rng.random() < 0.8 else rng.choice(themes)
        depth = rng.choice([2, 2, 2, 3, 3, 3, 3, 4]) if rng.random() >= 0.03 else 5
        e = fg.tree(depth, theme, family)
        out.append(Case(e, [("next", 0)] * 8, "fp-nested", {"theme": theme, "family": family}))
    return out


# ---- the special IEEE values -----------------------------------------------------------------------------
# NaN, +inf, -inf as operand values: as stream elements, as scalars on either side, and arising inside an
# expression (inf - inf, 0.0 * inf, 1e308 * 10, 1e308 + 1e308).  NaN is unordered (every comparison False except
# !=), so an implementation that derives >= from a three-way comparison, or from `not <`, or that sorts / dedups
# / looks values up by equality, differs from the Python operator exactly there; infinities propagate through
# arithmetic and only the special combinations give NaN.  None of this is reachable from finite operands except
# through overflow.  Generated after all the other strata (the older cases are unchanged for a given seed).
NAN, INF = float("nan"), float("inf")
SPECIAL_THEMES = {
    "special": [NAN, INF, -INF, 0.0, -0.0, 1.0, -1.0, 2.5, 1e308, -1e308, 0, 1, -3, INF, NAN, 7, 0.5, True],
    "overflow": [1e308, -1e308, 1.7976931348623157e308, 1e200, 1e-200, 10.0, 0.0, 2, -2, 0.5, 1e154, 1.5e154,
                 INF, 10 ** 400, -1.0, 3, 5e-324],
}
SP_POOL = [NAN, INF, -INF, 0.0, -0.0, 1.0, -1.0, 2.5, 1e308, -1e308, 5e-324, 0, 1, -3, 10 ** 400, True]
SP_POOL_MORE = [-0.5, 1.7976931348623157e308, 2 ** 53 + 1, False]           # thorough tier
SP_SMALL = [NAN, INF, -INF, 0, 1, 2, -1, 0.5, 2.0, 0.0, True]      # exponents / shift counts
SP_CHAIN_PAIRS = [(a, b) for a in "+-*/" for b in CMPS] + [(a, b) for a in "+-*/" for b in "+-*/"] + \
                 [("+", "&"), ("*", "&"), ("-", "//"), ("*", "%"), ("/", "//"), ("+", "**"), ("<", "+"), (">=", "*")]


def is_special(v):
    return type(v) is float and not math.isfinite(v)


def sp_value(rng, kind="special"):
    v = rng.choice(SPECIAL_THEMES[kind])
    return None if rng.random() < 0.08 else v


def sp_grid_cases(rng, SP_POOL=SP_POOL):
    """element-wise tables: every operator class, & , abs and unary minus on every ordered pair of a pool of special
    and ordinary values, the constant operand as a stream or as a scalar on either side.  A pair on which the Python
    operator raises gets a one-element case of its own (nothing is claimed after an exception)."""
    out = []
    k = 0
    for sym in SYMS:
        rhs_pool = SP_SMALL if sym in SMALL_RHS else SP_POOL
        cls = [c for c, s2 in CLS2SYM.items() if s2 == sym][0]
        for side in ("left", "right"):                   # where the constant operand x stands
            for x in (SP_POOL if side == "left" else rhs_pool):
                varying = rhs_pool if side == "left" else SP_POOL
                ok, bad = [], []
                for o in varying:
                    a, b = (x, o) if side == "left" else (o, x)
                    (bad if apply_op(sym, a, b)[0] == "r" else ok).append(o)
                for row in ([ok] if ok else []) + [[o] for o in bad]:
                    n = len(row)
                    form = ("ctor", "pp", "sp" if side == "left" else "ps")[k % 3]
                    k += 1
                    if sym == "&" and form == "sp":
                        form = "pp"
                    const = x if form in ("sp", "ps") else E("PSequence", [x] * n, 1)
                    strm = E("PSequence", list(row), 1)
                    l, r = (const, strm) if side == "left" else (strm, const)
                    e = E(cls, l, r) if form == "ctor" else Infix(sym, l, r)
                    xs, ys = ([x] * n, list(row)) if side == "left" else (list(row), [x] * n)
                    out.append(Case(e, [("next", 0)] * (n + 1), "sp-grid", {"sym": sym, "form": form, "xs": xs, "ys": ys}))
    for op in ("neg", "abs"):
        for form in ("infix", "ctor"):
            if op == "neg" and form == "ctor":
                continue
            xs = list(SP_POOL) + [None]
            arg = E("PSequence", xs, 1)
            e = Unary(op, arg) if form == "infix" else E("PAbs", arg)
            out.append(Case(e, [("next", 0)] * (len(xs) + 1), "sp-grid", {"sym": op, "form": form, "xs": xs, "ys": xs}))
    return out


def sp_single_cases(rng, per_cell):
    """every operator x {pp, ps, sp} x length relations, over streams of special and ordinary values with rests"""
    out = []
    for sym in SYMS:
        for form in ("pp", "ps", "sp"):
            if sym == "&" and form == "sp":
                continue
            for rel in ("equal", "left-shorter", "right-shorter"):
                if form != "pp" and rel != "equal":
                    continue
                for _ in range(per_cell):
                    n = rng.randint(3, 7)
                    m = n if rel == "equal" else max(1, n - rng.randint(1, 2))
                    if rel == "left-shorter":
                        n, m = m, n
                    kind = rng.choice(["special", "special", "overflow"])
                    small = sym in SMALL_RHS
                    lv = [sp_value(rng, kind) for _ in range(n)]
                    rv = [(None if rng.random() < 0.08 else rng.choice(SP_SMALL)) if small else sp_value(rng, kind) for _ in range(m)]
                    if small:
                        lv = [v if not (type(v) is int and abs(v) > 2 ** 60) else 3 for v in lv]
                    l, r = E("PSequence", lv, 1), E("PSequence", rv, 1)
                    if form == "ps":
                        r = rng.choice([v for v in rv if v is not None] or [NAN])
                    elif form == "sp":
                        l = rng.choice([v for v in lv if v is not None] or [NAN])
                    out.append(Case(Infix(sym, l, r), [("next", 0)] * (max(n, m) + 2), "sp-single",
                                    {"op": sym, "form": form, "theme": kind}))
    return out


def sp_chain_cases(rng, fg, reps):
    """two operators one after the other over a stream and two scalars drawn from a special theme, four written
    forms: NaN / inf produced at the inner level (inf - inf, 0.0 * inf, 1e308 * 10) meets every comparison, &,
    and further arithmetic at the outer level"""
    out = []
    for rep in range(reps):
        for o1, o2 in SP_CHAIN_PAIRS:
            for form in ("ll", "lr", "rl", "rr"):
                theme = ("special", "overflow")[(rep + len(out)) % 2]
                if o2 in SMALL_RHS and form[1] == "r" or o2 == "&" and form[1] == "r":
                    continue
                p = fg.leaf(theme)
                c1 = fg.value(theme)
                c2 = rng.choice(SP_SMALL) if o2 in SMALL_RHS else fg.value(theme)
                inner = Infix(o1, p, c1) if form[0] == "l" else Infix(o1, c1, p)
                e = Infix(o2, inner, c2) if form[1] == "l" else Infix(o2, c2, inner)
                out.append(Case(e, [("next", 0)] * (leaf_len(p) + 2 if leaf_len(p) < 20 else 8), "sp-chain",
                                {"theme": theme, "family": "%s then %s" % (o1, o2), "form": form}))
    return out


def sp_tree_cases(rng, fg, n):
    out = []
    fams = ["additive", "multiplicative", "distributive", "compare", "compare", "compare", "free", "intdiv"]
    for i in range(n):
        family = fams[i % len(fams)]
        theme = ("special", "overflow", "special")[i % 3]
        depth = rng.choice([2, 2, 3, 3, 3, 4])
        e = fg.tree(depth, theme, family)
        out.append(Case(e, [("next", 0)] * 8, "sp-nested", {"theme": theme, "family": family}))
    return out


def special_seen(c):
    """measured: a NaN / infinity is among the outputs of the case"""
    return any(isinstance(o, dict) and isinstance(o.get("y"), dict) and str(o["y"].get("o", "")).startswith("float:")
               for o in (c.obs or [])[1:])


def special_arises(c):
    """measured: a NaN / infinity is among the outputs although no operand of the expression is one"""
    lits = [n for _, n in nodes(c.expr) if is_special(n)]
    return not lits and special_seen(c)


def abs_meets_special(c, streams):
    """abs() of a NaN / infinity somewhere in the case: the shared pattern model computes abs with Pat/Val.v py_abs,
    which has no special values (the element-wise table compares abs with IeeeSpecial.xabs instead)"""
    for _, n in nodes(c.expr):
        arg = n.x if isinstance(n, Unary) and n.op == "abs" else \
            n.args[0] if isinstance(n, E) and n.cls == "PAbs" and len(n.args) == 1 else None
        if arg is None:
            continue
        for i in range(max(1, len(c.obs or []) - 1)):
            try:
                o = elem(arg, i, streams)
            except CannotJudge:
                return True
            if o == "stop":
                break
            if o[0] == "r" or is_special(o[1]):           # after an exception the operand streams are no longer aligned:
                return True                               # what abs() meets later cannot be predicted here
    return False


def well_formed(x):
    """every operator node has a pattern operand (a shrinking step may replace the only pattern operand by a scalar:
    `abs(1)` is an int, not a pattern)"""
    for _, n in nodes(x):
        if isinstance(n, Infix) and not (is_pat(n.lhs) or is_pat(n.rhs)):
            return False
        if isinstance(n, Unary) and not is_pat(n.x):
            return False
    return is_pat(x)


SPECIAL_HEADER = HEADER.replace("Pat.Script ", "Pat.Script Pat.Ieee Pat.IeeeSpecial ").replace(
    "check_trace Val.binop", "check_trace IeeeSpecial.binop_sp").replace("trace Val.binop", "trace IeeeSpecial.binop_sp")
assert "Pat.IeeeSpecial" in SPECIAL_HEADER and SPECIAL_HEADER.count("IeeeSpecial.binop_sp") == 2
SP_TUP = {"nan": '(VTup [VStr "nan"%string])', "inf": '(VTup [VStr "inf"%string])', "-inf": '(VTup [VStr "-inf"%string])'}


def zbig(n):
    """Z literal; a long one is written in chunks of 18 digits (Coq reads a decimal numeral in quadratic time)"""
    if abs(n) < 10 ** 36:
        return zlit(n)
    digits = str(abs(n))
    t = None
    for i in range(0, len(digits), 18):
        chunk = digits[i:i + 18]
        t = str(int(chunk)) if t is None else "(%s * %d + %d)" % (t, 10 ** len(chunk), int(chunk))
    return "(- %s)" % t if n < 0 else t


def val_coq_special(v):
    """as val_coq_ieee, plus the encoding of the three special floats of Pat/IeeeSpecial.v [enc]"""
    if isinstance(v, Opaque) and v.what in ("float:nan", "float:inf", "float:-inf"):
        v = float(v.what[6:])
    if is_special(v):
        return SP_TUP[repr(v)]
    if type(v) is int and abs(v) >= 10 ** 36:
        return "(VInt %s)" % zbig(v)
    return val_coq_ieee(v)


@contextlib.contextmanager
def special_model():
    """inside: the shared runner compares with the operator semantics Pat/IeeeSpecial.v binop_sp"""
    saved = (_pc.HEADER, _pc.val_coq)
    _pc.HEADER, _pc.val_coq = SPECIAL_HEADER, val_coq_special
    try:
        yield
    finally:
        _pc.HEADER, _pc.val_coq = saved


GRID_HEADER = """From Isobar Require Import Base.Prelude Pat.Val Pat.Ieee Pat.IeeeSpecial.
From Coq Require Import String QArith.
Open Scope Z_scope.
"""
XSYM = {sym: "(XOp %s)" % coq for (sym, coq) in BINOPS.values()}
XSYM.update({"&": "XAnd", "abs": "XAbs", "neg": "XNeg"})


def xv_coq(v):
    if v is None:
        return "XN"
    if isinstance(v, bool):
        return "(XB %s)" % blit(v)
    if isinstance(v, int):
        return "(XI %s)" % zbig(v)
    if type(v) is float:
        if v != v:
            return "(XF XNaN)"
        if not math.isfinite(v):
            return "(XF (XInf %s))" % blit(v < 0)
        n, d = v.as_integer_ratio()
        if n == 0:
            return "(xmk 0 0)"
        if d == 1:
            e = (n & -n).bit_length() - 1
            return "(xmk %s %d)" % (zlit(n >> e), e)
        return "(xmk %s (-%d))" % (zlit(n), d.bit_length() - 1)
    raise Unrepresentable(repr(v))


def xobs_coq(o):
    """an observation as an outcome xv; a value outside xv (complex, str ...) is written as Inexact: the model must
    decline it too, a definite model answer is then a disagreement"""
    if o == "stop":
        return "Stop"
    if "r" in o:
        return "(Raise %s)" % (o["r"] if o["r"] in EXN else "OtherError")
    try:
        return "(Yield %s)" % xv_coq(obs_value(o["y"]))
    except Unrepresentable:
        return "Inexact"


def run_grid_model(run, grid):
    """the element-wise results of the implementation's operator classes against IeeeSpecial.xelem / xelem_and /
    xelem_abs, inside Coq: per row the list of codes 0 agree / 1 disagree / 2 the model declines"""
    rows = [c for c in grid if not c.status and c.obs and canon_obs(c.obs[0]) == "value null"]
    codes_of = {}
    chunk = 250
    parts = [rows[i:i + chunk] for i in range(0, len(rows), chunk)]

    def one(part):
        terms, names = [], {}

        def nm(lit):                                     # every distinct literal is elaborated once
            if lit not in names:
                names[lit] = "v%d" % len(names)
            return names[lit]

        def ob(o):
            t = xobs_coq(o)
            return "(Yield %s)" % nm(t[7:-1]) if t.startswith("(Yield ") else t
        for c in part:
            m = c.meta
            exp = [ob(o) for o in c.obs[1:1 + len(m["xs"])]]
            terms.append("xrow %s %s %s %s" % (XSYM[m["sym"]], lst([nm(xv_coq(v)) for v in m["xs"][:len(exp)]]),
                                               lst([nm(xv_coq(v)) for v in m["ys"][:len(exp)]]), lst(exp)))
        defs = "".join("Definition %s : xv := %s.\n" % (n, lit) for lit, n in names.items())
        out = run.coqc_text("grid", GRID_HEADER + defs + "\nDefinition rows : list (list nat) := [\n" + ";\n".join(terms) +
                            "\n].\nEval vm_compute in rows.\n")
        txt = " ".join(out.split()).replace("%nat", "")
        body = txt[txt.index("= [") + 3:txt.rindex("] : list (list nat)")]
        got = [[int(x) for x in r.split(";") if x.strip()] for r in re.findall(r"\[([^\[\]]*)\]", body)]
        if len(got) != len(part):
            raise CheckError("grid: %d rows back for %d" % (len(got), len(part)))
        return got
    with ThreadPoolExecutor(max_workers=8) as ex:
        for part, got in zip(parts, ex.map(one, parts)):
            for c, codes in zip(part, got):
                codes_of[id(c)] = codes
    return rows, codes_of


# ---- operand classes ---------------------------------------------------------------------------------------
# The dunder methods are inherited by EVERY pattern class; what they reach through `self` (self.pattern(...),
# self.value(...), self.copy ...) is the instance's attribute when the class stores one of that name.  The strata above
# build operands from PSequence / PSeries / PConstant, operator expressions and (every 4th tree) the classes of the
# model's registry, never the stochastic, tonal, fade, warp ... classes, and rarely directly under a reflected operator.
# Here every pattern class of the library (taken from the live library by introspection) is the pattern operand itself,
# on either side of every operator, in the reflected forms, under unary minus, abs and &.
import c08_classes as _cc
CLASS_SCALARS = [7, 7.5, 2, -3, 0.5, True, 12]
CLASS_STREAM = [3, 1, 2, 0, 4, 2]


def recipe_leaf(src):
    """the expression-tree form of a recipe `iso.<...>.seed(n)` / `iso.<...>.copy()`: a call whose class part is the text
    in front of the last call (to_source gives the recipe back; it travels through JSON as it is; no image in the model)"""
    assert src.startswith("iso.")
    if src.endswith(".copy()"):
        return E(src[4:-2])
    head, _, arg = src[4:-1].rpartition(".seed(")
    return E(head + ".seed", int(arg))


def class_leaves(rng, classes):
    """(class name, operand expression, constructor only?) for every class of the live library that can be built"""
    gen = Gen(rng, None)
    out, missing = [], []
    for cls in classes:
        if cls in _cc.EXCLUDED:
            continue
        if cls in GENERATORS:
            out.append((cls, gen.make(cls, 1, GENERATORS[cls][1]), False))
        elif cls in _cc.RECIPES:
            out.append((cls, recipe_leaf(_cc.RECIPES[cls]), False))
        elif cls in _cc.CTOR_ONLY:
            out.append((cls, recipe_leaf(_cc.CTOR_ONLY[cls]), True))
        elif cls == "PDict":
            out.append((cls, E("PDict", {"note": E("PSequence", [1, 2, 3], 1), "amp": 4}), False))
        else:
            missing.append(cls)
    return out, missing


def class_cases(rng, leaves, pp_ops):
    """the operand L of class C: L o c and c o L for all 15 operators (c a scalar: the reflected / mirrored dunder is
    dispatched on L), L o P and P o L for `pp_ops` operators per class (rotating), L & c, L & P, P & L, -L, abs(L)"""
    out = []
    syms = list(PYOP)
    for k, (cls, L, ctor_only) in enumerate(leaves):
        n_ops = 0 if ctor_only else 8

        def add(e, form):
            out.append(Case(e, [("next", 0)] * n_ops, "operand-class", {"cls": cls, "form": form}))
        for sym in syms:
            small = sym in SMALL_RHS
            add(Infix(sym, L, rng.choice([2, 3, 0, 1]) if small else rng.choice(CLASS_SCALARS)), "ps")
            add(Infix(sym, rng.choice([1, 3, 12] if sym in ("<<", ">>") else [2, 0.5, 3, 1]) if small else rng.choice(CLASS_SCALARS), L), "sp")
        for j in range(pp_ops):
            sym = syms[(k * pp_ops + j) % len(syms)]
            P = E("PSequence", [rng.choice(CLASS_STREAM) for _ in range(6)], 1)
            add(Infix(sym, L, P), "pp")
            sym = syms[(k * pp_ops + j + 7) % len(syms)]
            P = E("PSequence", [rng.choice(CLASS_STREAM) for _ in range(6)], 1)
            add(Infix(sym, P, L), "pp")
        P = E("PSequence", [rng.choice(CLASS_STREAM) for _ in range(6)], 1)
        add(Infix("&", L, rng.choice([0, 1, 2.5])), "ps")
        add(Infix("&", L, P), "pp")
        add(Infix("&", P, L), "pp")
        add(Unary("neg", L), "p")
        add(Unary("abs", L), "p")
    return out


def run_impl8(run, cases, shards=12):
    """as pat_common.run_impl, on impl/c08_impl.py: the expression travels as its Python source text as well (the
    JSON form, floats as integer ratios, would lose the sign of a literal -0.0), observations mark negative zeros"""
    if not cases:
        return
    parts = [cases[i::shards] for i in range(shards) if cases[i::shards]]
    payloads = [{"cases": [{"expr": to_json(c.expr), "source": to_source(c.expr), "ops": [list(o) for o in c.ops],
                            **({"introspect": True} if c.tag == "leaf" else {})}
                           for c in part]} for part in parts]
    outs = run.impl_parallel("c08_impl", payloads)
    for part, out in zip(parts, outs):
        for c, r in zip(part, out["cases"]):
            c.obs = r["obs"]
            c.status = r.get("status")
            if "shadow" in r:
                c.meta["shadow"], c.meta["live_cls"] = r["shadow"], r.get("cls")


IEEE_HEADER = HEADER.replace("Pat.Script ", "Pat.Script Pat.Ieee ").replace(
    "check_trace Val.binop", "check_trace Ieee.binop_ieee").replace("trace Val.binop", "trace Ieee.binop_ieee")
assert "Pat.Ieee" in IEEE_HEADER and IEEE_HEADER.count("Ieee.binop_ieee") == 2


_val_coq = _pc.val_coq


def val_coq_ieee(v):
    """every finite float has an image: the literal is (mkf m e) = m * 2^e, m odd (short whatever the magnitude:
    Coq reads a 300-digit numeral in about half a second)"""
    if type(v) is float and math.isfinite(v):
        n, d = v.as_integer_ratio()
        if n == 0:
            return "(mkf 0 0)"
        if d == 1:
            e = (n & -n).bit_length() - 1
            return "(mkf %s %d)" % (zlit(n >> e), e)
        return "(mkf %s (-%d))" % (zlit(n), d.bit_length() - 1)
    return _val_coq(v)


@contextlib.contextmanager
def ieee_model():
    """inside: the shared runner (run_model, model_trace, shrink) compares with the operator semantics
    Pat/Ieee.v binop_ieee, and every finite binary64 literal has an image (no small-dyadic restriction)"""
    saved = (_pc.HEADER, _pc.val_coq)
    _pc.HEADER, _pc.val_coq = IEEE_HEADER, val_coq_ieee
    try:
        yield
    finally:
        _pc.HEADER, _pc.val_coq = saved


# ---- the check -------------------------------------------------------------------------------------------
def check(run):
    rng = run.rng
    thorough = run.tier == "thorough"
    import time
    t0 = [time.time()]
    phase = {}

    def lap(name):
        phase[name] = round(time.time() - t0[0], 1); t0[0] = time.time()
        run.cov["phase_seconds"] = phase
    sigs = run.impl("pat_impl", {"signatures": list(REGISTRY)})["signatures"]
    stale = {cls for cls, _ in check_registry(run, sigs)}
    for cls in sorted(stale):
        run.discard("registry:" + cls)
    run.cov["registry_mismatches"] = sorted(stale)

    gen = Gen(rng, None)
    tg = TreeGen(rng, gen)
    cases = single_cases(rng, 6 if thorough else 1)
    cases += raising_cases(rng, 3000 if thorough else 260)
    n_nested = 40000 if thorough else 2000
    for i in range(n_nested):
        d = 2 + (i % 2) if rng.random() >= 0.05 else rng.choice([4, 5])
        e = tg.tree(d, opaque_p=0.25 if i % 4 == 0 else 0.0)
        cases.append(Case(e, [("next", 0)] * NEXTS, "nested", {"depth": depth_of(e)}))
    for _ in range(300 if thorough else 60):
        x = gen_leaf(rng, rng.choice(KINDS), rng.randint(0, 6))
        cases.append(Case(Unary(rng.choice(["neg", "abs"]), x), [("next", 0)] * (leaf_len(x) + 3), "unary"))
    # a few scripts with helpers / reset / copies on operator expressions (model comparison only)
    script_cases = []
    for _ in range(2000 if thorough else 150):
        e = tg.tree(rng.choice([1, 2]))
        script_cases.append(Case(e, gen_ops(rng, False), "script"))

    # rounding-sensitive strata (generated last: the cases above are the same as before for a given seed)
    fg = FpGen(rng)
    fp_cases = chain_cases(rng, fg, 6 if thorough else 1) + fp_tree_cases(rng, fg, 20000 if thorough else 800)

    # the special IEEE values (generated after everything else)
    sp_grid = sp_grid_cases(rng, SP_POOL + SP_POOL_MORE if thorough else SP_POOL)
    sp_cases = sp_single_cases(rng, 3 if thorough else 1) + sp_chain_cases(rng, fg, 6 if thorough else 1) + \
        sp_tree_cases(rng, fg, 6000 if thorough else 300)

    # every pattern class of the live library as the operand itself (generated last)
    live = run.impl("c08_impl", {"cases": [], "list_classes": True})["classes"]
    cls_leaves, cls_missing = class_leaves(rng, live)
    cls_cases = class_cases(rng, cls_leaves, 6 if thorough else 2)

    # operand streams of the non-literal leaves: a fresh instance of the leaf, run on its own
    leaves = {}
    for x in tg.opaque:
        leaves.setdefault(to_source(x), x)
    for c in cls_cases:
        for x in operand_leaves(c.expr):
            if not is_literal(x):
                leaves.setdefault(to_source(x), x)
    leaf_cases = [Case(x, [("next", 0)] * NEXTS, "leaf") for x in leaves.values()]
    run_impl8(run, cases + script_cases + leaf_cases + fp_cases + sp_grid + sp_cases + cls_cases)
    streams = {to_source(c.expr): c.obs[1:] for c in leaf_cases
               if not c.status and c.obs and canon_obs(c.obs[0]) == "value null"}
    lap("generate+implementation")

    # ---- oracle
    explained = set()
    for c in cases + fp_cases + sp_grid + sp_cases:
        run.count()
        sym, form = root_sig(c.expr)
        run.dist("op.%s" % sym); run.dist("form.%s" % form); run.dist("stream.%s" % c.tag)
        run.dist("depth.%d" % depth_of(c.expr))
        if c.tag == "single":
            run.dist("kind.%s" % c.meta["kind"]); run.dist("len.%s" % c.meta["len"])
        if c.tag.startswith("fp-"):
            run.dist("fp.theme.%s" % c.meta["theme"]); run.dist("fp.family.%s" % c.meta["family"])
            if not c.status and rounding_visible(c):
                run.dist("fp.rounding-visible")
        if c.tag.startswith("sp-"):
            if "theme" in c.meta:
                run.dist("special.theme.%s" % c.meta["theme"])
            if not c.status and special_seen(c):
                run.dist("special.nan-or-inf-among-the-outputs")
            if not c.status and special_arises(c):
                run.dist("special.arises-from-finite-operands")
            if sym in CMPS and not c.status and any(is_special(n) and n != n for _, n in nodes(c.expr)):
                run.dist("special.nan-meets-comparison.%s" % sym)
        if c.status:
            run.discard("impl-" + c.status)
            continue
        try:
            dev = judge(c, streams)
        except CannotJudge:
            run.discard("oracle-no-operand-stream")
            continue
        run.cov["oracle_evaluations"] += len(c.obs)
        if len(c.obs) > 1 and canon_obs(c.obs[1]).startswith("value"):
            run.nontrivial(to_source(c.expr))
        if dev is not None:
            explained.add(id(c))
            report(run, c, dev, streams)
    run.sample({"expr": to_source(cases[len(cases) // 2].expr), "observed": cases[len(cases) // 2].obs_pretty()})
    # ---- oracle, operand classes
    shadow = {}
    by_src = {to_source(l.expr): l for l in leaf_cases}
    for cls, L, _ in cls_leaves:
        l = by_src.get(to_source(L))
        if l is not None and l.meta.get("shadow"):
            shadow[cls] = l.meta["shadow"]
    per_class = {}
    for c in cls_cases:
        run.count()
        cls = c.meta["cls"]
        sym, form = root_sig(c.expr)
        run.dist("op.%s" % sym); run.dist("form.%s" % form); run.dist("stream.operand-class"); run.dist("operand-class.%s" % cls)
        for a in shadow.get(cls, ()):
            run.dist("operand-class.shadows.%s" % a)
        if c.status:
            run.discard("impl-" + c.status)
            continue
        try:
            dev = judge(c, streams, operand_only=True)
        except CannotJudge:
            run.discard("operand-class: the operand's own constructor raises")
            continue
        run.cov["oracle_evaluations"] += len(c.obs)
        per_class[cls] = per_class.get(cls, 0) + 1
        if len(c.obs) > 1 and canon_obs(c.obs[1]).startswith("value") or not c.ops:
            run.nontrivial(to_source(c.expr))
        if dev is not None:
            explained.add(id(c))
            k = ("cls", sym, form)
            run._c08_cls = getattr(run, "_c08_cls", {})
            run._c08_cls[k] = run._c08_cls.get(k, 0) + 1
            if run._c08_cls[k] <= 3:                     # at most three operand classes per (operator, form)
                report(run, c, dev, streams, {"operand": cls}, operand_only=True)
    run.cov["operand_classes"] = {
        "live_pattern_classes": len(live), "as_operand": len(per_class), "judged_cases_per_class": per_class,
        "excluded": {c: why for c, why in _cc.EXCLUDED.items() if c in live},
        "not_covered": cls_missing,
        "instance_attributes_shadowing_Pattern_attributes": shadow}

    lap("oracle")
    # ---- model
    allc = [c for c in cases + script_cases + [k for k in cls_cases if k.meta["cls"] in GENERATORS]
            if model_case_ok(c) and not (stale and uses(c.expr, stale))]
    run_model(run, allc)
    lap("model")
    for c in script_cases:
        run.count(); run.dist("stream.script")
    for c in allc:
        if c.verdict == "discard":
            run.discard((c.status or "?").split(":")[0])
        elif c.verdict == "agree":
            run.cov["traces_validated_against_impl"] += 1
    disagreements(run, allc, explained, streams)

    # ---- model, rounding-sensitive strata: operator semantics Pat/Ieee.v (round to nearest even)
    fpc = [c for c in fp_cases if model_case_ok(c)]
    with ieee_model():
        run_model(run, fpc, chunk=100)
        for c in fpc:
            if c.verdict == "discard":
                run.discard("ieee-" + (c.status or "?").split(":")[0])
            elif c.verdict == "agree":
                run.cov["traces_validated_against_impl"] += 1
                run.cov["traces_validated_with_rounding_model"] = run.cov.get("traces_validated_with_rounding_model", 0) + 1
        disagreements(run, fpc, explained, streams)
    lap("model-ieee")

    # ---- model, special values: (1) the element-wise tables against IeeeSpecial.xelem, (2) the expressions through
    # the shared pattern model with the operator semantics IeeeSpecial.binop_sp
    rows, codes_of = run_grid_model(run, sp_grid)
    n_el = n_ok = n_decl = 0
    for c in rows:
        codes = codes_of[id(c)]
        n_el += len(codes); n_ok += codes.count(0); n_decl += codes.count(2)
        if 1 in codes and id(c) not in explained:
            j = codes.index(1)
            m = c.meta
            run.violation({"kind": "correspondence", "site": "element-wise table, operator %s (%s)" % (m["sym"], m["form"])}, {
                "broken": "correspondence Pat/IeeeSpecial.v (xelem / xelem_and / xelem_abs) vs isobar/pattern/core.py on special "
                          "operand values: the C08_special_* theorems of Props/C08.v no longer speak about this code",
                "case": {"expr": to_source(c.expr), "expr_json": to_json(c.expr), "ops": [list(o) for o in c.ops]},
                "element": j, "operands": [repr(m["xs"][j]), repr(m["ys"][j])], "observed": c.obs_pretty(),
                "python": replay_snippet(c.expr, c.ops)}, found_input=True)
    run.cov["special_table_elements"] = n_el
    run.cov["special_table_elements_agreeing_with_model"] = n_ok
    run.cov["special_table_elements_model_declines"] = n_decl
    run.cov["traces_validated_against_impl"] += sum(1 for c in rows if 1 not in codes_of[id(c)] and 0 in codes_of[id(c)])
    lap("model-special-table")
    spc = [c for c in sp_cases if model_case_ok(c)]
    with_abs = [c for c in spc if not c.status and abs_meets_special(c, streams)]
    for c in with_abs:
        run.discard("special-abs-of-nan-or-inf (shared model has no special abs; table only)")
    skip = {id(c) for c in with_abs}
    spc = [c for c in spc if id(c) not in skip]
    with special_model():
        run_model(run, spc, chunk=100)
        for c in spc:
            if c.verdict == "discard":
                run.discard("special-" + (c.status or "?").split(":")[0])
            elif c.verdict == "agree":
                run.cov["traces_validated_against_impl"] += 1
                run.cov["traces_validated_with_special_model"] = run.cov.get("traces_validated_with_special_model", 0) + 1
        disagreements(run, spc, explained, streams)
    lap("model-special")
    run.cov["rule"] = ("one case = one operator expression (Python source text) and its next() outputs up to the end; "
                       "non-trivial = the expression produced at least one value; distinct by expression text")
    run.cov["strata"] = ("16 operator symbols x {pp, ps, sp} x {int, float, mixed, rests, bool} x {equal, left-shorter, right-shorter, empty}; "
                         "raising operands; unary; nested depth 2-5; non-literal operand patterns; helper scripts; "
                         "rounding-sensitive: two-operator chains (%d operator pairs x 4 written forms x %d value themes) and nested "
                         "trees depth 2-5 per operator family, scalars at every level, floats compared bit-for-bit; "
                         "special IEEE values (NaN, +-inf, overflow): element-wise tables of every operator class / & / abs / "
                         "neg over all ordered pairs of a %d-value pool in the forms ctor, pp, ps, sp; singles, two-operator "
                         "chains (%d pairs x 4 forms) and nested trees over the themes special / overflow"
                         % (len(CHAIN_PAIRS), len(FP_THEMES), len(SP_POOL), len(SP_CHAIN_PAIRS)))


def disagreements(run, allc, explained, streams):
    """model and implementation disagree on a case the oracle accepted: shrink, judge the shrunk case, else report"""
    bad = [c for c in allc if c.verdict == "disagree" and id(c) not in explained]
    if os.environ.get("C08_DEBUG"):
        for c in bad:
            sys.stderr.write("DISAGREE %s %s\n  obs %s\n  model %s\n" % (c.tag, to_source(c.expr), c.obs_pretty(), model_trace(run, c)))
    seen = set()
    for c in bad[:3]:
        small = shrink(run, c, still_bad=lambda k: k.verdict == "disagree" and well_formed(k.expr), rounds=4)
        sig = {"kind": "correspondence", "site": "operator %s (%s)" % root_sig(small.expr)}
        if json.dumps(sig) in seen:
            continue
        seen.add(json.dumps(sig))
        dev = None
        try:
            run_impl8(run, [small], shards=1)
            if not small.status:
                dev = judge(small, streams)
        except CannotJudge:
            pass
        if dev is not None:
            report(run, small, dev, streams)
            continue
        run.violation(sig, {
            "broken": "correspondence Pat/Step.v (step of PBinOp/PAnd/PAbs, Pat/Dunder.v; operator semantics %s) vs "
                      "isobar/pattern/core.py: the theorems of Props/C08.v no longer speak about this code"
                      % ("Pat/Ieee.v binop_ieee" if _pc.HEADER is IEEE_HEADER else
                         "Pat/IeeeSpecial.v binop_sp" if _pc.HEADER is SPECIAL_HEADER else "Pat/Val.v binop"),
            "case": {"expr": to_source(small.expr), "expr_json": to_json(small.expr), "ops": [list(o) for o in small.ops]},
            "observed": small.obs_pretty(), "model": model_trace(run, small),
            "python": replay_snippet(small.expr, small.ops)}, found_input=False)


def exact_elem(x, i):
    """the i-th value of an expression over literal leaves in exact rational arithmetic (+ - * / only), or None"""
    if isinstance(x, Infix) and x.op in ("+", "-", "*", "/"):
        a, b = exact_elem(x.lhs, i), exact_elem(x.rhs, i)
        if a is None or b is None or (x.op == "/" and b == 0):
            return None
        return PYOP[x.op](a, b)
    if isinstance(x, E) and is_literal(x) and x.cls == "PSequence":
        xs, rep = x.args
        v = xs[i % len(xs)] if xs and i < len(xs) * rep else None
    elif is_pat(x):
        return None
    else:
        v = x
    if isinstance(v, (int, float)) and (type(v) is not float or math.isfinite(v)):
        return Fraction(v)
    return None


def rounding_visible(c):
    """measured, for the evidence: some output of the case is a float that differs from the exact rational value
    of the expression, i.e. the case can tell level-by-level rounding from any other evaluation order"""
    for i, o in enumerate(c.obs[1:]):
        if isinstance(o, dict) and isinstance(o.get("y"), dict) and "f" in o["y"]:
            try:
                q = exact_elem(c.expr, i)
            except (OverflowError, ZeroDivisionError):
                q = None
            if q is not None and isinstance(o["y"]["f"], list) and q != Fraction(*o["y"]["f"]):
                return True
    return False


def uses(x, classes):
    return any(isinstance(n, E) and n.cls in classes for _, n in nodes(x))


def report(run, c, dev, streams, extra_sig=None, operand_only=False):
    sym, form = root_sig(c.expr)
    what = "constructor" if dev["index"] == "constructor" else \
        "length" if "stop" in (dev["expected"], dev["observed"]) or dev["expected"].startswith("StopIteration") else \
        "rest" if dev["expected"] == "value null" or dev["observed"] == "value null" else \
        "exception" if dev["expected"].startswith("raise") or dev["observed"].startswith("raise") else "value"
    # the smallest failing sub-expression names the operator
    culprit = c
    run._c08_reports = getattr(run, "_c08_reports", 0) + 1
    if run._c08_reports > 60:
        return
    for path, n in (() if run._c08_reports > 4 else sorted(nodes(c.expr), key=lambda pn: -len(pn[0]))):
        if path and is_pat(n) and depth_of(n) >= 1:
            sub = Case(n, c.ops, c.tag)
            try:
                run_impl8(run, [sub], shards=1)
                if not sub.status and judge(sub, streams, operand_only) is not None:
                    culprit = sub
                    break
            except (CannotJudge, CheckError):
                pass
    if culprit is not c:
        dev = judge(culprit, streams, operand_only)
        sym, form = root_sig(culprit.expr)
    run.violation({"kind": "elementwise", "op": sym, "form": form, "what": what, **(extra_sig or {})}, {
        "case": {"expr": to_source(culprit.expr), "expr_json": to_json(culprit.expr), "ops": [list(o) for o in culprit.ops]},
        "element": dev["index"], "expected": dev["expected"], "observed": dev["observed"],
        "observed_outputs": culprit.obs_pretty(),
        "python": replay_snippet(culprit.expr, culprit.ops)})


def replay(run, doc):
    case = doc.get("case", {})
    if "expr_json" not in case:
        print("replay: no concrete case recorded (%s)" % doc.get("broken", "?"))
        return 1
    c = Case(from_json(case["expr_json"]), [tuple(o) for o in case["ops"]])
    leaves = {}
    for _, n in nodes(c.expr):
        if isinstance(n, E) and n.cls not in CLS2SYM and n.cls != "PAbs":
            leaves.setdefault(to_source(n), n)
    leaf_cases = [Case(x, [("next", 0)] * NEXTS, "leaf") for x in leaves.values()]
    run_impl8(run, [c] + leaf_cases, shards=1)
    streams = {to_source(l.expr): l.obs[1:] for l in leaf_cases if l.obs}
    try:
        dev = judge(c, streams)
    except CannotJudge as e:
        print("replay: cannot judge (%s)" % e)
        return 2
    print("expression:", to_source(c.expr))
    print("observed:  ", c.obs_pretty())
    if dev:
        print("REPLAY-FAILS: element %s: expected %s, observed %s" % (dev["index"], dev["expected"], dev["observed"]))
        print("VIOLATION property=C08 replay=(replayed)")
        return 1
    print("replay: the property holds on this case")
    return 0

"""C08 — arithmetic and comparison operators apply element-wise.

Theorems: coq/Props/C08.v (element-wise law of every PBinOp class for ANY operator semantics, rests, ending,
reflected forms, &, unary minus, abs, nesting by induction on the expression).
Correspondence: operator expressions written with the Python operators (so the dunder dispatch is what is
exercised) are evaluated on the implementation and on the Coq model (Pat/Step.v through Pat/Dunder.v) and
the observation lists are compared inside Coq with typed equality.
Oracle: plain Python, from the property text: the i-th output is the Python operator applied to the i-th
values of the operand streams (operand streams of non-literal leaves are obtained by running a fresh
instance of the leaf on its own)."""
import operator
from pat_common import *

PROP = "C08"
META = {
 "engine": "P-pattern-algebra",
 "text": "Coq theorems (Props/C08.v, closed under the global context) prove, for an ARBITRARY operator semantics (a Section variable) and arbitrary operand objects of the pattern model: the i-th output of every PBinOp class is the operator applied to the i-th operand values, a rest on either side gives a rest, the output stops at the first index at which either operand stops (left operand first), & yields the conjunction of the truth values, -p is 0 - p_i and abs(p) is |p_i| with rests kept; what the Python operators build (dunder table incl. reflected forms) denotes the operator with the operands in the written order; and the law lifts to operator expression trees of any depth by induction. The model (Pat/Step.v, a clause-by-clause transcription of core.py) is tied to the repository on every run: operator expressions built through the Python operators for all 15 operators and &, -x, abs(x), pattern/scalar on either side, ints/floats/bools/rests, equal and unequal lengths, raising operands, nestings to depth 3 (5 % deeper) are run on both sides and compared inside Coq; an independent oracle applies Python's own operators to the operand streams and supplies the failing input.",
 "note": "Trusted: Coq kernel + VM; the harness; Val.binop as a description of CPython's arithmetic on the exact (dyadic) value domain - the C08 theorems do not depend on it (operator semantics is a Section variable), only the correspondence does; results outside that domain (non-dyadic floats, complex, huge ints) are judged by the oracle only and discarded from the model comparison. After the first exception the operand streams are no longer aligned (the left operand has advanced, the right has not): the law is judged up to and including the first StopIteration/exception.",
}

PYOP = {"+": operator.add, "-": operator.sub, "*": operator.mul, "/": operator.truediv, "//": operator.floordiv,
        "%": operator.mod, "**": operator.pow, "<<": operator.lshift, ">>": operator.rshift, "==": operator.eq,
        "!=": operator.ne, "<": operator.lt, ">": operator.gt, "<=": operator.le, ">=": operator.ge}
SYMS = list(PYOP) + ["&"]
CLS2SYM = {name: sym for name, (sym, _) in BINOPS.items()}
CLS2SYM["PAnd"] = "&"
SMALL_RHS = ("**", "<<", ">>")          # right operand kept small: Python would compute astronomically large ints
NEXTS = 14


# ---- oracle ----------------------------------------------------------------------------------------------
def apply_op(sym, a, b):
    """what the property demands of one element"""
    if sym == "&":
        return ("y", bool(a) and bool(b))
    if a is None or b is None:
        return ("y", None)
    try:
        return ("y", PYOP[sym](a, b))
    except Exception as e:
        return ("r", type(e).__name__)


class CannotJudge(Exception):
    pass


def elem(x, i, streams):
    """outcome of the i-th element of expression x: ("y", v) | "stop" | ("r", class name)"""
    if isinstance(x, Infix) or (isinstance(x, E) and x.cls in CLS2SYM and len(x.args) == 2):
        sym, l, r = (x.op, x.lhs, x.rhs) if isinstance(x, Infix) else (CLS2SYM[x.cls], x.args[0], x.args[1])
        a = elem(l, i, streams)
        if a == "stop" or a[0] == "r":
            return a
        b = elem(r, i, streams)
        if b == "stop" or b[0] == "r":
            return b
        return apply_op(sym, a[1], b[1])
    if isinstance(x, Unary) or (isinstance(x, E) and x.cls == "PAbs" and len(x.args) == 1):
        op, arg = (x.op, x.x) if isinstance(x, Unary) else ("abs", x.args[0])
        a = elem(arg, i, streams)
        if a == "stop" or a[0] == "r":
            return a
        if op == "neg":
            return apply_op("-", 0, a[1])
        if a[1] is None:
            return ("y", None)
        try:
            return ("y", abs(a[1]))
        except Exception as e:
            return ("r", type(e).__name__)
    if isinstance(x, E):
        if x.cls == "PSequence" and len(x.args) == 2 and isinstance(x.args[0], list) and type(x.args[1]) is int \
                and not any(is_pat(v) or isinstance(v, (tuple, list, dict)) for v in x.args[0]):
            xs, rep = x.args
            return ("y", xs[i % len(xs)]) if xs and i < len(xs) * rep else "stop"
        if x.cls == "PConstant" and len(x.args) == 1 and not is_pat(x.args[0]) and not isinstance(x.args[0], (tuple, list, dict)):
            return ("y", x.args[0])
        s = streams.get(to_source(x))
        if s is None or i >= len(s):
            raise CannotJudge(to_source(x))
        o = s[i]
        if o == "stop":
            return "stop"
        if "r" in o:
            return ("r", o["r"])
        return ("y", from_json(o["y"]))
    if is_pat(x) or isinstance(x, (tuple, list, dict)):
        raise CannotJudge(repr(x))
    return ("y", x)


def is_literal(x):
    if x.cls == "PSequence":
        return len(x.args) == 2 and isinstance(x.args[0], list) and type(x.args[1]) is int \
            and not any(is_pat(v) or isinstance(v, (tuple, list, dict)) for v in x.args[0])
    return x.cls == "PConstant" and len(x.args) == 1 and not is_pat(x.args[0]) and not isinstance(x.args[0], (tuple, list, dict))


def ctor_raises(x):
    """scalar & pattern: Pattern has no __rand__, so building the expression is a TypeError"""
    if isinstance(x, Infix):
        if x.op == "&" and not is_pat(x.lhs):
            return True
        return ctor_raises(x.lhs) or ctor_raises(x.rhs)
    if isinstance(x, Unary):
        return ctor_raises(x.x)
    if isinstance(x, E):
        return any(ctor_raises(a) for a in x.args)
    return False


def canon(o):
    """typed canonical text of an outcome (True, 1 and 1.0 are three different observations)"""
    if o == "stop":
        return "stop"
    if o[0] == "r":
        return "raise " + o[1]
    return "value " + json.dumps(value_to_json(o[1]), sort_keys=True)


def canon_obs(o):
    if o == "stop":
        return "stop"
    if "r" in o:
        return "raise " + o["r"]
    return "value " + json.dumps(o["y"], sort_keys=True)


def judge(case, streams):
    """None if the implementation's observations are what the property demands, else a dict describing
    the first deviation.  Judged: the constructor, then every next() up to and including the first
    StopIteration / exception; after a StopIteration no value may appear again."""
    obs = case.obs
    for _, n in nodes(case.expr):                       # a non-literal operand whose own constructor raised
        if isinstance(n, E) and n.cls not in CLS2SYM and n.cls != "PAbs" and not is_literal(n) \
                and to_source(n) not in streams:
            raise CannotJudge(to_source(n))
    if ctor_raises(case.expr):
        if obs and canon_obs(obs[0]) == "raise TypeError":
            return None
        return {"index": "constructor", "expected": "raise TypeError", "observed": canon_obs(obs[0]) if obs else "nothing"}
    if not obs or canon_obs(obs[0]) != "value null":
        return {"index": "constructor", "expected": "an object", "observed": canon_obs(obs[0]) if obs else "nothing"}
    ended = None
    for i, o in enumerate(obs[1:]):
        if ended == "stop":
            if canon_obs(o).startswith("value"):
                return {"index": i, "expected": "StopIteration (an operand has ended)", "observed": canon_obs(o)}
            continue
        want = elem(case.expr, i, streams)
        if canon(want) != canon_obs(o):
            return {"index": i, "expected": canon(want), "observed": canon_obs(o)}
        if want == "stop":
            ended = "stop"
        elif want[0] == "r":
            break
    return None


# ---- generators ------------------------------------------------------------------------------------------
KINDS = ("int", "float", "mixed", "rests", "bool")


def gen_value(rng, kind, small=False, nonneg=False):
    lo, hi = (0, 4) if small else (-6, 12)
    if nonneg:
        lo = max(lo, 0)
    if kind == "float" or (kind == "mixed" and rng.random() < 0.5):
        return rng.randint(lo * 4, hi * 4) / 4.0
    if kind == "rests" and rng.random() < 0.35:
        return None
    if kind == "bool" and rng.random() < 0.5:
        return rng.random() < 0.5
    return rng.randint(lo, hi)


def gen_leaf(rng, kind, n, small=False, endless=False):
    xs = [gen_value(rng, kind, small) for _ in range(n)]
    if endless:
        return E("PSequence", xs, SYS_MAXSIZE)
    return E("PSequence", xs, 1 if (rng.random() < 0.8 or not xs) else 2)


def leaf_len(x):
    return len(x.args[0]) * x.args[1] if isinstance(x, E) else None


def single_cases(rng, per_cell):
    """every operator x {pattern o pattern, pattern o scalar, scalar o pattern} x value kinds x length relations"""
    out = []
    for sym in SYMS:
        small = sym in SMALL_RHS
        for form in ("pp", "ps", "sp"):
            for kind in KINDS:
                for rel in ("equal", "left-shorter", "right-shorter", "empty"):
                    if form != "pp" and rel in ("left-shorter", "right-shorter"):
                        continue
                    for _ in range(per_cell):
                        n = rng.randint(1, 6)
                        m = n if rel == "equal" else rng.randint(1, 5)
                        if rel == "left-shorter":
                            n, m = min(n, m + 1) - 1 or 1, max(n, m) + 1
                        elif rel == "right-shorter":
                            n, m = max(n, m) + 1, min(n, m + 1) - 1 or 1
                        elif rel == "empty":
                            n, m = (0, m) if rng.random() < 0.5 else (n, 0)
                        if form == "pp":
                            l, r = gen_leaf(rng, kind, n), gen_leaf(rng, kind, m, small)
                        elif form == "ps":
                            l, r = gen_leaf(rng, kind, n), gen_value(rng, kind, small)
                        else:
                            l, r = gen_value(rng, kind), gen_leaf(rng, kind, m, small)
                        out.append(Case(Infix(sym, l, r), [("next", 0)] * (max(n, m) + 3),
                                        "single", {"op": sym, "form": form, "kind": kind, "len": rel}))
    return out


def raising_cases(rng, n_cases):
    """operands on which the Python operator itself raises: compared by exception class"""
    out = []
    for _ in range(n_cases):
        sym = rng.choice(["/", "//", "%", "**", "<<", ">>", "<<", ">>", "+", "<", "-"])
        n = rng.randint(2, 5)
        xs = [gen_value(rng, "mixed" if sym in ("/", "//", "%", "**") else "int") for _ in range(n)]
        ys = [gen_value(rng, "int", small=True) for _ in range(n)]
        k = rng.randrange(n)
        if sym in ("/", "//", "%"):
            ys[k] = rng.choice([0, 0.0, False])
        elif sym == "**":
            xs[k], ys[k] = rng.choice([0, 0.0]), rng.choice([-1, -2, -1.0])
        elif sym in ("<<", ">>"):
            if rng.random() < 0.5:
                ys[k] = -rng.randint(1, 3)
            else:
                (xs if rng.random() < 0.5 else ys)[k] = rng.choice([1.5, 2.0])
        else:
            (xs if rng.random() < 0.5 else ys)[k] = rng.choice(["a", (1, 2)]) if rng.random() < 0.5 else None
            if sym == "<" and rng.random() < 0.5:
                xs[k], ys[k] = "a", 1
        form = rng.choice(["pp", "pp", "ps", "sp"])
        l, r = E("PSequence", xs, 1), E("PSequence", ys, 1)
        if form == "ps":
            r = ys[k]
        elif form == "sp":
            l = xs[k]
        if isinstance(l, (str, tuple)) or isinstance(r, (str, tuple)):
            continue                                     # str % pattern etc.: Python dispatches to str first
        out.append(Case(Infix(sym, l, r), [("next", 0)] * (n + 2), "raising", {"op": sym, "form": form}))
    return out


class TreeGen:
    def __init__(self, rng, gen):
        self.rng, self.gen = rng, gen
        self.opaque = []

    def operand(self, depth, small=False, allow_scalar=True, opaque_p=0.0):
        r = self.rng
        if small:                                        # exponents / shift counts: literal small numbers only
            if allow_scalar and r.random() < 0.4:
                return gen_value(r, r.choice(["int", "int", "bool"]), small=True)
            return gen_leaf(r, r.choice(["int", "int", "rests"]), r.randint(1, 6), small=True, endless=r.random() < 0.2)
        if depth <= 0 or r.random() < 0.25:
            k = r.random()
            if allow_scalar and k < 0.3:
                return gen_value(r, r.choice(KINDS))
            if k < 0.3 + opaque_p:
                x = self.gen.gen(r.choice([0, 0, 1]), fin=r.random() < 0.7)
                self.opaque.append(x)
                return x
            return gen_leaf(r, r.choice(KINDS), r.randint(0 if r.random() < 0.05 else 1, 6), endless=r.random() < 0.15)
        return self.tree(depth, opaque_p)

    def tree(self, depth, opaque_p=0.0):
        """an operator expression of the given depth (a pattern)"""
        r = self.rng
        k = r.random()
        if k < 0.12:
            return Unary(r.choice(["neg", "abs"]), self.pattern_operand(depth - 1, opaque_p))
        sym = r.choice(SYMS)
        small = sym in SMALL_RHS
        l = self.operand(depth - 1, opaque_p=opaque_p)
        rr = self.operand(depth - 1, small=small, opaque_p=opaque_p)
        if not is_pat(l) and not is_pat(rr):
            l = self.pattern_operand(depth - 1, opaque_p)
        if r.random() < 0.06:                            # the constructor called directly
            cls = [c for c, s in CLS2SYM.items() if s == sym][0]
            return E(cls, l, rr)
        return Infix(sym, l, rr)

    def pattern_operand(self, depth, opaque_p):
        return self.operand(depth, allow_scalar=False, opaque_p=opaque_p)


def depth_of(x):
    if isinstance(x, Infix):
        return 1 + max(depth_of(x.lhs), depth_of(x.rhs))
    if isinstance(x, Unary):
        return 1 + depth_of(x.x)
    if isinstance(x, E) and x.cls in CLS2SYM or isinstance(x, E) and x.cls == "PAbs":
        return 1 + max([depth_of(a) for a in x.args] or [0])
    return 0


def root_sig(x):
    if isinstance(x, Infix):
        return x.op, ("p" if is_pat(x.lhs) else "s") + ("p" if is_pat(x.rhs) else "s")
    if isinstance(x, Unary):
        return x.op, "p"
    if isinstance(x, E) and x.cls in CLS2SYM:
        return CLS2SYM[x.cls], "ctor"
    return getattr(x, "cls", "?"), "?"


def model_case_ok(c):
    """scalar & pattern raises when the EXPRESSION is evaluated by Python, before any isobar code runs:
    it has no image in the model and is judged by the oracle only"""
    return not ctor_raises(c.expr)


# ---- the check -------------------------------------------------------------------------------------------
def check(run):
    rng = run.rng
    thorough = run.tier == "thorough"
    sigs = run.impl("pat_impl", {"signatures": list(REGISTRY)})["signatures"]
    stale = {cls for cls, _ in check_registry(run, sigs)}
    for cls in sorted(stale):
        run.discard("registry:" + cls)
    run.cov["registry_mismatches"] = sorted(stale)

    gen = Gen(rng, None)
    tg = TreeGen(rng, gen)
    cases = single_cases(rng, 6 if thorough else 1)
    cases += raising_cases(rng, 3000 if thorough else 260)
    n_nested = 40000 if thorough else 2000
    for i in range(n_nested):
        d = 2 + (i % 2) if rng.random() >= 0.05 else rng.choice([4, 5])
        e = tg.tree(d, opaque_p=0.25 if i % 4 == 0 else 0.0)
        cases.append(Case(e, [("next", 0)] * NEXTS, "nested", {"depth": depth_of(e)}))
    for _ in range(300 if thorough else 60):
        x = gen_leaf(rng, rng.choice(KINDS), rng.randint(0, 6))
        cases.append(Case(Unary(rng.choice(["neg", "abs"]), x), [("next", 0)] * (leaf_len(x) + 3), "unary"))
    # a few scripts with helpers / reset / copies on operator expressions (model comparison only)
    script_cases = []
    for _ in range(2000 if thorough else 150):
        e = tg.tree(rng.choice([1, 2]))
        script_cases.append(Case(e, gen_ops(rng, False), "script"))

    # operand streams of the non-literal leaves: a fresh instance of the leaf, run on its own
    leaves = {}
    for x in tg.opaque:
        leaves.setdefault(to_source(x), x)
    leaf_cases = [Case(x, [("next", 0)] * NEXTS, "leaf") for x in leaves.values()]
    run_impl(run, cases + script_cases + leaf_cases)
    streams = {to_source(c.expr): c.obs[1:] for c in leaf_cases
               if not c.status and c.obs and canon_obs(c.obs[0]) == "value null"}

    # ---- oracle
    explained = set()
    for c in cases:
        run.count()
        sym, form = root_sig(c.expr)
        run.dist("op.%s" % sym); run.dist("form.%s" % form); run.dist("stream.%s" % c.tag)
        run.dist("depth.%d" % depth_of(c.expr))
        if c.tag == "single":
            run.dist("kind.%s" % c.meta["kind"]); run.dist("len.%s" % c.meta["len"])
        if c.status:
            run.discard("impl-" + c.status)
            continue
        try:
            dev = judge(c, streams)
        except CannotJudge:
            run.discard("oracle-no-operand-stream")
            continue
        run.cov["oracle_evaluations"] += len(c.obs)
        if len(c.obs) > 1 and canon_obs(c.obs[1]).startswith("value"):
            run.nontrivial(to_source(c.expr))
        if dev is not None:
            explained.add(id(c))
            report(run, c, dev, streams)
    run.sample({"expr": to_source(cases[len(cases) // 2].expr), "observed": cases[len(cases) // 2].obs_pretty()})

    # ---- model
    allc = [c for c in cases + script_cases if model_case_ok(c) and not (stale and uses(c.expr, stale))]
    run_model(run, allc)
    for c in script_cases:
        run.count(); run.dist("stream.script")
    for c in allc:
        if c.verdict == "discard":
            run.discard((c.status or "?").split(":")[0])
        elif c.verdict == "agree":
            run.cov["traces_validated_against_impl"] += 1
    bad = [c for c in allc if c.verdict == "disagree" and id(c) not in explained]
    seen = set()
    for c in bad[:3]:
        small = shrink(run, c, rounds=4)
        sig = {"kind": "correspondence", "site": "operator %s (%s)" % root_sig(small.expr)}
        if json.dumps(sig) in seen:
            continue
        seen.add(json.dumps(sig))
        dev = None
        try:
            dev = judge(small, streams)
        except CannotJudge:
            pass
        if dev is not None:
            report(run, small, dev, streams)
            continue
        run.violation(sig, {
            "broken": "correspondence Pat/Step.v (step of PBinOp/PAnd/PAbs, Pat/Dunder.v) vs isobar/pattern/core.py: "
                      "the theorems of Props/C08.v no longer speak about this code",
            "case": {"expr": to_source(small.expr), "expr_json": to_json(small.expr), "ops": [list(o) for o in small.ops]},
            "observed": small.obs_pretty(), "model": model_trace(run, small),
            "python": replay_snippet(small.expr, small.ops)}, found_input=False)
    run.cov["rule"] = ("one case = one operator expression (Python source text) and its next() outputs up to the end; "
                       "non-trivial = the expression produced at least one value; distinct by expression text")
    run.cov["strata"] = "16 operator symbols x {pp, ps, sp} x {int, float, mixed, rests, bool} x {equal, left-shorter, right-shorter, empty}; raising operands; unary; nested depth 2-5; non-literal operand patterns; helper scripts"


def uses(x, classes):
    return any(isinstance(n, E) and n.cls in classes for _, n in nodes(x))


def report(run, c, dev, streams):
    sym, form = root_sig(c.expr)
    what = "constructor" if dev["index"] == "constructor" else \
        "length" if "stop" in (dev["expected"], dev["observed"]) or dev["expected"].startswith("StopIteration") else \
        "rest" if dev["expected"] == "value null" or dev["observed"] == "value null" else \
        "exception" if dev["expected"].startswith("raise") or dev["observed"].startswith("raise") else "value"
    # the smallest failing sub-expression names the operator
    culprit = c
    run._c08_reports = getattr(run, "_c08_reports", 0) + 1
    if run._c08_reports > 60:
        return
    for path, n in (() if run._c08_reports > 4 else sorted(nodes(c.expr), key=lambda pn: -len(pn[0]))):
        if path and is_pat(n) and depth_of(n) >= 1:
            sub = Case(n, c.ops, c.tag)
            try:
                run_impl(run, [sub], shards=1)
                if not sub.status and judge(sub, streams) is not None:
                    culprit = sub
                    break
            except (CannotJudge, CheckError):
                pass
    if culprit is not c:
        dev = judge(culprit, streams)
        sym, form = root_sig(culprit.expr)
    run.violation({"kind": "elementwise", "op": sym, "form": form, "what": what}, {
        "case": {"expr": to_source(culprit.expr), "expr_json": to_json(culprit.expr), "ops": [list(o) for o in culprit.ops]},
        "element": dev["index"], "expected": dev["expected"], "observed": dev["observed"],
        "observed_outputs": culprit.obs_pretty(),
        "python": replay_snippet(culprit.expr, culprit.ops)})


def replay(run, doc):
    case = doc.get("case", {})
    if "expr_json" not in case:
        print("replay: no concrete case recorded (%s)" % doc.get("broken", "?"))
        return 1
    c = Case(from_json(case["expr_json"]), [tuple(o) for o in case["ops"]])
    leaves = {}
    for _, n in nodes(c.expr):
        if isinstance(n, E) and n.cls not in CLS2SYM and n.cls != "PAbs":
            leaves.setdefault(to_source(n), n)
    leaf_cases = [Case(x, [("next", 0)] * NEXTS, "leaf") for x in leaves.values()]
    run_impl(run, [c] + leaf_cases, shards=1)
    streams = {to_source(l.expr): l.obs[1:] for l in leaf_cases if l.obs}
    try:
        dev = judge(c, streams)
    except CannotJudge as e:
        print("replay: cannot judge (%s)" % e)
        return 2
    print("expression:", to_source(c.expr))
    print("observed:  ", c.obs_pretty())
    if dev:
        print("REPLAY-FAILS: element %s: expected %s, observed %s" % (dev["index"], dev["expected"], dev["observed"]))
        print("VIOLATION property=C08 replay=(replayed)")
        return 1
    print("replay: the property holds on this case")
    return 0

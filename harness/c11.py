"""C11 — stochastic patterns are reproducible when seeded, isolated, and stay in range.
Theorems: coq/Props/C11.v over the model coq/Pat/Chance.v (each class a total function of arguments, state and an
oracle generator).  Correspondence: every script is run on the real class with a recording random.Random substituted
for pattern.rng; the recorded primitive draws are replayed through the model inside Coq and outputs and the sequence
of generator requests are compared.  Oracle (independent, plain Python): reset / re-seed / fresh-instance equality,
isolation from other patterns and from the global generator, ranges and supports, weighted frequencies (6 sigma)."""
from common import *
import math, subprocess
from concurrent.futures import ThreadPoolExecutor

PROP = "C11"
META = {
 "engine": "P-patterns (stochastic sub-engine Pat/Chance.v)",
 "text": "Coq theorems (Props/C11.v, closed under the global context) over an executable model of PWhite, PBrown, PCoin, PFlipFlop, PSkip, PRandomWalk, PChoice, PSample, PShuffle, PShuffleInput, PSwitchOne, PMarkov and util.normalize/windex, in which the random generator is an oracle (Section variables r_unit, r_below, r_seed): reset and re-seed rewind state and stream to those of a fresh instance, a pattern's outputs in a world of several patterns and the global generator under ANY schedule equal its outputs alone (isolation; hence equal instances agree), and for ALL generator behaviours and all steps the outputs stay in range / support (noise in [min,max], finite length exact, brownian steps bounded and clamped, walk moves between min and max, choices from the values, samples without replacement, shuffles permutations, skips only rests, Markov only learned transitions); the weighted index i is chosen exactly when cum(i) <= u*W < cum(i+1), an interval of length w_i/W. The model is tied to the repository on every run: each script (next/reset/seed interleavings) is executed on the real class with a recording random.Random substituted for pattern.rng, the recorded draws are replayed through the model inside Coq (vm_compute) and outputs and generator requests are compared exactly; an independent oracle checks reproducibility, isolation (world schedules, random.getstate()), supports and frequencies on the implementation directly. Copies used side by side (Pat/ChanceCopy.v): for every machine - a stochastic pattern nested in deterministic wrappers included - and every interleaving of next/reset/seed on an original and its copies, copy() and global generator calls, a member no copy overwrites produces what it produces alone (C11_copy_isolation), a seeded original equals any other instance with the same arguments and seed whatever happens to its copies, and a copy continues from its source's state; families are run on the implementation with a recording generator that deepcopy duplicates, judged against fresh solo instances and replayed through the model. Seeded stochastic patterns nested inside seeded stochastic patterns with other seeds (Pat/SeededNest.v, Pat/SeededNestIso.v): after any history of next / reset / seed of the parent / seed of a child, every child is the child alone under its own operations and has handed the parent the outputs of that stand-alone child, no seed of the parent or of another child ever reaches it, seeding a child leaves the parent alone, and PSkip passes only values it pulled; nests seeded inner-first, outer-first and re-seeded later are run on the implementation and must equal the composition of stand-alone instances with the same arguments and seeds, with the skip / shuffle-input supports checked against the stand-alone source and the outer machine replayed over the stand-alone inner's sequence inside Coq. Seed values of every kind random.seed accepts (Pat/ChanceSeed.v: int, negative, huge, bool, float, str, bytes, bytearray reduced by seed_key as CPython does, SHA-512 as data): reproducibility theorems for every kind, same key => same sequence, independence of the surrounding world (the image of the interpreter process); the same scripts are run in four interpreters with different PYTHONHASHSEED and must agree, the model's key is compared with Python's and with the implementation (a value and its int key give the same outputs), and draws recorded in one interpreter are replayed through the model against the outputs of another.",
 "note": "Trusted / modelled-not-verified: the Mersenne Twister and random.Random's derived methods (uniform, randint, choice, shuffle reduce to random() and _randbelow(n) as in CPython 3.12); its uniformity (frequencies are a 6-sigma statistical validation, the theorem is the interval-length fact). Floats are exact rationals in the model; float outputs (PWhite/PBrown float mode) are compared by a proven-sound enclosure |impl - model| <= eps, weighted choices whose draw lies within 2^-30 of a boundary are discarded. PArpeggiator(RANDOM), PRandomExponential, PRandomImpulseSequence, regular PCoin/PSkip are covered by the oracle only (no Coq model). seed(None) draws the new seed from the global generator by design and is out of scope. Object identity of a copy and the interpreter's string-hash salt have no image in the model (a copy is a key of the family world; no salt occurs in seed_key): covered by the oracle and the cross-process correspondence; SHA-512 enters as data computed by hashlib.",
}

TWO53 = 9007199254740992
HEADER = """From Isobar Require Import Base.Prelude Pat.Chance.
From Coq Require Import QArith.
Open Scope Z_scope.
Definition oq := option_eqb Z.eqb.
"""

FLOATS = [0.0, 0.5, 0.25, 0.1, 0.3, 0.75, 0.9, 1.0, 0.01, 0.99, 0.6180339887, 1e-3]


# ---------------------------------------------------------------------------------------------------
# encodings
# ---------------------------------------------------------------------------------------------------
def dec(e):
    """JSON-encoded implementation value -> python value (ints, floats, None, lists); other objects stay dicts"""
    if e is None:
        return None
    if "i" in e:
        return e["i"]
    if "f" in e:
        return e["f"]
    if "l" in e:
        return [dec(x) for x in e["l"]]
    return e


def res_term(ev, as_q=False):
    """Coq term of type res for an implementation event, or None if the value is outside the model's value universe"""
    if ev == "stop":
        return "Stop"
    if "x" in ev:
        return "Fail"
    v = ev["v"]
    if v is None:
        return "(Out ONone)"
    if "i" in v:
        return "(Out (OQ %s))" % qlit(v["i"]) if as_q else "(Out (OZ %s))" % zlit(v["i"])
    if "f" in v:
        return "(Out (OQ %s))" % qlit(v["f"])
    if "l" in v and all(x is not None and "i" in x for x in v["l"]):
        return "(Out (OL %s))" % zlist([x["i"] for x in v["l"]])
    return None


def qopt(l):
    return "None" if l is None else "(Some %s)" % lst([qlit(x) for x in l])


def machine_term(spec):
    """(Coq term of the machine, eps or None)"""
    c, a = spec["cls"], spec["args"]
    b = lambda x: "true" if x else "false"
    if c == "PWhite":
        isf = type(a["min"]) is float
        eps = None
        if isf:
            eps = Fraction(abs(a["min"])) + Fraction(abs(a["max"])) + 1
        return "(white replay rp_unit %s %s %s %s)" % (b(isf), qlit(a["min"]), qlit(a["max"]), zlit(a.get("length", 0))), eps
    if c == "PBrown":
        mn, mx = a.get("min", -sys.maxsize), a.get("max", sys.maxsize)
        if type(a["step"]) is float:
            eps = Fraction(abs(a["init"])) + 4 * Fraction(abs(a["step"])) + 1
            if "min" in a:
                eps += Fraction(abs(mn)) + Fraction(abs(mx))
            return "(brown_f replay rp_unit %s %s %s %s)" % (qlit(a["init"]), qlit(a["step"]), qlit(mn), qlit(mx)), eps
        return "(brown replay rp_below %s %s %s %s)" % (zlit(a["init"]), zlit(a["step"]), zlit(mn), zlit(mx)), None
    if c == "PCoin":
        return "(coin replay rp_unit %s)" % qlit(a["p"]), None
    if c == "PFlipFlop":
        return "(flipflop replay rp_unit %s %s %s)" % (zlit(a["init"]), qlit(a["p_on"]), qlit(a["p_off"])), None
    if c == "PSkip":
        return "(skip replay rp_unit %s %s)" % (lst([optlit(x, zlit) for x in a["input"]]), qlit(a["play"])), None
    if c == "PRandomWalk":
        return "(walk replay rp_unit rp_below %s %s %s %s)" % (zlist(a["values"]), zlit(a["min"]), zlit(a["max"]), b(a.get("wrap", True))), None
    if c == "PChoice":
        return "(pchoice replay rp_unit rp_below %s %s)" % (zlist(a["values"]), qopt(a.get("weights"))), None
    if c == "PSample":
        return "(psample replay rp_unit rp_below %s %s %s)" % (zlist(a["values"]), zlit(a["count"]), lst([qlit(x) for x in (a.get("weights") or [])])), None
    if c == "PShuffle":
        return "(pshuffle replay rp_below %s %s)" % (zlist(a["values"]), zlit(sys.maxsize if a.get("repeats") is None else a["repeats"])), None
    if c == "PShuffleInput":
        return "(shuffle_input replay rp_below %s %s)" % (zlist(a["input"]), zlit(a["every"])), None
    if c == "PSwitchOne":
        return "(switch_one replay rp_below %s %s)" % (zlist(a["input"]), zlit(a["length"])), None
    if c == "PMarkov":
        if "seq" in a:
            return "(markov replay rp_below (learn %s))" % zlist(a["seq"]), None
        return "(markov replay rp_below %s)" % lst(["(%s, %s)" % (zlit(k), zlist(v)) for k, v in a["nodes"]]), None
    return None, None


def ctor(spec):
    """python expression constructing the pattern (for replays)"""
    c, a = spec["cls"], spec["args"]
    seq = lambda l: "iso.PSequence(%r, 1)" % (l,)
    if c == "PWhite":
        return "iso.PWhite(%r, %r, %r)" % (a["min"], a["max"], a.get("length", 0))
    if c == "PBrown":
        return "iso.PBrown(%r, %r%s)" % (a["init"], a["step"], ", %r, %r" % (a["min"], a["max"]) if "min" in a else "")
    if c == "PCoin":
        return "iso.PCoin(%r, %r)" % (a["p"], a.get("regular", False))
    if c == "PRandomWalk":
        return "iso.PRandomWalk(%r, %r, %r, %r)" % (a["values"], a["min"], a["max"], a.get("wrap", True))
    if c == "PChoice":
        return "iso.PChoice(%r, %r)" % (a["values"], a.get("weights"))
    if c == "PSample":
        return "iso.PSample(%r, %r, %r)" % (a["values"], a["count"], a.get("weights"))
    if c == "PShuffle":
        return "iso.PShuffle(%r%s)" % (a["values"], "" if a.get("repeats") is None else ", %r" % a["repeats"])
    if c == "PShuffleInput":
        return "iso.PShuffleInput(%s, %r)" % (seq(a["input"]), a["every"])
    if c == "PSkip":
        return "iso.PSkip(%s, %r, %r)" % (seq(a["input"]), a["play"], a.get("regular", False))
    if c == "PFlipFlop":
        return "iso.PFlipFlop(%r, %r, %r)" % (a["init"], a["p_on"], a["p_off"])
    if c == "PSwitchOne":
        return "iso.PSwitchOne(%s, %r)" % (seq(a["input"]), a["length"])
    if c == "PMarkov":
        return "iso.PMarkov(%r)" % (a["seq"] if "seq" in a else {k: v for k, v in a["nodes"]},)
    if c == "PRandomExponential":
        return "iso.PRandomExponential(%r, %r)" % (a["min"], a["max"])
    if c == "PRandomImpulseSequence":
        return "iso.PRandomImpulseSequence(%r, %r)%s" % (a["p"], a["length"], ".every(%r, %r)" % (a["every"], a["action"]) if a.get("every") else "")
    if c == "PArpeggiator":
        return "iso.PArpeggiator(%r, iso.PArpeggiator.RANDOM, %r)" % (a["notes"], a.get("loop", False))
    return "?"


def snippet(spec, seed, ops):
    lines = ["import isobar as iso, random", "p = %s.seed(%d)" % (ctor(spec), seed), "out = []"]
    k = 0
    i = 0
    while i < len(ops):
        if ops[i] == "next":
            j = i
            while j < len(ops) and ops[j] == "next":
                j += 1
            lines.append("out.append(p.nextn(%d))" % (j - i))
            i = j
        elif ops[i] == "reset":
            lines.append("p.reset()")
            i += 1
        else:
            lines.append("p.seed(%d)" % ops[i][1])
            i += 1
    lines.append("print(out)")
    return "; ".join(lines)


# ---------------------------------------------------------------------------------------------------
# generators
# ---------------------------------------------------------------------------------------------------
def rfloat(rng):
    if rng.random() < 0.5:
        return rng.choice(FLOATS)
    return round(rng.random(), rng.choice([1, 2, 3, 6]))


def gen_spec(rng, cls):
    """mostly-valid arguments with a small stream of edge / invalid ones"""
    ri = rng.randint
    ints = lambda n, lo=-9, hi=20: [ri(lo, hi) for _ in range(n)]
    distinct = lambda n: rng.sample(range(-9, 40), n)
    edge = rng.random() < 0.08
    if cls == "PWhite":
        length = rng.choice([0, 0, ri(1, 8)])
        if rng.random() < 0.5:
            lo = ri(-50, 50)
            hi = lo if rng.random() < 0.1 else lo + ri(0, 60)
            return {"min": lo, "max": hi, "length": length}
        lo = round(rng.uniform(-100, 100), rng.choice([0, 1, 3, 8]))
        hi = lo if rng.random() < 0.05 else lo + round(rng.uniform(0, 100), rng.choice([0, 2, 5]))
        return {"min": float(lo), "max": float(hi), "length": length}
    if cls == "PBrown":
        if rng.random() < 0.55:
            a = {"init": ri(-10, 10), "step": -1 if edge else ri(0, 5)}
            if rng.random() < 0.75:
                lo = ri(-12, 8)
                a["min"], a["max"] = lo, lo + ri(0, 14)
            return a
        a = {"init": float(round(rng.uniform(-5, 5), 2)), "step": float(rfloat(rng) * rng.choice([1, 1, 3]))}
        if rng.random() < 0.75:
            lo = round(rng.uniform(-6, 4), 2)
            a["min"], a["max"] = float(lo), float(lo + round(rng.uniform(0, 8), 2))
        return a
    if cls == "PCoin":
        return {"p": float(rfloat(rng))}
    if cls == "PFlipFlop":
        return {"init": ri(0, 1), "p_on": float(rfloat(rng)), "p_off": float(rfloat(rng))}
    if cls == "PSkip":
        n = ri(0, 20)
        return {"input": [None if rng.random() < 0.15 else ri(-9, 60) for _ in range(n)], "play": float(rfloat(rng))}
    if cls == "PRandomWalk":
        n = ri(1, 8)
        lo = ri(0, 3)
        hi = lo - 1 if edge else lo + ri(0, 3)
        return {"values": distinct(n) if rng.random() < 0.8 else ints(n), "min": lo, "max": hi, "wrap": rng.random() < 0.8}
    if cls in ("PChoice", "PSample"):
        n = 0 if (edge and rng.random() < 0.5) else ri(1, 7)
        vals = distinct(n) if rng.random() < 0.8 else ints(n, 0, 4)
        w = None
        r = rng.random()
        if r < 0.6:
            kind = rng.choice(["int", "int", "float", "zeros", "allzero"] if not edge else ["allzero", "zeros", "short"])
            if kind == "int":
                w = [ri(1, 6) for _ in range(n)]
            elif kind == "float":
                w = [float(rng.choice([0.5, 0.25, 0.1, 1.0, 0.3, 2.5, 0.05])) for _ in range(n)]
            elif kind == "zeros":
                w = [rng.choice([0, 0, 1, 3]) for _ in range(n)]
            elif kind == "allzero":
                w = [0] * n
            else:
                w = [ri(1, 4) for _ in range(max(0, n - 1))]
        a = {"values": vals, "weights": w}
        if cls == "PSample":
            a["count"] = n + 1 if (edge and n < 7) else ri(0, n)
        return a
    if cls == "PShuffle":
        n = ri(0, 8) if edge else ri(1, 8)
        return {"values": distinct(n) if rng.random() < 0.8 else ints(n, 0, 3), "repeats": rng.choice([None, 1, 2, 3, 0 if edge else 2])}
    if cls == "PShuffleInput":
        return {"input": distinct(ri(0, 24)), "every": 0 if edge else ri(1, 6)}
    if cls == "PSwitchOne":
        return {"input": distinct(ri(0, 10)), "length": 0 if edge else ri(1, 6)}
    if cls == "PMarkov":
        if rng.random() < 0.5:
            return {"seq": [ri(0, 4) for _ in range(ri(0, 12))]}       # 0 is a legal state (scale degree 0)
        keys = rng.sample(range(0, 7), ri(0, 5))
        nodes = []
        for k in keys:
            succ = [rng.choice(keys + ([9] if rng.random() < 0.15 else [])) for _ in range(ri(0, 4) if rng.random() < 0.3 else ri(1, 4))]
            nodes.append([k, succ])
        return {"nodes": nodes}
    # oracle-only classes
    if cls == "PRandomExponential":
        if rng.random() < 0.5:
            lo = ri(1, 20)
            return {"min": lo, "max": lo + ri(0, 200)}
        lo = round(rng.uniform(0.1, 20), 2)
        return {"min": float(lo), "max": float(lo + round(rng.uniform(0, 100), 2))}
    if cls == "PRandomImpulseSequence":
        a = {"p": float(rfloat(rng)), "length": ri(2, 8)}
        if rng.random() < 0.6:
            a["every"] = ri(1, 6)
            a["action"] = rng.choice(["explore", "explore", "generate"])
        return a
    if cls == "PArpeggiator":
        return {"notes": distinct(ri(0, 6)), "loop": rng.random() < 0.4}
    if cls == "PCoinRegular":
        return {"p": float(rfloat(rng)), "regular": True}
    if cls == "PSkipRegular":
        n = ri(0, 20)
        return {"input": [ri(0, 60) for _ in range(n)], "play": float(rfloat(rng)), "regular": True}
    raise ValueError(cls)


MODELLED = ["PWhite", "PBrown", "PCoin", "PFlipFlop", "PSkip", "PRandomWalk", "PChoice", "PSample",
            "PShuffle", "PShuffleInput", "PSwitchOne", "PMarkov"]
ORACLE_ONLY = ["PRandomExponential", "PRandomImpulseSequence", "PArpeggiator", "PCoinRegular", "PSkipRegular"]
STATELESS = {"PCoin", "PChoice", "PSample", "PRandomExponential"}


def real_cls(c):
    return {"PCoinRegular": "PCoin", "PSkipRegular": "PSkip"}.get(c, c)


def gen_ops(rng, seeds):
    ops = []
    for _ in range(rng.randint(1, 4)):
        ops += ["next"] * rng.randint(0, 12)
        r = rng.random()
        if r < 0.4:
            ops.append("reset")
        elif r < 0.7:
            ops += [["seed", rng.choice(seeds)], "reset"]
        else:
            ops.append(["seed", rng.choice(seeds)])
    ops += ["next"] * rng.randint(1, 12)
    return ops


DYADIC = [0.0, 0.25, 0.5, 0.75, 1.0, 0.125]


def gen_forced_script(rng, cls):
    """script whose generator results are dictated: boundary draws (0, maximum, exactly the probability parameter, exactly
    0.5) mixed with random ones, fed to the implementation through a stub generator and to the model as data"""
    c = gen_script(rng, cls)
    a = c["spec"]["args"]
    for k in ("p", "play", "p_on", "p_off"):
        if k in a:
            a[k] = float(rng.choice(DYADIC))
    if cls == "PBrown" and type(a["step"]) is float:
        a["step"] = float(rng.choice([0.5, 1.0, 0.25]))
    marks = [0, -1, TWO53 // 2, TWO53 // 2 - 1] + [int(Fraction(a[k]) * TWO53) for k in ("p", "play", "p_on", "p_off") if k in a]
    marks += [m - 1 for m in marks if m > 0]
    c["forced"] = [rng.choice(marks) if rng.random() < 0.6 else rng.randrange(TWO53) for _ in range(48)]
    c["gen"] = cls
    return c


def gen_script(rng, cls):
    seeds = [rng.randrange(2 ** 31) for _ in range(3)]
    spec = {"cls": real_cls(cls), "args": gen_spec(rng, cls)}
    ops = gen_ops(rng, seeds)
    return {"kind": "script", "gen": cls, "spec": spec, "seed": seeds[0], "ops": ops,
            "refs": {"seeds": seeds, "n": sum(1 for o in ops if o == "next")}}


# ---------------------------------------------------------------------------------------------------
# independent oracle: judges implementation results from the property text alone
# ---------------------------------------------------------------------------------------------------
def is_int(v):
    return type(v) is int


def support_failures(spec, evs, fresh):
    """evs: events of consecutive next() calls since the pattern was in its initial state (fresh=True) or any
    contiguous run (fresh=False).  Returns a list of (kind, detail)."""
    c, a = spec["cls"], spec["args"]
    bad = []
    vals = [dec(e["v"]) for e in evs if isinstance(e, dict) and "v" in e]
    nstop = next((i for i, e in enumerate(evs) if e == "stop"), None)
    if c == "PWhite":
        lo, hi = a["min"], a["max"]
        for v in vals:
            if type(v) is not type(lo) or not (lo <= v <= hi):
                bad.append(("white-out-of-range", "%r not in [%r, %r] / wrong type" % (v, lo, hi)))
                break
        L = a.get("length", 0)
        if fresh and L > 0:
            got = nstop if nstop is not None else len(evs)
            if (nstop is not None and got != L) or (nstop is None and got > L):
                bad.append(("white-length", "length=%d but %d values before StopIteration" % (L, got)))
        if fresh and L == 0 and nstop is not None:
            bad.append(("white-length", "endless pattern stopped after %d" % nstop))
    elif c == "PBrown":
        st = a["step"]
        if st >= 0:
            lo, hi = a.get("min", -sys.maxsize), a.get("max", sys.maxsize)
            tol = 0 if type(st) is int else abs(st) * 2.0 ** -40 + 2.0 ** -40
            for i, v in enumerate(vals):
                if fresh and i == 0:
                    if v != a["init"]:
                        bad.append(("brown-initial", "first value %r is not initial_value %r" % (v, a["init"])))
                    continue
                if i > 0 and not (lo <= v <= hi):
                    bad.append(("brown-out-of-bounds", "%r not in [%r, %r]" % (v, lo, hi)))
                    break
                if i > 0:
                    p = vals[i - 1]
                    pc = min(max(p, lo), hi)
                    # the step is taken from the previous value, then clamped: the new value lies between
                    # clamp(p - step) and clamp(p + step)
                    if not (min(max(p - st, lo), hi) - tol <= v <= min(max(p + st, lo), hi) + tol):
                        bad.append(("brown-step-too-large", "%r -> %r with step %r" % (p, v, st)))
                        break
    elif c in ("PCoin", "PFlipFlop"):
        for v in vals:
            if v not in (0, 1) or not is_int(v):
                bad.append(("not-binary", "%r" % (v,)))
                break
        if c == "PCoin" and not a.get("regular"):
            if a["p"] == 0.0 and any(v == 1 for v in vals):
                bad.append(("coin-probability-0", "PCoin(0.0) produced 1"))
            if a["p"] == 1.0 and any(v == 0 for v in vals):
                bad.append(("coin-probability-1", "PCoin(1.0) produced 0"))
        if c == "PFlipFlop" and fresh:
            prev = a["init"]
            for v in vals:
                if prev == 0 and v == 1 and a["p_on"] == 0.0:
                    bad.append(("flipflop-p_on-0", "switched on with p_on = 0"))
                if prev == 1 and v == 0 and a["p_off"] == 0.0:
                    bad.append(("flipflop-p_off-0", "switched off with p_off = 0"))
                prev = v
    elif c == "PSkip":
        if fresh:
            inp = a["input"]
            for i, v in enumerate(vals):
                if i >= len(inp) or (v is not None and v != inp[i]):
                    bad.append(("skip-changes-value", "output %d is %r, input %r" % (i, v, inp[i] if i < len(inp) else "<exhausted>")))
                    break
            if nstop is not None and nstop != len(inp):
                bad.append(("skip-length", "stopped after %d of %d inputs" % (nstop, len(inp))))
            if nstop is None and len(vals) == len(evs) and not a.get("regular"):
                if a["play"] == 0.0 and any(v is not None for v in vals):
                    bad.append(("skip-play-0", "PSkip(play=0) let a value through"))
                if a["play"] == 1.0 and any(v is None and inp[i] is not None for i, v in enumerate(vals)):
                    bad.append(("skip-play-1", "PSkip(play=1) dropped a value"))
    elif c == "PRandomWalk":
        V = a["values"]
        for v in vals:
            if v not in V:
                bad.append(("walk-not-a-value", "%r not in %r" % (v, V)))
                break
        if a.get("wrap", True) and len(set(V)) == len(V) and a["min"] <= a["max"] and not bad:
            n = len(V)
            prev = 0 if fresh else None
            for v in vals:
                pos = V.index(v)
                if prev is not None:
                    ok = any((prev + s * m) % n == pos for m in range(a["min"], a["max"] + 1) for s in (1, -1))
                    if not ok:
                        bad.append(("walk-move-out-of-range", "index %d -> %d with min=%d max=%d (n=%d)" % (prev, pos, a["min"], a["max"], n)))
                        break
                prev = pos
    elif c == "PChoice":
        V = a["values"]
        w = a.get("weights")
        for v in vals:
            if v not in V:
                bad.append(("choice-not-a-value", "%r not in %r" % (v, V)))
                break
            if w is not None and len(set(V)) == len(V) and len(w) == len(V) and w[V.index(v)] == 0:
                bad.append(("choice-zero-weight", "%r has weight 0" % (v,)))
                break
    elif c == "PSample":
        V = a["values"]
        w = a.get("weights")
        for v in vals:
            if not isinstance(v, list) or len(v) != a["count"]:
                bad.append(("sample-count", "%r is not a list of %d" % (v, a["count"])))
                break
            rest = list(V)
            for x in v:
                if x in rest:
                    rest.remove(x)
                else:
                    bad.append(("sample-with-replacement", "%r is not a selection without replacement from %r" % (v, V)))
                    break
            if bad:
                break
            if w and len(set(V)) == len(V) and len(w) == len(V) and any(w[V.index(x)] == 0 for x in v):
                bad.append(("sample-zero-weight", "%r contains a value of weight 0" % (v,)))
                break
    elif c == "PShuffle":
        V = a["values"]
        n = len(V)
        if fresh and n > 0:
            for i in range(0, len(vals), n):
                blk = vals[i:i + n]
                if len(blk) == n and sorted(blk) != sorted(V):
                    bad.append(("shuffle-not-a-permutation", "block %r of %r" % (blk, V)))
                    break
                if any(blk.count(x) > V.count(x) for x in blk):
                    bad.append(("shuffle-not-a-permutation", "partial block %r of %r" % (blk, V)))
                    break
            r = a.get("repeats")
            if r is not None and r >= 1:
                if nstop is not None and nstop != r * n:
                    bad.append(("shuffle-repeats", "repeats=%d, %d values: %d values before StopIteration" % (r, n, nstop)))
                if nstop is None and len(vals) > r * n:
                    bad.append(("shuffle-repeats", "repeats=%d, %d values: more than %d values" % (r, n, r * n)))
            if r is None and nstop is not None:
                bad.append(("shuffle-repeats", "endless shuffle stopped"))
    elif c == "PShuffleInput":
        k = a["every"]
        inp = a["input"]
        if fresh and k > 0:
            for i in range(0, len(vals), k):
                blk, src = vals[i:i + k], inp[i:i + k]
                if len(blk) == len(src) and sorted(blk) != sorted(src):
                    bad.append(("shuffleinput-not-a-permutation", "block %r of input block %r" % (blk, src)))
                    break
                if any(x not in src for x in blk):
                    bad.append(("shuffleinput-not-a-permutation", "block %r of input block %r" % (blk, src)))
                    break
    elif c == "PSwitchOne":
        L = a["length"]
        inp = a["input"]
        if fresh and L > 0 and len(inp) >= L:
            cyc = [vals[i:i + L] for i in range(0, len(vals), L)]
            prev = None
            for blk in cyc:
                if len(blk) < L:
                    break
                if prev is None:
                    if blk != inp[:L]:
                        bad.append(("switchone-first-cycle", "%r is not the first %d inputs" % (blk, L)))
                        break
                else:
                    diff = [i for i in range(L) if blk[i] != prev[i]]
                    ok = sorted(blk) == sorted(prev) and (not diff or (len(diff) == 2 and (diff[1] - diff[0] == 1 or diff == [0, L - 1])))
                    if not ok:
                        bad.append(("switchone-not-adjacent-swap", "%r -> %r" % (prev, blk)))
                        break
                prev = blk
    elif c == "PMarkov":
        if "seq" in a:
            s = a["seq"]
            trans = set(zip(s, s[1:]))
            keys = set(s)
        else:
            trans = {(k, y) for k, succ in a["nodes"] for y in succ}
            keys = {k for k, _ in a["nodes"]}
        prev = None
        for i, v in enumerate(vals):
            if prev is None:
                if not any((k, v) in trans for k in keys):
                    bad.append(("markov-unlearned-transition", "first value %r is nobody's successor" % (v,)))
                    break
            elif (prev, v) not in trans:
                bad.append(("markov-unlearned-transition", "%r -> %r was never learned" % (prev, v)))
                break
            prev = v
    elif c == "PRandomExponential":
        lo, hi = a["min"], a["max"]
        for v in vals:
            if type(v) is not type(lo) or not (lo * (1 - 1e-12) <= v <= hi * (1 + 1e-12)):
                bad.append(("randexp-out-of-range", "%r not in [%r, %r]" % (v, lo, hi)))
                break
    elif c == "PRandomImpulseSequence":
        for v in vals:
            if v not in (0, 1):
                bad.append(("not-binary", "%r" % (v,)))
                break
    elif c == "PArpeggiator":
        N = sorted(a["notes"])
        n = len(N)
        if fresh and n > 0:
            for i in range(0, len(vals), n):
                blk = vals[i:i + n]
                if len(blk) == n and sorted(blk) != N:
                    bad.append(("arp-not-a-permutation", "%r of %r" % (blk, N)))
                    break
            if not a.get("loop") and nstop is not None and nstop != n:
                bad.append(("arp-length", "%d notes, %d values" % (n, nstop)))
    return bad


def segments(case, events):
    """split the events of a script at reset/seed; yields (start_index, seed, clean, events) where clean says the
    segment starts from the initial state of an instance seeded with `seed`"""
    cls = case["spec"]["cls"]
    stateless = cls in STATELESS or (cls == "PWhite" and case["spec"]["args"].get("length", 0) == 0) or \
        (cls == "PCoin" and not case["spec"]["args"].get("regular"))
    if cls == "PCoin" and case["spec"]["args"].get("regular"):
        stateless = False
    seed, clean, cur, k, start = case["seed"], True, [], 0, 0
    out = []
    for op in case["ops"]:
        if op == "next":
            cur.append(events[k])
            k += 1
            continue
        out.append((start, seed, clean, cur))
        cur, start = [], k
        if op == "reset":
            clean = True
        else:
            seed = op[1]
            clean = stateless
    out.append((start, seed, clean, cur))
    return out


def judge_script(run, case, r):
    """oracle over one script result; returns True if a violation with a failing input was reported"""
    spec = case["spec"]
    cls = case["gen"]
    hit = False

    def report(kind, detail, extra=None):
        nonlocal hit
        hit = True
        rep = {"case": {"class": spec["cls"], "args": spec["args"], "seed": case["seed"], "ops": case["ops"], "forced": case.get("forced")},
               "observed": detail, "oracle": "independent Python oracle (property text)",
               "python": snippet(spec, case["seed"], case["ops"])}
        if extra:
            rep.update(extra)
        run.violation({"kind": kind, "site": spec["cls"] + ("(regular)" if spec["args"].get("regular") else "")}, rep)

    if "driver_exception" in r:
        report("constructor-raises", "building %s raised %s: %s" % (ctor(spec), r["driver_exception"], r.get("detail")))
        return True
    ev = r["events"]
    run.cov["oracle_evaluations"] += len(ev)
    if r["plain"] != ev:
        report("recorder-not-transparent", "the pattern behaves differently when pattern.rng is a recording random.Random with the same seed "
               "(it does not draw only from self.rng): %r vs %r" % (ev[:12], r["plain"][:12]))
    if r["global_touched"]:
        report("global-generator-touched", "random.getstate() changed while the pattern was driven")
    n_epochs = 1 + sum(1 for o in case["ops"] if o != "next")
    # (a looping PArpeggiator calls reset() itself at the end of every cycle: more epochs are fine there)
    if len(r["epochs"]) < n_epochs or (len(r["epochs"]) != n_epochs and spec["cls"] != "PArpeggiator"):
        report("reset-does-not-reseed", "%d calls of rng.seed() for %d reset()/seed() operations" % (len(r["epochs"]) - 1, n_epochs - 1))
    for start, seed, clean, evs in segments(case, ev):
        if not evs:
            continue
        for kind, detail in support_failures(spec, evs, clean)[:1]:
            report(kind, detail + " (outputs %d.. of the script: %r)" % (start, [e if e == "stop" or "x" in e else dec(e["v"]) for e in evs[:16]]))
        if clean:
            ref = r["refs"][str(seed)][:len(evs)]
            if ref != evs:
                i = next(i for i in range(len(evs)) if ref[i] != evs[i])
                report("not-reproducible", "after reset()/seed(%d) output %d of the segment is %r but a fresh instance with seed %d gives %r "
                       "(segment %r, fresh %r)" % (seed, i, evs[i], seed, ref[i], evs[:10], ref[:10]))
    return hit


# ---------------------------------------------------------------------------------------------------
# correspondence
# ---------------------------------------------------------------------------------------------------
def weighted_margin_ok(case, r):
    """False if some weighted draw of this script lies within 2^-30 of a cumulative boundary (the float
    implementation and the exact model may then legitimately pick different indices)"""
    a = case["spec"]["args"]
    w = a.get("weights")
    if not w:
        return True
    for ep in r["epochs"]:
        for req, k in ep:
            if req != 0:
                continue
            u = Fraction(k, TWO53)
            # every sub-list that can arise by popping: check against all partial sums of all sub-multisets is
            # too expensive; PSample pops, so we check margins against every subset sum only for short lists
            ws = [Fraction(x) for x in w]
            if case["spec"]["cls"] == "PChoice":
                tot = sum(ws)
                if tot == 0:
                    continue
                c = Fraction(0)
                for x in ws:
                    c += x
                    if abs(u - c / tot) < Fraction(1, 2 ** 30):
                        return False
            else:
                n = len(ws)
                for mask in range(1, 2 ** n):
                    sub = [ws[i] for i in range(n) if mask >> i & 1]
                    tot = sum(sub)
                    if tot == 0:
                        continue
                    c = Fraction(0)
                    for x in sub:
                        c += x
                        if abs(u - c / tot) < Fraction(1, 2 ** 30):
                            return False
    return True


def int_trunc_margin_ok(case, r):
    """PWhite int mode: int(min + (max-min)*u) — discard if the exact value is within 2^-30 of an integer"""
    a = case["spec"]["args"]
    lo, hi = a["min"], a["max"]
    for ep in r["epochs"]:
        for req, k in ep:
            x = lo + (hi - lo) * Fraction(k, TWO53)
            if abs(x - round(x)) < Fraction(1, 2 ** 30) and x != round(x):
                return False
    return True


def script_term(case, r):
    """Coq boolean term: the model replays the recorded draws and must produce the same events and requests"""
    m, eps = machine_term(case["spec"])
    if m is None:
        return None
    exp = []
    as_q = eps is not None
    for e in r["events"]:
        t = res_term(e, as_q)
        if t is None:
            return None
        exp.append(t)
    ops, e = [], 0
    for o in case["ops"]:
        if o == "next":
            ops.append("Next")
        elif o == "reset":
            e += 1
            ops += ["Seed %d" % e, "Reset"]
        else:
            e += 1
            ops.append("Seed %d" % e)
    epochs = lst([zlist([k for _, k in ep]) for ep in r["epochs"]])
    reqs = lst([zlist([q for q, _ in ep]) for ep in r["epochs"]])
    if eps is not None:
        return "check_script_eps %s %s %s %s %s %s" % (qlit(eps / 2 ** 40), m, epochs, reqs, lst(ops), lst(exp))
    return "check_script %s %s %s %s %s" % (m, epochs, reqs, lst(ops), lst(exp))


def shard(run, cases, jobs=12):
    shards = [cases[i::jobs] for i in range(jobs) if cases[i::jobs]]
    outs = run.impl_parallel("c11_impl", [{"cases": sh} for sh in shards], jobs=jobs)
    res = [None] * len(cases)
    for j, (sh, out) in enumerate(zip(shards, outs)):
        for k, r in enumerate(out["results"]):
            res[j + k * jobs] = r
    return res


def run_scripts(run, cases):
    results = shard(run, cases)
    terms, meta = [], []
    for case, r in zip(cases, results):
        cls = case["gen"]
        run.count(len(case["ops"]))
        run.dist(("forced." if "forced" in case else "script.") + cls)
        judged_bad = judge_script(run, case, r)
        if "driver_exception" in r:
            continue
        ev = r["events"]
        if any(e == "stop" for e in ev):
            run.dist("stratum.stop")
        if any(isinstance(e, dict) and "x" in e for e in ev):
            run.dist("stratum.exception")
        if any(o == "reset" for o in case["ops"]):
            run.dist("stratum.reset")
        if any(o != "next" and o != "reset" for o in case["ops"]):
            run.dist("stratum.reseed")
        if case["spec"]["args"].get("weights"):
            run.dist("stratum.weighted")
        if cls not in MODELLED:
            continue
        if cls in ("PChoice", "PSample") and not weighted_margin_ok(case, r):
            run.discard("weighted draw within 2^-30 of a cumulative boundary")
            continue
        if cls == "PWhite" and type(case["spec"]["args"]["min"]) is int and not int_trunc_margin_ok(case, r):
            run.discard("PWhite int: exact value within 2^-30 of an integer")
            continue
        t = script_term(case, r)
        if t is None:
            run.discard("implementation value outside the model's value universe")
            terms.append("false")
        else:
            terms.append(t)
        meta.append((case, r, judged_bad))
        run.nontrivial(json.dumps([case["spec"], case["seed"], case["ops"]], sort_keys=True))
        run.sample({"class": case["spec"]["cls"], "args": case["spec"]["args"], "ops": len(case["ops"]),
                    "first_outputs": [e if e == "stop" or "x" in e else dec(e["v"]) for e in ev[:6]]}, limit=4)
    failing = run.coq_failing(HEADER, terms, chunk=100)
    run.cov["traces_validated_against_impl"] += len(terms) - len(failing)
    for i in failing:
        case, r, judged_bad = meta[i]
        if judged_bad:
            continue
        found = minimise(run, case)
        run.violation({"kind": "correspondence", "site": case["spec"]["cls"]}, {
            "broken": "correspondence model/implementation on %s: the theorems of Props/C11.v no longer describe this code" % case["spec"]["cls"],
            "case": {"class": case["spec"]["cls"], "args": case["spec"]["args"], "seed": case["seed"], "ops": case["ops"], "forced": case.get("forced")},
            "observed": {"events": [e if e == "stop" or "x" in e else dec(e["v"]) for e in r["events"]][:40],
                         "draws": r["epochs"][:3]},
            "model": found, "python": snippet(case["spec"], case["seed"], case["ops"]),
            "coq_term": terms[i][:3000]}, found_input=True)


def minimise(run, case):
    """the model's own outputs for the failing script (diagnostic only)"""
    return "run the coq_term with `Eval vm_compute` to see the model's verdict; expected outputs are embedded in it"


# ---------------------------------------------------------------------------------------------------
# isolation: world schedules on the implementation
# ---------------------------------------------------------------------------------------------------
def gen_world(rng):
    n = rng.randint(2, 4)
    pats = []
    for i in range(n):
        cls = rng.choice(MODELLED + ORACLE_ONLY)
        pats.append({"gen": cls, "spec": {"cls": real_cls(cls), "args": gen_spec(rng, cls)}, "seed": rng.randrange(2 ** 31)})
    twin = rng.random() < 0.6
    if twin:
        pats.append(dict(pats[0]))
    per = [gen_ops(rng, [p["seed"], rng.randrange(2 ** 31)]) for p in pats]
    if twin:
        per[-1] = list(per[0])
    idx = [0] * len(pats)
    sched = []
    while any(idx[i] < len(per[i]) for i in range(len(pats))):
        r = rng.random()
        if r < 0.25:
            sched.append(rng.choice([["gunit"], ["gbelow", rng.randint(1, 100)], ["gseed", rng.randrange(1000)]]))
            continue
        i = rng.choice([i for i in range(len(pats)) if idx[i] < len(per[i])])
        burst = rng.randint(1, 3)
        for _ in range(burst):
            if idx[i] < len(per[i]):
                sched.append(["p", i, per[i][idx[i]]])
                idx[i] += 1
    return {"kind": "world", "pats": pats, "sched": sched, "twin": twin, "per": per}


def run_worlds(run, n):
    worlds = [gen_world(run.rng) for _ in range(n)]
    cases = []
    for w in worlds:
        cases.append({"kind": "world", "pats": w["pats"], "sched": w["sched"]})
        for i, p in enumerate(w["pats"]):
            cases.append({"kind": "world", "pats": [p], "sched": [["p", 0, o] for o in w["per"][i]]})
    results = shard(run, cases)
    k = 0
    for w in worlds:
        r = results[k]
        solos = results[k + 1:k + 1 + len(w["pats"])]
        k += 1 + len(w["pats"])
        run.count(len(w["sched"]))
        run.dist("world.%d-patterns" % len(w["pats"]))
        if "driver_exception" in r or any("driver_exception" in s for s in solos):
            # a constructor raised: the script stream reports that with the class; nothing to compare here
            run.discard("world with a pattern whose constructor raises")
            continue
        run.cov["oracle_evaluations"] += sum(len(o) for o in r["outs"])
        run.nontrivial(json.dumps([w["pats"], w["sched"]], sort_keys=True, default=str))

        def rep(kind, i, detail):
            p = w["pats"][i]
            run.violation({"kind": kind, "site": p["spec"]["cls"] + ("(regular)" if p["spec"]["args"].get("regular") else "")}, {
                "case": {"patterns": [{"class": q["spec"]["cls"], "args": q["spec"]["args"], "seed": q["seed"]} for q in w["pats"]],
                         "schedule": w["sched"], "pattern": i},
                "observed": detail, "oracle": "outputs of a pattern inside a schedule of other patterns and global random calls must equal its outputs alone",
                "python": "import isobar as iso, random; p = %s.seed(%d); q = %s.seed(%d); a = p.nextn(12); q.reset(); b = []\n"
                          "for i in range(12): random.seed(i); random.random(); b.append(next(q))\nprint(a == b, a, b)" % (
                              ctor(p["spec"]), p["seed"], ctor(p["spec"]), p["seed"])})
        for t in r["touched"][:1]:
            i = w["sched"][t][1]
            rep("global-generator-touched", i, "operation %d of the schedule (%r on pattern %d) changed random.getstate()" % (t, w["sched"][t][2], i))
        for i in range(len(w["pats"])):
            if r["outs"][i] != solos[i]["outs"][0]:
                j = next((j for j in range(min(len(r["outs"][i]), len(solos[i]["outs"][0]))) if r["outs"][i][j] != solos[i]["outs"][0][j]), None)
                rep("not-isolated", i, "output %r of pattern %d differs between the interleaved run and the run alone: %r vs %r" % (
                    j, i, r["outs"][i][:14], solos[i]["outs"][0][:14]))
        if w["twin"] and r["outs"][0] != r["outs"][-1]:
            rep("instances-disagree", 0, "two instances with the same arguments, seed and operations disagree: %r vs %r" % (r["outs"][0][:14], r["outs"][-1][:14]))


# ---------------------------------------------------------------------------------------------------
# weighted frequencies (statistical validation, 6 sigma) and util.* with a stubbed uniform draw
# ---------------------------------------------------------------------------------------------------
def run_freq(run, n):
    rng = run.rng
    cases = []
    for j in range(6):
        k = rng.randint(2, 6)
        vals = rng.sample(range(100), k)
        w = [rng.choice([1, 2, 3, 5, 8, 0.5, 0.25]) for _ in range(k)]
        if j == 0:
            w[0] = 0
        cls = "PChoice" if j % 2 == 0 else "PSample"
        a = {"values": vals, "weights": w}
        if cls == "PSample":
            a["count"] = rng.randint(1, k)
        cases.append({"kind": "freq", "spec": {"cls": cls, "args": a}, "seed": rng.randrange(2 ** 31), "n": n, "first": True})
    # the weights list the caller passed is edited in place half-way: the draws after the edit follow the NEW weights
    for j in range(2):
        k = rng.randint(3, 5)
        vals = rng.sample(range(100), k)
        w1 = [1] * k
        w2 = [rng.choice([1, 2, 3, 5]) for _ in range(k)]
        w2[j % k] = 0
        cases.append({"kind": "freq", "spec": {"cls": "PChoice", "args": {"values": vals, "weights": w1}}, "weights2": w2,
                      "seed": rng.randrange(2 ** 31), "n": 2 * (n // 2)})
    p = rfloat(rng)
    cases.append({"kind": "freq", "spec": {"cls": "PCoin", "args": {"p": float(p)}}, "seed": rng.randrange(2 ** 31), "n": n})
    vals = rng.sample(range(100), rng.randint(2, 6))
    cases.append({"kind": "freq", "spec": {"cls": "PChoice", "args": {"values": vals, "weights": None}}, "seed": rng.randrange(2 ** 31), "n": n})
    results = shard(run, cases)
    for c, r in zip(cases, results):
        a = c["spec"]["args"]
        run.count(c["n"])
        run.dist("freq." + c["spec"]["cls"])
        if "driver_exception" in r:
            continue
        N = r["n"]
        if c["spec"]["cls"] == "PCoin":
            exp = {json.dumps({"i": 1}): a["p"], json.dumps({"i": 0}): 1 - a["p"]}
        else:
            w = c.get("weights2") or a["weights"] or [1] * len(a["values"])
            if c.get("weights2"):
                run.dist("freq.weights-edited-in-place")
            tot = sum(w)
            exp = {json.dumps({"i": v}): x / tot for v, x in zip(a["values"], w)}
        run.cov["oracle_evaluations"] += N
        for key, p in exp.items():
            got = r["hist"].get(key, 0)
            sigma = math.sqrt(N * p * (1 - p))
            if abs(got - N * p) > 6 * sigma + 1:
                run.violation({"kind": "weighted-frequency", "site": c["spec"]["cls"]}, {
                    "case": {"class": c["spec"]["cls"], "args": a, "seed": c["seed"], "n": N},
                    "observed": "value %s occurred %d times in %d draws, expected %.1f +- %.1f (6 sigma = %.1f)" % (key, got, N, N * p, sigma, 6 * sigma),
                    "oracle": "frequency proportional to weight (statistical validation, 6 sigma)",
                    "python": "import isobar as iso, collections; p = %s.seed(%d); print(collections.Counter(str(v) for v in p.nextn(%d)))" % (ctor(c["spec"]), c["seed"], N)})
                break
        for key in r["hist"]:
            if key not in exp:
                run.violation({"kind": "choice-not-a-value", "site": c["spec"]["cls"]}, {
                    "case": {"class": c["spec"]["cls"], "args": a, "seed": c["seed"]}, "observed": "value %s is not among the values" % key,
                    "python": "import isobar as iso; print(%s.seed(%d).nextn(100))" % (ctor(c["spec"]), c["seed"])})
                break


def run_util(run, n):
    """util.windex / wnindex / wnchoice / wchoice with rng.uniform stubbed to return chosen u: boundary values exactly"""
    rng = run.rng
    cases = []
    for j in range(n):
        k = rng.randint(1, 6)
        pow2 = rng.random() < 0.6
        if pow2:
            # integer weights with a power-of-two sum: normalisation and the subtractions are exact in floats
            tot = 2 ** rng.randint(2, 6)
            cuts = sorted(rng.randint(0, tot) for _ in range(k - 1))
            w = [b - a for a, b in zip([0] + cuts, cuts + [tot])]
        else:
            w = [rng.choice([0, 1, 2, 3, 5, 7, 0.5, 0.1, 0.3]) for _ in range(k)]
            if rng.random() < 0.1:
                w = [0] * k
        tot = sum(Fraction(x) for x in w)
        us = [rng.random() for _ in range(4)] + [0.0, 1.0 - 2.0 ** -53]
        if pow2:
            c = Fraction(0)
            for x in w:
                c += Fraction(x)
                b = float(c / tot)
                us += [u for u in (b, b - 2.0 ** -53, b + 2.0 ** -52) if 0.0 <= u < 1.0]
        fn = rng.choice(["wnindex", "wnchoice", "windex", "wchoice"])
        ww = w
        if fn in ("windex", "wchoice"):
            if not pow2 or tot == 0:
                fn = "wn" + fn[1:]
            else:
                ww = [float(Fraction(x) / tot) for x in w]
        vals = rng.sample(range(100), k)
        cases.append({"kind": "util", "fn": fn, "weights": ww, "values": vals, "us": us, "pow2": pow2})
    results = shard(run, cases)
    terms, meta = [], []
    for c, r in zip(cases, results):
        run.dist("util." + c["fn"])
        if "driver_exception" in r:
            run.violation({"kind": "util-raises", "site": c["fn"]}, {"case": c, "observed": r}, found_input=True)
            continue
        ws = [Fraction(x) for x in c["weights"]]
        tot = sum(ws)
        for u, o in zip(c["us"], r["res"]):
            run.count(1)
            uu = Fraction(u)
            # oracle: index i with cum(i) <= u * total < cum(i+1)
            want, cum = None, Fraction(0)
            margin = None
            for i, x in enumerate(ws):
                if tot != 0 and cum <= uu * tot < cum + x:
                    want = i
                cum += x
                if tot != 0:
                    d = abs(uu - cum / tot)
                    margin = d if margin is None else min(margin, d)
            if not c["pow2"] and margin is not None and margin < Fraction(1, 2 ** 30):
                run.discard("util: draw within 2^-30 of a cumulative boundary")
                continue
            run.cov["oracle_evaluations"] += 1
            got = None
            if "v" in o:
                got = dec(o["v"])
                if c["fn"] in ("wnchoice", "wchoice"):
                    got = c["values"].index(got) if got in c["values"] else ("value", got)
            elif c["fn"] in ("wnchoice", "wchoice") and o.get("x") == "TypeError":
                got = None        # array[None]
            else:
                got = ("raises", o.get("x"))
            if got != want or o["calls"] != 1:
                run.violation({"kind": "weighted-index", "site": "util." + c["fn"]}, {
                    "case": {"fn": c["fn"], "weights": c["weights"], "values": c["values"], "u": u},
                    "observed": "index %r (uniform draws: %d); cumulative weights select %r" % (got, o["calls"], want),
                    "oracle": "index i with cum(i) <= u*sum(w) < cum(i+1)",
                    "python": "from isobar import util\nclass R:\n    def uniform(self, a, b): return %r\nprint(util.%s(%s%r, rng=R()))" % (
                        u, c["fn"], "" if c["fn"] in ("windex", "wnindex") else "%r, " % (c["values"],), c["weights"])})
                continue
            f = "wnindex" if c["fn"].startswith("wn") else "windex"
            terms.append("oq (%s %s %s) %s" % (f, lst([qlit(x) for x in c["weights"]]), qlit(u), optlit(want, zlit)))
            meta.append((c, u, got))
            run.nontrivial(json.dumps([c["fn"], c["weights"], u]))
        # normalize
        if c["pow2"] and c["fn"].startswith("wn") and isinstance(r["normalize"], list):
            nz = [dec(x) for x in r["normalize"]]
            want = [float(x / tot) for x in ws] if tot != 0 else list(c["weights"])
            if nz != want:
                run.violation({"kind": "normalize", "site": "util.normalize"}, {
                    "case": {"weights": c["weights"]}, "observed": nz, "expected": want,
                    "python": "from isobar import util; print(util.normalize(%r))" % (c["weights"],)})
            else:
                terms.append("list_eqb Qeq_bool (normalize %s) %s" % (lst([qlit(x) for x in c["weights"]]), lst([qlit(x) for x in nz])))
                meta.append((c, None, nz))
    failing = run.coq_failing(HEADER, terms, chunk=400)
    run.cov["traces_validated_against_impl"] += len(terms) - len(failing)
    for i in failing:
        c, u, got = meta[i]
        run.violation({"kind": "correspondence", "site": "util." + c["fn"]}, {
            "broken": "correspondence model/implementation on util.%s" % c["fn"],
            "case": {"fn": c["fn"], "weights": c["weights"], "u": u}, "observed": got, "coq_term": terms[i]}, found_input=True)


# ---------------------------------------------------------------------------------------------------
# copies of stochastic patterns used side by side (model Pat/ChanceCopy.v)
# ---------------------------------------------------------------------------------------------------
FAM_HEADER = HEADER.replace("Pat.Chance.", "Pat.Chance Pat.ChanceCopy.")
INT_OUT = {"PCoin", "PFlipFlop", "PSkip", "PRandomWalk", "PChoice", "PShuffle", "PShuffleInput", "PSwitchOne",
           "PMarkov", "PWhite", "PBrown", "PRandomImpulseSequence", "PArpeggiator", "PCoinRegular", "PSkipRegular"}


def gen_family(rng, cls):
    """an original (seeded; 40 % nested inside a deterministic wrapper) and up to three copies taken at different points,
    driven side by side: next / reset() / seed() on every member in bursts, global generator calls in between"""
    spec = {"cls": real_cls(cls), "args": gen_spec(rng, cls)}
    wrap = None
    r = rng.random()
    if r < 0.2 and cls in INT_OUT:
        wrap = ["add", rng.randint(-5, 9)]
    elif r < 0.4:
        wrap = ["stutter", rng.randint(1, 3)]
    seed = rng.randrange(2 ** 31)
    seeds = [seed, rng.randrange(2 ** 31)]
    sched, members = [], [0]
    hist = {0: []}
    split = {0: 0}
    for _ in range(rng.randint(0, 5)):
        sched.append(["p", 0, "next"]); hist[0].append("next")
    for step in range(rng.randint(6, 14)):
        k = rng.random()
        if (k < 0.22 or step == 0) and len(members) < 4:
            src, dst = rng.choice(members), len(members)
            sched.append(["copy", src, dst])
            members.append(dst)
            hist[dst] = list(hist[src])
            split[dst] = sum(1 for o in hist[dst] if o == "next")
        elif k < 0.34:
            sched.append(rng.choice([["gunit"], ["gbelow", rng.randint(1, 100)], ["gseed", rng.randrange(1000)]]))
        else:
            i = rng.choice(members)
            k2 = rng.random()
            ops = ["reset"] if k2 < 0.14 else [["seed", rng.choice(seeds)]] if k2 < 0.26 else \
                [["seed", rng.choice(seeds)], "reset"] if k2 < 0.32 else ["next"] * rng.randint(1, 4)
            for o in ops:
                sched.append(["p", i, o]); hist[i].append(o)
    for i in members:                                    # everybody is drawn from at the end
        for _ in range(rng.randint(1, 4)):
            sched.append(["p", i, "next"]); hist[i].append("next")
    return {"kind": "family", "gen": cls, "spec": spec, "wrap": wrap, "seed": seed, "record": cls in MODELLED,
            "sched": sched, "solo": {str(i): hist[i] for i in members}, "split": split, "members": members}


def fam_snippet(c):
    lines = ["import isobar as iso, random", "s = %s.seed(%d)" % (ctor(c["spec"]), c["seed"])]
    w = c["wrap"]
    lines.append("p0 = %s" % ("s" if not w else "s + %d" % w[1] if w[0] == "add" else "iso.PStutter(s, %d)" % w[1]))
    inner = lambda i: "p%d" % i if not w else "p%d.a" % i if w[0] == "add" else "p%d.pattern" % i
    for op in c["sched"]:
        if op[0] == "p":
            o = op[2]
            lines.append("print(%d, next(p%d))" % (op[1], op[1]) if o == "next" else "p%d.reset()" % op[1] if o == "reset"
                         else "%s.seed(%d)" % (inner(op[1]), o[1]))
        elif op[0] == "copy":
            lines.append("p%d = p%d.copy()" % (op[2], op[1]))
        elif op[0] == "gunit":
            lines.append("random.random()")
        elif op[0] == "gbelow":
            lines.append("random.randrange(%d)" % op[1])
        else:
            lines.append("random.seed(%d)" % op[1])
    return "\n".join(lines)


def family_term(c, r):
    """Coq boolean term: the family of Pat/ChanceCopy.v replays the recorded draws (every member's generator state is
    the rest of the draws recorded for its epoch; a copy inherits its source's) and must produce every member's
    events and request logs; None if the case has no image in the model"""
    m, eps = machine_term(c["spec"])
    if m is None:
        return None
    w = c["wrap"]
    if w and w[0] == "add":
        m = "(mapm replay _ (add_k %s) %s)" % (zlit(w[1]), m)
    elif w:
        m = "(stutterm replay _ %s %s)" % (zlit(w[1]), m)
    as_q = eps is not None
    ops, exp = [], []
    e = 0
    cur = {0: 0}                                         # member -> global epoch it is in
    local = {0: [0]}                                     # member -> global epochs of its local epochs, in order
    pos = {i: 0 for i in c["members"]}
    for op in c["sched"]:
        if op[0] == "p":
            i, o = op[1], op[2]
            if o == "next":
                ops.append("CP %d Next" % i)
                t = res_term(r["outs"][str(i)][pos[i]], as_q)
                pos[i] += 1
                if t is None:
                    return None
                exp.append(t)
            else:
                e += 1
                cur[i] = e
                local[i].append(e)
                ops.append("CP %d (Seed %d)" % (i, e))
                if o == "reset":
                    ops.append("CP %d Reset" % i)
        elif op[0] == "copy":
            ops.append("CCopy %d %d" % (op[1], op[2]))
            cur[op[2]] = cur[op[1]]
            local[op[2]] = [cur[op[1]]]
        elif op[0] == "gunit":
            ops.append("CGUnit")
        elif op[0] == "gbelow":
            ops.append("CGBelow %d" % op[1])
        else:
            ops.append("CGSeed %d" % op[1])
    draws = [[] for _ in range(e + 1)]
    reqs = []
    for i in c["members"]:
        eps_i = r["epochs"].get(str(i))
        if eps_i is None or len(eps_i) != len(local[i]):
            return "false"                               # a member re-seeded more / less often than reset()/seed() were called
        for g, ep in zip(local[i], eps_i):
            res = [k for _, k in ep]
            n = min(len(res), len(draws[g]))
            if res[:n] != draws[g][:n]:
                return "false"                           # members sharing an epoch saw different streams
            if len(res) > len(draws[g]):
                draws[g] = res
            reqs.append("(%d%%nat, %d, %s)" % (i, g, zlist([q for q, _ in ep])))
    args = "%s %s %s %s %s %s" % (m, lst([zlist(d) for d in draws]), lst(reqs), lst(["%d%%nat" % i for i in c["members"]]),
                                  lst(ops), lst(exp))
    if eps is not None:
        return "check_family_eps %s %s" % (qlit(eps / 2 ** 40), args)
    return "check_family " + args


def run_families(run, per_cls):
    rng = run.rng
    cases = []
    for cls in MODELLED + ORACLE_ONLY:
        cases += [gen_family(rng, cls) for _ in range(per_cls if cls in MODELLED else max(1, per_cls // 2))]
    results = shard(run, [{k: v for k, v in c.items() if k not in ("split", "members", "gen")} for c in cases])
    terms, meta = [], []
    for c, r in zip(cases, results):
        run.count(len(c["sched"]))
        run.dist("family." + c["gen"])
        run.dist("family.wrap.%s" % (c["wrap"][0] if c["wrap"] else "none"))
        run.dist("family.%d-members" % len(c["members"]))
        if "driver_exception" in r:
            run.discard("family whose constructor raises")
            continue
        site = c["spec"]["cls"] + ("(regular)" if c["spec"]["args"].get("regular") else "")
        hit = False

        def rep(kind, detail):
            sig = {"kind": kind, "site": site}
            if c["spec"]["args"].get("every"):
                sig["every"] = True                      # PRandomImpulseSequence.every(n, action): see known_findings.d/C11.json
            run.violation(sig, {
                "case": {"class": c["spec"]["cls"], "args": c["spec"]["args"], "seed": c["seed"], "wrap": c["wrap"],
                         "schedule": c["sched"]},
                "observed": detail,
                "oracle": "every member of a family (a seeded original and its copies) must produce what a fresh instance with the "
                          "same arguments and seed produces when driven alone by that member's own history (the source's history "
                          "up to the copy, then the member's own operations)",
                "python": fam_snippet(c)})
        run.nontrivial(json.dumps([c["spec"], c["seed"], c["wrap"], c["sched"]], sort_keys=True))
        for t in r["touched"][:1]:
            hit = True
            rep("global-generator-touched", "operation %d of the schedule (%r) changed random.getstate()" % (t, c["sched"][t]))
        for i in c["members"]:
            got = r["outs"][str(i)]
            want = r["solo"][str(i)][c["split"][i]:]
            run.cov["oracle_evaluations"] += len(got)
            if got != want:
                hit = True
                j = next((j for j in range(min(len(got), len(want))) if got[j] != want[j]), min(len(got), len(want)))
                who = "the original" if i == 0 else "copy %d" % i
                rep("copy-not-isolated", "output %d of %s (member %d) is %r; a fresh instance with the same arguments and seed, driven alone "
                    "by this member's history, gives %r (member: %r, alone: %r)" % (j, who, i, got[j] if j < len(got) else None,
                                                                                  want[j] if j < len(want) else None, got[:12], want[:12]))
                break
        if not c["record"]:
            continue
        fake = {"epochs": [ep for eps_i in r["epochs"].values() for ep in (eps_i or [])]}
        if c["gen"] in ("PChoice", "PSample") and not weighted_margin_ok(c, fake):
            run.discard("weighted draw within 2^-30 of a cumulative boundary")
            continue
        if c["gen"] == "PWhite" and type(c["spec"]["args"]["min"]) is int and not int_trunc_margin_ok(c, fake):
            run.discard("PWhite int: exact value within 2^-30 of an integer")
            continue
        t = family_term(c, r)
        if t is None:
            run.discard("implementation value outside the model's value universe")
            continue
        terms.append(t)
        meta.append((c, r, hit))
    failing = run.coq_failing(FAM_HEADER, terms, chunk=100)
    run.cov["traces_validated_against_impl"] += len(terms) - len(failing)
    run.cov["families_validated_against_model"] = len(terms) - len(failing)
    for i in failing:
        c, r, hit = meta[i]
        if hit:
            continue
        run.violation({"kind": "correspondence", "site": "copy:" + c["spec"]["cls"]}, {
            "broken": "correspondence Pat/ChanceCopy.v (a copy owns a copy of the generator state) vs Pattern.copy() on %s: the "
                      "C11_copy_* theorems of Props/C11.v no longer describe this code" % c["spec"]["cls"],
            "case": {"class": c["spec"]["cls"], "args": c["spec"]["args"], "seed": c["seed"], "wrap": c["wrap"], "schedule": c["sched"]},
            "observed": {"outs": r["outs"], "draws": r["epochs"]}, "python": fam_snippet(c), "coq_term": terms[i][:3000]},
            found_input=True)


# ---------------------------------------------------------------------------------------------------
# seeded stochastic patterns nested inside other seeded stochastic patterns (model Pat/SeededNest.v, Pat/SeededNestIso.v)
# ---------------------------------------------------------------------------------------------------
NEST_INNER = ["PWhite", "PBrown", "PChoice", "PRandomWalk", "PMarkov", "PShuffle", "PFlipFlop"]


def gen_nested(rng):
    """Outer(Inner(args).seed(a), ...).seed(b) [and a third level], the seeds all different, seeded inner-first (the in-line
    form), outer-first or in a random order, then driven from the top with re-seeds of any level and resets in between"""
    top = rng.choice(["PSkip", "PSkip", "PShuffleInput", "PShuffleInput", "PSwitchOne", "PCoin"])

    def outer(cls):
        return {"cls": cls, "args": {"play": float(rng.choice([0.25, 0.5, 0.75, 0.3, 0.9]))} if cls == "PSkip" else
                {"every": rng.randint(2, 5)} if cls == "PShuffleInput" else {"length": rng.randint(2, 5)} if cls == "PSwitchOne" else {}}
    if top == "PCoin":
        inner = rng.choice([{"cls": "PWhite", "args": {"min": 0.1, "max": 0.9, "length": 0}},
                            {"cls": "PChoice", "args": {"values": [0.25, 0.5, 0.75], "weights": None}}])
        levels = [inner, outer("PCoin")]
    else:
        ic = rng.choice(NEST_INNER)
        a = gen_spec(rng, ic)
        if ic == "PWhite":
            a = {"min": rng.randint(-50, 50), "max": 0, "length": rng.choice([0, 0, 0, rng.randint(3, 9)])}
            a["max"] = a["min"] + rng.randint(5, 1000)
        if ic == "PShuffle":
            a["repeats"] = None
        levels = [{"cls": ic, "args": a}]
        if rng.random() < 0.2:
            levels.append(outer(rng.choice(["PSkip", "PShuffleInput"])))
        levels.append(outer(top))
    n = len(levels)
    seeds = rng.sample(range(1, 2 ** 31), n)
    order = list(range(n)) if rng.random() < 0.5 else list(range(n))[::-1] if rng.random() < 0.6 else rng.sample(range(n), n)
    ops = ["next"] * rng.randint(4, 12)
    for _ in range(rng.randint(0, 3)):
        k = rng.random()
        if k < 0.35:
            ops.append("reset")
        elif k < 0.8:
            ops.append(["seed", rng.randrange(n), rng.choice(seeds + [rng.randrange(2 ** 31)])])
            if rng.random() < 0.5:
                ops.append("reset")
        ops += ["next"] * rng.randint(2, 10)
    return {"kind": "nested", "levels": levels, "seeds": seeds, "order": order, "ops": ops,
            "record": n == 2 and top in ("PSkip", "PShuffleInput", "PSwitchOne")}


def outer_src(spec, src):
    c, a = spec["cls"], spec["args"]
    return {"PSkip": "iso.PSkip(%s, %r)" % (src, a.get("play")), "PShuffleInput": "iso.PShuffleInput(%s, %r)" % (src, a.get("every")),
            "PSwitchOne": "iso.PSwitchOne(%s, %r)" % (src, a.get("length")), "PCoin": "iso.PCoin(%s)" % src}[c]


def nest_ctor(levels, seeds):
    src = ctor(levels[0]) + ".seed(%d)" % seeds[0]
    for k in range(1, len(levels)):
        src = outer_src(levels[k], src) + ".seed(%d)" % seeds[k]
    return src


def nested_snippet(c):
    n = len(c["levels"])
    lines = ["import isobar as iso", "p0 = %s" % ctor(c["levels"][0])]
    for k in range(1, n):
        lines.append("p%d = %s" % (k, outer_src(c["levels"][k], "p%d" % (k - 1))))
    for lvl in c["order"]:
        lines.append("p%d.seed(%d)" % (lvl, c["seeds"][lvl]))
    for o in c["ops"]:
        lines.append("print(next(p%d, 'StopIteration'))" % (n - 1) if o == "next" else "p%d.reset()" % (n - 1) if o == "reset"
                     else "p%d.seed(%d)" % (o[1], o[2]))
    lines.append("# reference: every level a stand-alone instance with its own seed; level k reads level k-1 through iso.PFunc(lambda: next(ref[k-1]))")
    return "\n".join(lines)


def run_nested(run, n):
    rng = run.rng
    cases = [gen_nested(rng) for _ in range(n)]
    results = shard(run, cases)
    terms, meta = [], []
    for c, r in zip(cases, results):
        levels = c["levels"]
        top = levels[-1]["cls"]
        run.count(len(c["ops"]))
        run.dist("nested.%s-over-%s" % (top, levels[-2]["cls"]))
        run.dist("nested.depth-%d" % len(levels))
        run.dist("nested.order.%s" % ("inner-first" if c["order"] == sorted(c["order"]) else "outer-first" if c["order"] == sorted(c["order"], reverse=True) else "mixed"))
        if any(isinstance(o, list) for o in c["ops"]):
            run.dist("nested.re-seeded-later")
        if "driver_exception" in r:
            run.discard("nested: a constructor raises")
            continue
        site = "%s(%s)" % (top, levels[-2]["cls"])
        hit = False

        def rep(kind, detail):
            run.violation({"kind": kind, "site": site}, {
                "case": {"levels": levels, "seeds": c["seeds"], "seeded_in_order": c["order"], "ops": c["ops"]},
                "observed": detail,
                "oracle": "every pattern of a nest must produce the sequence of ITS OWN seed: the nest must behave as the composition of stand-alone "
                          "instances, each with its own arguments and seed, the outer ones reading the inner ones as opaque sources",
                "python": nested_snippet(c)})
        ev, ref = r["events"], r["ref_events"]
        run.cov["oracle_evaluations"] += len(ev)
        run.nontrivial(json.dumps([levels, c["seeds"], c["order"], c["ops"]], sort_keys=True))
        if r["global_touched"]:
            hit = True
            rep("global-generator-touched", "random.getstate() changed while the nest was driven")
        if ev != ref:
            hit = True
            j = next((j for j in range(min(len(ev), len(ref))) if ev[j] != ref[j]), None)
            rep("nested-not-its-own-seed", "output %r of %s is %r; the composition of stand-alone instances with the same arguments and seeds (seeded in the "
                "same order, driven by the same operations) gives %r (nest %r, stand-alone %r)" % (
                    j, nest_ctor(levels, c["seeds"]), ev[j] if j is not None else None, ref[j] if j is not None else None, ev[:12], ref[:12]))
        # supports through the nesting, against the values a STAND-ALONE level-0 instance with its seed produces
        raised = any(isinstance(e, dict) and "x" in e for e in ev) or any("raise" in seg for seg in r["pulls"])
        if raised:
            run.dist("nested.an-exception-in-the-nest")   # the source raised (invalid arguments): positions no longer align
        if len(levels) == 2 and top in ("PSkip", "PShuffleInput") and not hit and not raised:
            k = 0
            segs, cur = [], []
            for o in c["ops"]:
                if o == "next":
                    cur.append(ev[k]); k += 1
                elif o == "reset":
                    segs.append(cur); cur = []
            segs.append(cur)
            for seg, src in zip(segs, r["pulls"]):
                vals = [e for e in seg if isinstance(e, dict) and "v" in e]
                if top == "PSkip":
                    for j, e in enumerate(seg):
                        if isinstance(e, dict) and "v" in e and e["v"] is not None and (j >= len(src) or src[j] == "stop" or e["v"] != src[j]):
                            hit = True
                            rep("skip-passes-foreign-value", "PSkip output %d of a segment is %r; the seeded source alone produces %r there" % (
                                j, dec(e["v"]), dec(src[j]) if j < len(src) and src[j] != "stop" else None))
                            break
                else:
                    ke = levels[1]["args"]["every"]
                    sv = [x for x in src if x != "stop"]
                    for b in range(0, len(vals), ke):
                        blk, sblk = vals[b:b + ke], sv[b:b + ke]
                        if len(blk) == len(sblk) == ke and sorted(json.dumps(x["v"]) for x in blk) != sorted(json.dumps(x) for x in sblk):
                            hit = True
                            rep("shuffleinput-not-a-permutation", "block %d is %r, the seeded source's block is %r" % (
                                b // ke, [dec(x["v"]) for x in blk], [dec(x) for x in sblk]))
                            break
                if hit:
                    break
        # model: the outer machine of Pat/Chance.v over the stand-alone inner's sequence AS DATA, replaying the outer's recorded draws
        if not c.get("record") or "epochs" not in r:
            continue
        if any(isinstance(o, list) and o[1] == 0 for o in c["ops"]):
            run.dist("nested.model-skipped.inner-re-seeded-mid-script")
            continue
        if raised:
            run.dist("nested.model-skipped.an-exception-in-the-nest")   # the source raised (invalid arguments): judged by the oracle only
            continue
        src = max(r["pulls"], key=len)
        if any(s2 != src[:len(s2)] for s2 in r["pulls"]):
            run.dist("nested.model-skipped.segments-differ")
            continue
        vals = [x for x in src if x != "stop"]
        if not all(x is None or "i" in x for x in vals):
            continue
        if top != "PSkip" and any(x is None for x in vals):
            continue
        inp = [None if x is None else x["i"] for x in vals]
        spec = {"cls": top, "args": dict(levels[1]["args"], input=inp)}
        case = {"spec": spec, "ops": [o if isinstance(o, str) else ["seed", o[2]] for o in c["ops"]]}
        t = script_term(case, {"events": ev, "epochs": r["epochs"]})
        if t is None:
            continue
        terms.append(t)
        meta.append((c, r, hit))
    failing = run.coq_failing(HEADER, terms, chunk=100)
    run.cov["traces_validated_against_impl"] += len(terms) - len(failing)
    run.cov["nests_validated_against_model"] = len(terms) - len(failing)
    for i in failing:
        c, r, hit = meta[i]
        if hit:
            continue
        run.violation({"kind": "correspondence", "site": "nested:" + c["levels"][-1]["cls"]}, {
            "broken": "correspondence: the outer class's machine (Pat/Chance.v) over the sequence of a STAND-ALONE inner instance with its own seed, "
                      "replaying the outer's recorded draws, does not give the nest's outputs (C11_nested_* no longer describe this code)",
            "case": {"levels": c["levels"], "seeds": c["seeds"], "seeded_in_order": c["order"], "ops": c["ops"]},
            "observed": {"events": r["events"][:30], "standalone_source": r["pulls"]}, "python": nested_snippet(c), "coq_term": terms[i][:3000]},
            found_input=True)


# ---------------------------------------------------------------------------------------------------
# seed values of every kind, and reproducibility ACROSS interpreter processes (model Pat/ChanceSeed.v)
# ---------------------------------------------------------------------------------------------------
SEED_HEADER = HEADER.replace("Pat.Chance.", "Pat.Chance Pat.ChanceSeed.")
HASH_SEEDS = ["0", "1", "31337"]                         # + one drawn from run.rng per run


def impl_hashseed(run, payload, hashseed, timeout=1800):
    """run.impl on c11_impl.py, but in an interpreter whose string-hash salt is `hashseed` (common.env_for_impl pins 0)"""
    e = env_for_impl()
    e["PYTHONHASHSEED"] = hashseed
    pth = os.path.join(VERIF, "harness", "impl", "c11_impl.py")
    r = subprocess.run([PY, pth], input=json.dumps(payload), env=e, capture_output=True, text=True, timeout=timeout, cwd=run.work)
    if r.returncode != 0:
        raise CheckError("implementation driver c11_impl failed under PYTHONHASHSEED=%s (rc %d):\n%s" % (hashseed, r.returncode, r.stderr[-3000:]))
    return json.loads(r.stdout)


def gen_seedv(rng):
    k = rng.random()
    if k < 0.2:
        return {"k": "int", "v": rng.choice([0, 1, 42, rng.randrange(2 ** 31), rng.randrange(2 ** 63)])}
    if k < 0.3:
        return {"k": "int", "v": -rng.choice([1, 3, 42, rng.randrange(1, 2 ** 31)])}
    if k < 0.4:
        return {"k": "int", "v": rng.choice([1, -1]) * (2 ** rng.randint(64, 200) + rng.randrange(2 ** 40))}
    if k < 0.45:
        return {"k": "bool", "v": rng.random() < 0.5}
    if k < 0.6:
        f = rng.choice([0.25, -0.785, 3.0, 1e300, 0.1, -2.5e-7, 0.0, 123456.789, float(rng.randrange(2 ** 40)) / 1024,
                        -rng.random(), 5e-324, 1.7976931348623157e308])
        return {"k": "float", "v": list(f.as_integer_ratio())}
    if k < 0.8:
        return {"k": "str", "v": rng.choice(["verse", "chorus-2", "", "a", "bridge", "ü♪ intro", "section %d" % rng.randrange(100),
                                             "".join(rng.choice("abcxyz019 _-") for _ in range(rng.randint(1, 24)))])}
    b = rng.choice([b"bridge", b"", b"\x00", b"\xff\xfe\x00coda", bytes(rng.randrange(256) for _ in range(rng.randint(1, 20)))])
    return {"k": "bytes" if k < 0.92 else "bytearray", "v": list(b)}


def seedv_value(j):
    k, v = j["k"], j["v"]
    return v[0] / v[1] if k == "float" else bytes(v) if k == "bytes" else bytearray(v) if k == "bytearray" else bool(v) if k == "bool" else v


def seedv_digest(j):
    """sha512 of the bytes of a str / bytes / bytearray seed (data for the model's Section variable sha)"""
    import hashlib
    v = seedv_value(j)
    if isinstance(v, str):
        v = v.encode()
    return list(hashlib.sha512(bytes(v)).digest()) if isinstance(v, (bytes, bytearray)) else []


def seedv_key(j):
    """the non-negative int from which random.seed initialises the generator (CPython 3.12, version 2), computed
    here without random.seed: abs for ints, the unsigned 64-bit image of hash() for floats (hash of a float is not
    salted), int.from_bytes(a + sha512(a)) for str / bytes / bytearray"""
    v = seedv_value(j)
    if isinstance(v, (bool, int)):
        return abs(int(v))
    if isinstance(v, float):
        n, d = v.as_integer_ratio()
        P = 2 ** 61 - 1
        h = (abs(n) % P) * pow(d, P - 2, P) % P
        h = -h if n < 0 else h
        h = -2 if h == -1 else h
        return h % 2 ** 64
    b = v.encode() if isinstance(v, str) else bytes(v)
    return int.from_bytes(b + bytes(seedv_digest(j)), "big")


def seedv_coq(j):
    k, v = j["k"], j["v"]
    if k == "int":
        return "(SInt %s)" % zlit(v)
    if k == "bool":
        return "(SBool %s)" % ("true" if v else "false")
    if k == "float":
        return "(SFloat %s %d)" % (zlit(v[0]), v[1].bit_length() - 1)
    b = list(v.encode()) if k == "str" else list(v)
    return "(%s %s)" % ({"str": "SStr", "bytes": "SBytes", "bytearray": "SBytearray"}[k], zlist(b))


def seedv_repr(j):
    return repr(seedv_value(j))


def gen_xproc(rng, cls):
    svs = [gen_seedv(rng) for _ in range(3)]
    spec = {"cls": real_cls(cls), "args": gen_spec(rng, cls)}
    ops = []
    for _ in range(rng.randint(1, 3)):
        ops += ["next"] * rng.randint(1, 8)
        r = rng.random()
        if r < 0.35:
            ops.append("reset")
        elif r < 0.7:
            ops += [["seedv", rng.choice(svs)], "reset"]
        else:
            ops.append(["seedv", rng.choice(svs)])
    ops += ["next"] * rng.randint(1, 8)
    return {"kind": "script", "gen": cls, "spec": spec, "seed": 0, "seedv": svs[0], "ops": ops,
            "refs": {"seeds": [], "n": sum(1 for o in ops if o == "next")},
            "refsv": [[sv, seedv_key(sv)] for sv in svs], "svs": svs}


def xproc_snippet(c):
    lines = ["import isobar as iso", "p = %s.seed(%s)" % (ctor(c["spec"]), seedv_repr(c["seedv"])), "out = []"]
    for o in c["ops"]:
        lines.append("out.append(next(p, 'StopIteration'))" if o == "next" else "p.reset()" if o == "reset"
                     else "p.seed(%s)" % seedv_repr(o[1]))
    lines.append("print(out)   # the same list in every interpreter: run it with PYTHONHASHSEED=1 and PYTHONHASHSEED=2")
    return "\n".join(lines)


def run_xproc(run, per_cls):
    rng = run.rng
    cases = []
    for cls in MODELLED + ORACLE_ONLY:
        cases += [gen_xproc(rng, cls) for _ in range(per_cls)]
    salts = HASH_SEEDS + [str(rng.randrange(2, 2 ** 32 - 1))]
    payload = {"cases": [{k: v for k, v in c.items() if k not in ("svs", "gen")} for c in cases]}
    halves = [cases[0::2], cases[1::2]]
    jobs = [(h, s) for s in salts for h in (0, 1)]
    with ThreadPoolExecutor(max_workers=8) as ex:
        outs = list(ex.map(lambda hs: impl_hashseed(run, {"cases": [{k: v for k, v in c.items() if k not in ("svs", "gen")}
                                                                    for c in halves[hs[0]]]}, hs[1])["results"], jobs))
    per_salt = {}
    for (h, s), o in zip(jobs, outs):
        per_salt.setdefault(s, {}).update({id(c): r for c, r in zip(halves[h], o)})
    terms, meta = [], []
    kterms, kmeta = [], []
    for c in cases:
        run.count(len(c["ops"]) * len(salts))
        run.dist("xproc." + c["gen"])
        for sv in c["svs"]:
            run.dist("xproc.seed-kind.%s" % (sv["k"] if sv["k"] != "int" else "int-negative" if sv["v"] < 0 else
                                             "int-huge" if sv["v"] >= 2 ** 64 else "int"))
        rs = [per_salt[s][id(c)] for s in salts]
        if any("driver_exception" in r for r in rs):
            if not all("driver_exception" in r for r in rs):
                run.violation({"kind": "not-reproducible-across-processes", "site": c["spec"]["cls"]}, {
                    "case": {"class": c["spec"]["cls"], "args": c["spec"]["args"], "seed": seedv_repr(c["seedv"]), "ops": c["ops"]},
                    "observed": "the constructor raises under some PYTHONHASHSEED only: %r" % [r.get("driver_exception") for r in rs],
                    "python": xproc_snippet(c)})
            else:
                run.discard("xproc: constructor raises")
            continue
        site = c["spec"]["cls"] + ("(regular)" if c["spec"]["args"].get("regular") else "")

        def rep(kind, detail):
            run.violation({"kind": kind, "site": site}, {
                "case": {"class": c["spec"]["cls"], "args": c["spec"]["args"], "seed": seedv_repr(c["seedv"]),
                         "ops": [o if isinstance(o, str) else ["seed", seedv_repr(o[1])] for o in c["ops"]], "PYTHONHASHSEED": salts},
                "observed": detail,
                "oracle": "a pattern seeded with s produces the same sequence as any other instance with the same arguments and "
                          "seed: in this interpreter and in any other (the interpreters differ only in PYTHONHASHSEED)",
                "python": xproc_snippet(c)})
        run.nontrivial(json.dumps([c["spec"], c["seedv"], c["ops"]], sort_keys=True))
        hit = False
        ref = rs[0]["events"]
        run.cov["oracle_evaluations"] += len(ref) * len(salts)
        for s, r in zip(salts[1:], rs[1:]):
            if r["events"] != ref:
                hit = True
                j = next((j for j in range(min(len(ref), len(r["events"]))) if ref[j] != r["events"][j]), None)
                rep("not-reproducible-across-processes", "output %r differs between two runs of the same program: PYTHONHASHSEED=%s gives %r, "
                    "PYTHONHASHSEED=%s gives %r" % (j, salts[0], ref[:12], s, r["events"][:12]))
                break
        for s, r in zip(salts, rs):
            # within one interpreter: a fresh instance seeded with the same value, and one seeded with its int key
            for (sv, key), (a, b) in zip(c["refsv"], r["refsv"]):
                if a != b and not hit:
                    hit = True
                    rep("seed-value-not-its-key", "under PYTHONHASHSEED=%s a fresh instance seeded with %s gives %r, one seeded with the int "
                        "%d (what random.seed reduces that value to) gives %r" % (s, seedv_repr(sv), a[:10], key, b[:10]))
            if r["plain"] != r["events"] and not hit:
                hit = True
                rep("recorder-not-transparent", "PYTHONHASHSEED=%s: %r vs %r" % (s, r["events"][:12], r["plain"][:12]))
            # segments after reset() / seed(v);reset() replay a fresh instance seeded with that value
            cur, clean, k, seg = c["seedv"], True, 0, []
            stateless = c["spec"]["cls"] in STATELESS and not c["spec"]["args"].get("regular")

            def close():
                if clean and seg and not hit:
                    a = dict((json.dumps(sv, sort_keys=True), x[0]) for (sv, _), x in zip(c["refsv"], r["refsv"]))[json.dumps(cur, sort_keys=True)]
                    return a[:len(seg)] != seg
                return False
            for o in c["ops"]:
                if o == "next":
                    seg.append(r["events"][k]); k += 1
                    continue
                if close():
                    hit = True
                    rep("not-reproducible", "PYTHONHASHSEED=%s: after reset()/seed(%s) the outputs %r are not those of a fresh instance with "
                        "that seed" % (s, seedv_repr(cur), seg[:10]))
                seg = []
                if o == "reset":
                    clean = True
                else:
                    cur, clean = o[1], stateless
            if close():
                hit = True
                rep("not-reproducible", "PYTHONHASHSEED=%s: after reset()/seed(%s) the outputs %r are not those of a fresh instance with that "
                    "seed" % (s, seedv_repr(cur), seg[:10]))
        # model: (1) the key of every seed value, (2) the draws recorded in ONE interpreter replayed against the outputs of ANOTHER
        for sv, key in c["refsv"]:
            dg = seedv_digest(sv)
            kterms.append("Z.eqb (seed_key (fun _ => %s) %s) %s" % (zlist(dg), seedv_coq(sv), zlit(key)))
            kmeta.append((c, sv, key))
        if c["gen"] not in MODELLED:
            continue
        if c["gen"] in ("PChoice", "PSample") and not weighted_margin_ok(c, rs[0]):
            run.discard("weighted draw within 2^-30 of a cumulative boundary")
            continue
        if c["gen"] == "PWhite" and type(c["spec"]["args"]["min"]) is int and not int_trunc_margin_ok(c, rs[0]):
            run.discard("PWhite int: exact value within 2^-30 of an integer")
            continue
        for a, b in ((0, 1), (2, 3)):
            t = script_term(c, {"events": rs[b]["events"], "epochs": rs[a]["epochs"]})
            if t is None:
                run.discard("implementation value outside the model's value universe")
                continue
            terms.append(t)
            meta.append((c, salts[a], salts[b], hit))
    failing = run.coq_failing(HEADER, terms, chunk=100)
    run.cov["traces_validated_against_impl"] += len(terms) - len(failing)
    run.cov["cross_process_replays_validated"] = len(terms) - len(failing)
    for i in failing:
        c, sa, sb, hit = meta[i]
        if hit:
            continue
        run.violation({"kind": "correspondence", "site": "cross-process:" + c["spec"]["cls"]}, {
            "broken": "cross-process correspondence: the draws recorded under PYTHONHASHSEED=%s, replayed through the model, do not give the "
                      "outputs observed under PYTHONHASHSEED=%s (the sequence is not a function of arguments and seed only)" % (sa, sb),
            "case": {"class": c["spec"]["cls"], "args": c["spec"]["args"], "seed": seedv_repr(c["seedv"]), "ops": c["ops"]},
            "python": xproc_snippet(c), "coq_term": terms[i][:3000]}, found_input=True)
    kfail = run.coq_failing(SEED_HEADER, kterms, chunk=400)
    run.cov["seed_keys_validated"] = len(kterms) - len(kfail)
    for i in kfail:
        c, sv, key = kmeta[i]
        run.violation({"kind": "correspondence", "site": "seed_key:" + sv["k"]}, {
            "broken": "Pat/ChanceSeed.v seed_key disagrees with the reduction of random.seed for the seed value %s (expected key %d)" % (seedv_repr(sv), key),
            "case": {"seed": seedv_repr(sv)}, "coq_term": kterms[i][:2000]}, found_input=True)


# ---------------------------------------------------------------------------------------------------
def check(run):
    quick = run.tier == "quick"
    per_cls = 110 if quick else 1500
    cases = []
    for cls in MODELLED:
        cases += [gen_script(run.rng, cls) for _ in range(per_cls)]
    for cls in ORACLE_ONLY:
        cases += [gen_script(run.rng, cls) for _ in range(per_cls // 2)]
    for cls in MODELLED:
        cases += [gen_forced_script(run.rng, cls) for _ in range(per_cls // 3)]
    for i in range(0, len(cases), 2400):
        run_scripts(run, cases[i:i + 2400])
    run_worlds(run, 120 if quick else 1500)
    run_util(run, 300 if quick else 3000)
    run_freq(run, 10000 if quick else 100000)
    run_families(run, 14 if quick else 200)
    run_xproc(run, 6 if quick else 80)
    run_nested(run, 240 if quick else 4000)
    run.cov["exhaustive"] = False
    run.cov["rule"] = ("one case = one script (class, arguments, seed, sequence of next/reset/seed operations) run on the real class with a "
                       "recording generator and replayed through the Coq model; or one world schedule (2-5 patterns + global generator "
                       "operations) compared with each pattern's solo run; or one (weights, u) pair for util.*; distinct by content hash; "
                       "non-trivial = at least one next().  Float outputs are compared by enclosure, weighted draws within 2^-30 of a "
                       "boundary are discarded.")


def replay(run, doc):
    case = doc.get("case", {})
    if "ops" in case and "class" in case:
        gen = case["class"]
        c = {"kind": "script", "gen": gen if gen in MODELLED else "oracle-only", "spec": {"cls": case["class"], "args": case["args"]},
             "seed": case["seed"], "ops": case["ops"], **({"forced": case["forced"]} if case.get("forced") else {}),
             "refs": {"seeds": sorted({case["seed"]} | {o[1] for o in case["ops"] if isinstance(o, list)}), "n": sum(1 for o in case["ops"] if o == "next")}}
        if not run.build():
            return run.finish()
        run_scripts(run, [c])
        rc = 1 if run.violations else 0
        print("replay: %s" % ("still failing" if rc else "passes now"))
        return rc
    print("replay: re-running the whole check")
    if run.build():
        check(run)
    return run.finish()

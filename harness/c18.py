"""C18 — automations reach their target on time; LFOs stay in range and periodic.
Theorems: coq/Props/C18.v about the models coq/Auto/Automation.v (envelope weights, modulations, tick / move_to /
move_by / jump_to / value / bindings over exact rationals) and coq/Auto/Lfo.v (LFO.tick over an abstract sin2pi).
Correspondence: scenarios are run on the repository (manually ticked Timeline, recording device, DummyClock) and on
the model inside coqc (vm_compute, coq/Auto/Corr.v); every value after every operation and tick, every binding
call and every rejected call is compared.  Oracle: written from the property text with fractions.Fraction —
arrival tick ceil(duration / tick), exact target, monotone approach, range, binding calls, LFO range /
periodicity / pattern read — and judges the implementation's trace alone.
Second round (seeded C18-e, C18-f): histories in which timeline.ticks_per_beat is re-assigned / the clock source replaced
mid-run (coq/Auto/Retime.v: the resolution is carried in the state of the run; theorems C18_retime_*), and several bound
objects that compare equal without being identical (coq/Auto/Targets.v; C18_bindings_history, C18_bindings_equal_targets).
Third round (seeded C18-h): the LFO is read through patterns (PLFO in expressions / PConcatenate / PReset / PPingPong / finite
wrappers / track event streams) that are advanced, reset, drained, copied, constructed while it runs (coq/Auto/Readers.v threads
the LFO through every pattern operation; C18_reader_pure_observer, C18_reader_reads_value, C18_readers_history, C18_readers_read_in_history)."""
import math
from common import *

PROP = "C18"
EXTRA_TARGETS = ["Auto/Corr.vo", "Auto/CorrRetime.vo", "Auto/CorrReaders.vo"]
META = {
 "engine": "S-scheduler-automation",
 "text": "Coq theorems (Props/C18.v, closed under the global context) about an executable model over exact rationals of isobar/timelines/automation.py and lfo.py: for every duration N >= 1 ticks and envelope length 0 <= E <= N the envelope weights (linspace ramps written by the two slice assignments in the code's order, divided by their mean) are >= 0 and sum to N; after move_to / move_by with any duration >= 0 and envelope fraction in [0,1] the value after max(ceil(round8(duration*tpb)),1) ticks is exactly the target, every step in between moves toward it and nothing moves afterwards; whole-tick durations give exactly that many ticks despite float error; the reported value is in [lo,hi] (clip) / [lo,hi) (wrap), congruent modulo the width and unchanged when inside; every change calls every binding exactly once with the new reported value; a sine LFO stays in [min,max], repeats after ticks_per_beat/frequency ticks when that is whole and PLFO yields exactly lfo.value (sin enters as a Section variable with -1 <= sin2pi x <= 1 and sin2pi (x+1) == sin2pi x). The model is tied to the repository on every run: generated scenarios (move_to / move_by / jump_to / bind_to, overlapping and interrupted moves, clip / wrap / no range, 0-3 bindings of both kinds, ticks_per_beat 10/24/96/480, durations 0 .. 16 beats whole and fractional, envelope fractions 0 .. 1, malformed calls) are executed on a manually ticked Timeline and compared inside coqc with the model after every operation and tick (values to 1e-9, change / call pattern and rejected calls exactly); LFOs are compared with the model evaluated on a table of math.sin values and read through PLFO from scheduled tracks. LFOs and automations are also re-configured at random ticks (attribute assignment, LFO.update, Timeline.lfo under the name of an existing LFO, LFO.reset; range / boundaries / default_duration of an automation right after a call, mid-move and after arrival): the model carries the parameters in its state (theorems C18_lfo_reconfig_range / _config / _periodic, C18_timeline_lfo_in_place, C18_reconfig_auto) and the oracle judges every tick against the configuration given last. The timeline's resolution is changed in the middle of a run as well (timeline.ticks_per_beat = n, or a new clock source; before the first tick, after one tick, mid-period / mid-move, after whole periods / after arrival; finer, coarser, multiples, divisors; once or twice): Auto/Retime.v carries the resolution in the state of a history, theorems C18_retime_lfo_range / _phase / _periodic_beats / _segment say that after any such history the value is in range, is the waveform at the BEAT position (every tick counted with the tick length in force at that tick) and repeats every 1/frequency beats across the change, C18_retime_move_to / _move_by that a move made after a change lasts ceil(duration / new tick) ticks and a move under way keeps its ticks; the oracle judges period in beats across the change, and for a move under way only what both readings of 'tick' agree on. Several targets bound to one automation that compare equal at bind time without being identical (dataclass voices / strips with equal fields, a class defining __eq__, next to plain objects, both modes; bound upfront, mid-move, after arrival, after jump_to): Auto/Targets.v, theorems C18_bindings_history (after any history every binding ever made is called, once per binding, in order) and C18_bindings_equal_targets (whatever the targets' equality keys); every target's identity is recorded by the driver and every one must receive every new value. The LFO is also read through patterns while it runs: 2-4 readers of one LFO (PLFO, arithmetic expressions, finite wrappers, PConcatenate, PReset, PPingPong, nestings) and 0-2 tracks are advanced, reset, drained by all() / len(), copied, constructed mid-cycle, the tracks reset (Track.reset, timeline.schedule(track), timeline.reset) or re-scheduled by name, between ticks; Auto/Readers.v threads the LFO through every pattern operation, theorems C18_reader_pure_observer (no operation on any reader tree changes the LFO; results depend on it only through lfo.value), C18_reader_reads_value, C18_readers_history (the LFO after any interleaving is that of the tick-only history, hence in range and periodic), C18_readers_read_in_history; the oracle demands periodicity over the whole history, lfo.value unchanged by pattern operations and every reader / witness / binding / track agreeing with lfo.value. An independent Fraction oracle judges arrival tick, target, monotonicity, range, calls, LFO range / period / pattern read on the implementation's trace alone.",
 "note": "Trusted: Coq kernel + VM; the Python harness and driver; libm's sin (math.sin values enter the model as a table; the theorems assume only boundedness and periodicity of sin2pi as Section hypotheses); IEEE double arithmetic of numpy/CPython is validated against exact rationals to 1e-9, not modelled, so 'exactly the target' is exact in the model and 1e-9 on the implementation. int(envelope * ticks) and round(x, 8) are modelled on exact rationals; cases where the float product and the exact product fall on different sides of an integer / rounding tie are discarded (counted). Re-configuration after construction (lfo.min/max/frequency assigned, LFO.update, Timeline.lfo(name=existing), LFO.reset; automation.range / boundaries / default_duration re-assigned, also mid-move) is modelled, proved (in range of the CURRENT bounds after any history, period of the CURRENT frequency, moves arrive as they would have) and compared on every run; the value shown between a re-configuration and the next tick and binding calls at a range assignment are compared with the model only. Not covered: bounce_to, curve='exponential', ease, boundaries='fold' (unimplemented in isobar), LFO.pause/unpause/stop, value_changed_callbacks (never invoked by isobar).",
}

HEADER = """From Isobar Require Import Base.Prelude Auto.Automation Auto.Lfo Auto.Corr Auto.Retime Auto.CorrRetime Auto.Readers Auto.CorrReaders.
From Coq Require Import QArith Uint63.
Local Open Scope Q_scope.
Definition S_ (o : option op) (e : option (int * list (Z * int))) (t : list int) := mkSeg o e t.
Definition LS_ (o : option lfo_op) (v : option int) (t : list int) := mkLseg o v t.
Definition RS_ (o : option ra_op) (e : option (int * list (Z * int))) (t : list int) := mkRseg o e t.
Definition RLS_ (o : option rl_op) (v : option int) (t : list int) := mkRlseg o v t.
"""

TPBS = [10, 24, 96, 480]
ENVS = [0.0, 0.04, 0.25, 0.5, 0.75, 1.0]
OFFSET = 1 << 61


# ---- literals ---------------------------------------------------------------------------------------
def ilit(x, flag=0, scale=10 ** 12):
    """primitive-int literal of a float: 2 * (round(x * scale) + 2^61) + flag"""
    z = round(Fraction(x) * scale)
    if abs(z) >= OFFSET:
        raise CheckError("value out of literal range: %r" % (x,))
    return "%d" % (2 * (z + OFFSET) + (1 if flag else 0))


def oq(x):
    return "None" if x is None else "(Some %s)" % qlit(x)


def op_term(op):
    if op is None:
        return "None"
    k = op[0]
    if k == "move_to":
        return "(Some (OMoveTo %s %s %s))" % (qlit(op[1]), oq(op[2]), qlit(0.5 if op[3] is None else op[3]))
    if k == "move_by":
        return "(Some (OMoveBy %s %s %s))" % (qlit(op[1]), oq(op[2]), qlit(0.5 if op[3] is None else op[3]))
    if k == "jump_to":
        return "(Some (OJumpTo %s))" % qlit(op[1])
    if k == "bind":
        return "(Some (OBind %d%%Z))" % op[-1]
    if k == "set_range":
        return "(Some (OSetRange %s))" % ("None" if op[1] is None else "(Some (%s, %s))" % (qlit(op[1][0]), qlit(op[1][1])))
    if k == "set_boundaries":
        return "(Some (OSetBound %s))" % ("Wrap" if op[1] == "wrap" else "Clip")
    if k == "set_default":
        return "(Some (OSetDefault %s))" % qlit(op[1])
    raise CheckError("op %r" % (op,))


def has_retime(sc):
    return any(sg.get("op") is not None and sg["op"][0] == "set_tpb" for sg in sc["segs"])


def rop_term(op):
    """an operation of a history with resolution changes (Auto/Retime.v)"""
    if op is None:
        return "None"
    if op[0] == "set_tpb":
        return "(Some (RATpb %d%%Z))" % op[1]
    return "(Some (RA %s))" % op_term(op)[len("(Some "):-1]


def auto_init_term(sc):
    rng = "None" if sc.get("range") is None else "(Some (%s, %s))" % (qlit(sc["range"][0]), qlit(sc["range"][1]))
    b = "Wrap" if sc.get("boundaries") == "wrap" else "Clip"
    dd = sc.get("default_duration")
    return "(new_automation %s %s %s %s)" % (rng, b, oq(sc.get("initial")), qlit(0.0 if dd is None else dd))


def number_bind_ops(sc):
    """bind ops get their binding id (order of binding) as last element, for the model"""
    n = 0
    for sg in sc["segs"]:
        op = sg.get("op")
        if op is not None and op[0] == "bind":
            if not (isinstance(op[-1], int) and len(op) == 4):
                op.append(n)
            n += 1
    return n


def auto_term(sc, res):
    """Coq boolean: the model reproduces everything the implementation showed on this scenario.
    Returns None when the trace cannot be expressed (implementation raised inside a tick: oracle reports)."""
    rt = has_retime(sc)      # the resolution changes along the way: the history runs on Auto/Retime.v (ra_step)
    S, term = ("RS_", rop_term) if rt else ("S_", op_term)
    segs = ["%s None (Some (%s%%uint63, [])) []" % (S, ilit(res["init"]))]
    for sg, r in zip(sc["segs"], res["segs"]):
        if r["raise"] is not None:
            if r["ticks"] or r["value"] is not None:
                return None
            segs.append("%s %s None []" % (S, term(sg.get("op"))))
            break
        calls = lst(["(%d%%Z, %s%%uint63)" % (c[0], ilit(c[1])) for c in r["calls"]])
        ticks = lst([ilit(v, 0 if c == 0 else 1) for v, c in r["ticks"]])
        segs.append("%s %s (Some (%s%%uint63, %s)) %s%%uint63" % (S, term(sg.get("op")), ilit(r["value"]), calls, ticks))
    if rt:
        return "check_rsegs (%d%%Z, %s) [%s]" % (sc["tpb"], auto_init_term(sc), ";\n ".join(segs))
    return "check_segs %d%%Z %s [%s]" % (sc["tpb"], auto_init_term(sc), ";\n ".join(segs))


def sin_table(sc):
    F, tpb = Fraction(sc["freq"]), sc["tpb"]
    tab = []
    for k in range(sc["ticks"] + 1):
        ph = (k * F / tpb) % 1
        tab.append(math.sin(2 * math.pi * float(ph)))
    return tab


def lfo_term(sc, res):
    tab = lst([ilit(s, 0, 10 ** 15) for s in sin_table(sc)])
    return "check_lfo %s%%uint63 %d%%Z %s %s %s %s%%uint63 %s%%uint63" % (
        tab, sc["tpb"], qlit(sc["freq"]), qlit(sc["min"]), qlit(sc["max"]), ilit(res["init"]),
        lst([ilit(v) for v in res["values"]]))


# ---- which cases the exact model can vouch for ---------------------------------------------------------
def model_ticks(tpb, d):
    """duration in ticks as the model computes it (exact): ceil(round8(d * tpb)); None when the exact product
    is too close to a rounding tie of round(x, 8) for float and exact arithmetic to be sure to agree"""
    x = Fraction(d) * tpb * 10 ** 8
    fl = math.floor(x)
    r = x - fl
    if abs(r - Fraction(1, 2)) < Fraction(1, 1000):
        return None
    k = fl if r < Fraction(1, 2) else fl + 1
    return math.ceil(Fraction(k, 10 ** 8))


def vouchable(sc):
    """False when int(envelope * ticks) differs between float and exact arithmetic (the model works on exact
    rationals), or round(x, 8) is at a tie"""
    dd = sc.get("default_duration")
    tpb = sc["tpb"]
    for sg in sc["segs"]:
        op = sg.get("op")
        if op is not None and op[0] == "set_default":
            dd = op[1]
        if op is not None and op[0] == "set_tpb":
            tpb = op[1]
        if op is None or op[0] not in ("move_to", "move_by"):
            continue
        d = op[2] if op[2] is not None else (0.0 if dd is None else dd)
        n = model_ticks(tpb, d)
        if n is None:
            return False
        e = 0.5 if op[3] is None else op[3]
        if n >= 0 and int(e * n) != int(Fraction(e) * n):
            return False
    return True


# ---- independent oracle --------------------------------------------------------------------------------
def approx(a, b, tol=1e-9):
    return abs(a - b) <= tol * max(1.0, abs(a), abs(b))


def report_exact(sc, cv):
    """the value the property demands to be reported for an exact current value"""
    if sc.get("range") is None:
        return cv
    lo, hi = Fraction(sc["range"][0]), Fraction(sc["range"][1])
    if sc.get("boundaries") == "wrap":
        return lo + (cv - lo) % (hi - lo)
    return max(lo, min(hi, cv))


def approx_report(sc, x, cv):
    want = report_exact(sc, cv)
    if approx(x, float(want)):
        return True
    if sc.get("range") is not None and sc.get("boundaries") == "wrap":
        lo, hi = sc["range"]
        r = float((cv - Fraction(lo)) % (Fraction(hi) - Fraction(lo)))
        near = min(r, (hi - lo) - r) <= 1e-9 * max(1.0, abs(float(cv)))
        return near and (approx(x, lo) or approx(x, hi))
    return False


def oracle_auto(sc, info, res):
    """Judges the implementation's trace alone.  Returns list of (kind, detail, tick)."""
    bad = []
    tpb = sc["tpb"]
    # the range and boundary mode declared LAST (they may be re-assigned after construction)
    cfg = {"range": sc.get("range"), "boundaries": sc.get("boundaries")}
    nbind = 0

    def in_range(x, where):
        rng = cfg["range"]
        if rng is None:
            return
        lo, hi = rng
        if not (lo - 1e-12 * max(1, abs(lo)) <= x <= hi + 1e-12 * max(1, abs(hi))):
            bad.append(("out-of-range", "value %r outside range %r (%s) %s" % (x, rng, cfg["boundaries"], where), None))

    # exact bookkeeping from the property text
    init = info["initial_exact"]
    cv = init              # exact settled current value, None = unknown
    target = init          # exact current value demanded once every active move has arrived, None = unknown
    arrive = 0             # tick count by which every active move has arrived
    direction = 0          # +1 / -1 / 0 known direction of all active moves, None = mixed or unknown
    t = 0                  # ticks so far
    if not approx_report(cfg, res["init"], init):
        bad.append(("initial-value", "value after creation is %r, expected %r" % (res["init"], float(report_exact(cfg, init))), 0))
    in_range(res["init"], "after creation")
    prev = res["init"]
    if not res.get("registered"):
        bad.append(("not-registered", "timeline.automation() did not register the automation with the timeline", 0))
    for si, (sg, oi, r) in enumerate(zip(sc["segs"], info["segs"], res["segs"])):
        op = sg.get("op")
        valid = oi.get("valid", True)
        if r["raise"] is not None:
            if valid:
                bad.append(("raises", "%s raised %s: %s" % (op if not r["ticks"] and r["value"] is None else "tick", r["raise"], r.get("message")), t))
            break
        if not valid:
            bad_unknown = True   # the real code accepted a call outside the property's domain: no expectation
            cv = target = None
            direction = None
        elif op is not None:
            settled = t >= arrive
            if settled and target is not None:
                cv = target
            if op[0] in ("move_to", "move_by"):
                n = max(math.ceil(oi["D"] * tpb), 1)
                if op[0] == "move_to":
                    newt = Fraction(op[1])
                    direction = None if (not settled or cv is None) else (newt > cv) - (newt < cv)
                    target, arrive = newt, t + n
                else:
                    dv = Fraction(op[1])
                    sgn = (dv > 0) - (dv < 0)
                    if settled:
                        target = None if cv is None else cv + dv
                        direction, arrive = sgn, t + n
                    else:
                        target = None if target is None else target + dv
                        direction = direction if (direction is not None and (sgn == direction or sgn == 0)) else \
                            (sgn if direction == 0 else None)
                        arrive = max(arrive, t + n)
                cv = None if not settled else cv
            elif op[0] == "jump_to":
                if settled:
                    cv = target = Fraction(op[1])
                    direction = 0
                else:
                    cv = target = None
                    direction = None
            elif op[0] == "bind":
                nbind += 1
            elif op[0] == "set_range":
                cfg["range"] = op[1]
            elif op[0] == "set_boundaries":
                cfg["boundaries"] = op[1]
            elif op[0] == "set_tpb":
                # the timeline's resolution changes: from now on a tick lasts 1 / op[1] beats, and a move made from now on
                # lasts ceil(duration / that tick) ticks.  For a move under way the text does not say which tick
                # length counts: it has to be on target once both readings agree that it has arrived (the ticks
                # counted at the call, or the beats that were left re-counted in new ticks), approach monotonically and
                # stay put afterwards; when exactly in between is compared with the model only
                if t < arrive:
                    left = arrive - t
                    arrive = t + max(left, math.ceil(Fraction(left * op[1], tpb)))
                tpb = op[1]
        # observation right after the operation
        x = r["value"]
        in_range(x, "after %s" % (op,))
        if op is not None and op[0] in ("move_to", "move_by") and valid:
            if x != prev:
                bad.append(("moves-before-tick", "%s changed the reported value immediately (%r -> %r)" % (op[0], prev, x), t))
            if r["calls"]:
                bad.append(("binding-call", "%s called bindings %r" % (op[0], r["calls"]), t))
        if op is not None and op[0] == "jump_to":
            if t >= arrive and cv is not None and not approx_report(cfg, x, cv):
                bad.append(("jump-value", "jump_to(%r) reports %r" % (op[1], x), t))
            ids = [c[0] for c in r["calls"]]
            if ids != list(range(nbind)) or not all(c[1] == x and c[2] for c in r["calls"]):
                bad.append(("binding-call", "jump_to(%r): value %r, bindings received %r (expected one call each of %d bindings with the value)" % (op[1], x, r["calls"], nbind), t))
        if op is not None and op[0] == "set_tpb":
            if x != prev:
                bad.append(("moves-before-tick", "changing the resolution changed the reported value (%r -> %r)" % (prev, x), t))
            if r["calls"]:
                bad.append(("binding-call", "changing the resolution called bindings %r" % (r["calls"],), t))
        if op is not None and op[0] in ("set_range", "set_boundaries", "set_default") and valid:
            # the reported value is the current value clipped / wrapped into the range declared now
            if t >= arrive and cv is not None and not approx_report(cfg, x, cv):
                bad.append(("reconfig-value", "after %r the settled value %r is reported as %r, expected %r" % (op, float(cv), x, float(report_exact(cfg, cv))), t))
        if op is not None and op[0] == "bind":
            if [c[0] for c in r["calls"]] != [nbind - 1] or r["calls"][0][1] != x or not r["calls"][0][2]:
                bad.append(("binding-call", "bind_to: value %r, new binding received %r" % (x, r["calls"]), t))
        prev = x
        for x, code in r["ticks"]:
            t += 1
            in_range(x, "after tick %d" % t)
            if code not in (0, 1):
                bad.append(("binding-call", "tick %d: value %r but bindings received %r (expected each of %d bindings once, with the value)" % (t, x, code, nbind), t))
            elif nbind and code == 0 and not approx(x, prev, 1e-12):
                bad.append(("binding-missed", "tick %d: value changed %r -> %r but no binding was called" % (t, prev, x), t))
            if t >= arrive and target is not None:
                if not approx_report(cfg, x, target):
                    bad.append(("not-on-target", "tick %d (move due by tick %d): value %r, target %r" % (t, arrive, x, float(report_exact(cfg, target))), t))
            elif t < arrive or target is None:
                pass
            if direction is not None and not (cfg["range"] is not None and cfg["boundaries"] == "wrap"):
                step = x - prev
                tol = 1e-9 * max(1.0, abs(x))
                if t <= arrive:
                    if step * direction < -tol or (direction == 0 and abs(step) > tol):
                        bad.append(("not-monotone", "tick %d: value went %r -> %r while moving %s" % (t, prev, x, {1: "up", -1: "down", 0: "nowhere"}[direction]), t))
                elif abs(step) > tol:
                    bad.append(("moves-after-arrival", "tick %d (> %d): value went %r -> %r" % (t, arrive, prev, x), t))
            prev = x
    # the scheduled probe track reads, during tick j, the value of tick j (automations are ticked before tracks)
    flat = [x for r in res["segs"] for x, _ in r["ticks"]]
    if sc.get("probe") and flat:
        if not res["probe"]:
            bad.append(("probe-silent", "the scheduled track never ran", None))
        for j, v in res["probe"]:
            if j < len(flat) and v != flat[j]:
                bad.append(("track-reads-stale", "track event in tick %d read automation.value = %r, value after that tick's update is %r" % (j + 1, v, flat[j]), j + 1))
                break
    return bad


def oracle_lfo(sc, res):
    bad = []
    if res["raise"] is not None:
        return [("raises", "LFO scenario raised %s: %s" % (res["raise"], res.get("message")), None)]
    lo, hi = sc["min"], sc["max"]
    eps = 1e-12 * max(1.0, abs(lo), abs(hi))
    if not (lo - eps <= res["init"] <= hi + eps):
        bad.append(("lfo-out-of-range", "value before the first tick is %r, outside [%r, %r]" % (res["init"], lo, hi), 0))
    if res["pattern_class"] != "PLFO" or res["init_pattern"] != res["init"]:
        bad.append(("lfo-pattern", "Pattern.pattern(lfo) is %s and reads %r, lfo.value is %r" % (res["pattern_class"], res["init_pattern"], res["init"]), 0))
    if not res.get("registered"):
        bad.append(("not-registered", "timeline.lfo() did not register the LFO", 0))
    vals = res["values"]
    for k, x in enumerate(vals):
        if not (lo - eps <= x <= hi + eps):
            bad.append(("lfo-out-of-range", "tick %d: value %r outside [%r, %r]" % (k + 1, x, lo, hi), k + 1))
            break
    for k, (x, p, b) in enumerate(zip(vals, res["pattern"], res["bound"])):
        if p != x or b != x:
            bad.append(("lfo-pattern", "tick %d: lfo.value %r, pattern read %r, bound attribute %r" % (k + 1, x, p, b), k + 1))
            break
    period = Fraction(sc["tpb"]) / Fraction(sc["freq"])
    if period.denominator == 1 and period > 0:
        p = int(period)
        amp = max(abs(hi - lo), 1e-300)
        for k in range(len(vals) - p):
            if abs(vals[k + p] - vals[k]) > 1e-9 * max(1.0, abs(lo), abs(hi), amp):
                bad.append(("lfo-not-periodic", "value after tick %d is %r, one period (%d ticks) later %r" % (k + 1, vals[k], p, vals[k + p]), k + 1))
                break
        if p >= 4 and len(vals) >= p and hi > lo:
            # a whole period of a sine covers both halves of the range
            if not (min(vals[:p]) < (lo + hi) / 2 - 0.2 * (hi - lo) and max(vals[:p]) > (lo + hi) / 2 + 0.2 * (hi - lo)):
                bad.append(("lfo-not-periodic", "one period (%d ticks) spans only [%r, %r] of range [%r, %r]" % (p, min(vals[:p]), max(vals[:p]), lo, hi), p))
    # tracks run after the LFOs of the same tick: an event of tick j reads the value of tick j
    for name in ("controls", "action_args"):
        got = res[name]
        if not got:
            bad.append(("lfo-track-silent", "scheduled track (%s) never ran" % name, None))
        for j, v in got:
            if j < len(vals) and v != vals[j]:
                bad.append(("track-reads-stale", "%s: track event in tick %d read %r through the pattern, lfo.value after that tick's update is %r" % (name, j + 1, v, vals[j]), j + 1))
                break
    return bad


# ---- generators ------------------------------------------------------------------------------------------
def ceil_traps(tpb, limit):
    """whole-tick durations k / tpb whose float quotient by the float tick duration is above k"""
    td = 1.0 / tpb
    return [k for k in range(1, limit) if (k / tpb) / td > k]


def mk_move(kind, v, D, e, ticks, valid=True):
    """D: exact intended duration in beats (Fraction) or None"""
    return ({"op": [kind, v, None if D is None else float(D), e], "ticks": ticks}, {"D": D, "valid": valid})


def make_case(tpb, segs_infos, rangecfg=None, initial=None, default_duration=None, probe=None, tag=""):
    sc = {"tpb": tpb, "range": None, "boundaries": None, "initial": initial, "default_duration": default_duration,
          "probe": probe, "segs": [s for s, _ in segs_infos], "tag": tag}
    if rangecfg is not None:
        sc["range"], sc["boundaries"] = [rangecfg[0], rangecfg[1]], rangecfg[2]
    if initial is None:
        ie = Fraction(0) if sc["range"] is None else (Fraction(sc["range"][0]) + Fraction(sc["range"][1])) / 2
    else:
        ie = Fraction(initial)
    info = {"segs": [i for _, i in segs_infos], "initial_exact": ie}
    dd = default_duration
    for sg, oi in zip(sc["segs"], info["segs"]):
        if sg.get("op") is not None and sg["op"][0] == "set_default":
            dd = sg["op"][1]
        if oi.get("D") is None and sg.get("op") is not None and sg["op"][0] in ("move_to", "move_by"):
            oi["D"] = Fraction(0.0 if dd is None else dd)
    number_bind_ops(sc)
    return sc, info


def bind_seg(rng, mode=None):
    mode = mode or rng.choice(["attr", "method"])
    kw = {} if mode == "attr" else rng.choice([{}, {"channel": 3}, {"channel": 1, "curve": "x"}])
    return ({"op": ["bind", mode, kw], "ticks": rng.choice([0, 0, 1])}, {})


VALUES = [0.0, 1.0, 8.0, 2.0, -3.0, 0.5, 0.25, 0.1, 0.3, 7.5, 10.0, 12.0, -1.5, 64.0, 127.0, 3.3, 0.7, 100.0, -20.0]
RANGES = [(0.0, 1.0), (0.0, 10.0), (2.0, 5.0), (1.0, 3.0), (-1.0, 1.0), (0.0, 127.0), (-5.0, -2.0), (0.1, 0.7), (20.0, 20000.0)]


def rand_value(rng, rangecfg=None):
    r = rng.random()
    if rangecfg is not None and r < 0.55:
        lo, hi = rangecfg[0], rangecfg[1]
        w = hi - lo
        k = rng.choice([0, 1, 2, 3, 4, 5, 6, 7, 8])
        if rng.random() < 0.3:   # outside the range, on either side
            return lo + w * rng.choice([-1.75, -1.0, -0.25, 1.0, 1.25, 2.5])
        return lo + w * k / 8
    if r < 0.8:
        return rng.choice(VALUES)
    return round(rng.uniform(-50, 50), rng.choice([0, 1, 2, 3]))


def rand_duration(rng, tpb, long_ok=False):
    """exact intended duration in beats: whole and fractional numbers of ticks, never within 0.05 tick above a whole tick"""
    r = rng.random()
    if r < 0.12:
        return Fraction(0)
    if r < 0.27:
        return Fraction(1, tpb)
    if r < 0.5:
        return Fraction(rng.choice([2, 3, 4, 5, 6, 7, 9, 11, 13, 17, 23, 31]), tpb)
    if r < 0.65:
        return Fraction(rng.randint(0, 12) * 20 + rng.choice([5, 10, 15, 6, 13]), 20 * tpb)   # fractional ticks
    beats = [Fraction(1, 4), Fraction(1, 2), Fraction(1), Fraction(3, 2), Fraction(1, 3), Fraction(2), Fraction(1, 8), Fraction(3, 4)]
    if long_ok:
        beats += [Fraction(4), Fraction(8), Fraction(16), Fraction(5, 2)]
    d = rng.choice(beats)
    fr = (d * tpb) % 1
    if fr != 0 and not (Fraction(1, 20) <= fr <= Fraction(19, 20)):
        d = Fraction(math.floor(d * tpb), tpb)
    return d


def rand_env(rng):
    r = rng.random()
    if r < 0.75:
        return rng.choice(ENVS)
    if r < 0.9:
        return rng.choice([0.125, 0.0625, 0.375, 0.875, 0.9375, 0.03125])
    return round(rng.random(), 2)


def gen_grid(run):
    """every ticks_per_beat x envelope fraction x short duration (the property's corner cases), run to arrival + 3"""
    cases = []
    for tpb in TPBS:
        durs = [Fraction(0), Fraction(1, tpb), Fraction(2, tpb), Fraction(3, tpb), Fraction(5, tpb), Fraction(1, 2 * tpb),
                Fraction(3, 2 * tpb), Fraction(5, 2 * tpb), Fraction(1, 4), Fraction(1), Fraction(1, 3)]
        for e in ENVS:
            for i, D in enumerate(durs):
                if (D * tpb) % 1 != 0 and not (Fraction(1, 20) <= (D * tpb) % 1 <= Fraction(19, 20)):
                    D = Fraction(math.floor(D * tpb), tpb)
                n = max(math.ceil(D * tpb), 1)
                kind = "move_to" if (i + len(cases)) % 3 else "move_by"
                start, tgt = [(2.0, 8.0), (0.5, -3.0), (0.0, 1.0), (7.5, 0.25)][(i + int(e * 4)) % 4]
                v = tgt if kind == "move_to" else tgt - start
                segs = [bind_seg(run.rng, "attr" if i % 2 else "method")] if i % 3 == 0 else []
                segs.append(mk_move(kind, v, D, e, n + 3))
                cases.append(make_case(tpb, segs, initial=start, probe=1 if i % 4 == 0 else None, tag="grid"))
    return cases


def gen_traps(run, per_tpb):
    """whole-tick durations whose float quotient exceeds the integer (ceil would add a tick): envelope 0 shows it"""
    cases = []
    for tpb in TPBS:
        ks = ceil_traps(tpb, 5 * tpb + 1)
        small = [k for k in ks if k <= 60]
        pick = small[:max(2, per_tpb // 2)] + run.rng.sample(ks, min(len(ks), per_tpb - min(len(small), max(2, per_tpb // 2))))
        for k in pick[:per_tpb]:
            D = Fraction(k, tpb)
            e = run.rng.choice([0.0, 0.0, 0.04 if k < 25 else 0.0, 0.5])
            cases.append(make_case(tpb, [mk_move("move_to", 8.0, D, e, k + 3)], initial=2.0, tag="ceil-trap"))
            run.dist("trap.tpb%d" % tpb)
    return cases


def gen_random(run, n, long_cases):
    rng = run.rng
    cases = []
    for ci in range(n):
        tpb = rng.choice(TPBS)
        long_ok = ci < long_cases
        rangecfg = None
        if rng.random() < 0.7:
            lo, hi = rng.choice(RANGES)
            rangecfg = (lo, hi, rng.choice(["clip", "wrap"]))
        initial = None if rng.random() < 0.25 else rand_value(rng, rangecfg)
        default_duration = rng.choice([None, None, 0.0, float(Fraction(3, tpb)), 0.5])
        segs = []
        nb = rng.choice([0, 1, 1, 2, 3])
        for _ in range(nb):
            segs.append(bind_seg(rng))
        nops = rng.randint(1, 5) if not long_ok else rng.randint(1, 2)
        budget = 8000 if long_ok else 700
        for oi in range(nops):
            r = rng.random()
            if r < 0.45:
                kind = "move_to"
            elif r < 0.8:
                kind = "move_by"
            elif r < 0.93:
                kind = "jump_to"
            else:
                kind = "bind"
            if kind == "bind":
                segs.append(bind_seg(rng))
                continue
            if kind == "jump_to":
                segs.append(({"op": ["jump_to", rand_value(rng, rangecfg)], "ticks": rng.choice([0, 1, 2, 5])}, {}))
                continue
            D = rand_duration(rng, tpb, long_ok)
            if long_ok and oi == 0:
                D = rng.choice([Fraction(4), Fraction(8), Fraction(16)]) if tpb >= 96 else Fraction(16)
            use_default = default_duration is not None and rng.random() < 0.25
            if use_default:
                D = None
            n_t = max(math.ceil((Fraction(default_duration) if use_default else D) * tpb), 1)
            n_t = min(n_t, budget)
            e = rand_env(rng) if rng.random() < 0.9 else None
            v = rand_value(rng, rangecfg)
            if kind == "move_by":
                v = rng.choice([v, -v, v / 4, 1.0, -0.5, 0.0])
            mode = rng.random()
            if mode < 0.55:
                ticks = n_t + rng.choice([0, 1, 3])           # run to arrival
            elif mode < 0.85:
                ticks = rng.randint(0, n_t)                    # interrupted / overlapped by the next operation
            else:
                ticks = n_t - 1 if n_t > 1 else 1
            segs.append(mk_move(kind, v, D, e, ticks))
            # overlapping move_by burst
            if kind == "move_by" and rng.random() < 0.35:
                D2 = rand_duration(rng, tpb)
                n2 = max(math.ceil(D2 * tpb), 1)
                segs.append(mk_move("move_by", rng.choice([v, -v, 2.0, -1.25]), D2, rand_env(rng), max(n_t, n2) + rng.choice([0, 2])))
        probe = rng.choice([None, None, 1, 3])
        cases.append(make_case(tpb, segs, rangecfg, initial, default_duration, probe,
                               tag="long" if long_ok else "random"))
    return cases


def gen_reconfig(run, n):
    """the automation is re-configured after construction: range / boundaries re-assigned while a move is running
    (also right after the call, before any tick), after it has arrived, default_duration re-assigned before a move
    that relies on it"""
    rng = run.rng
    cases = []
    for ci in range(n):
        tpb = rng.choice(TPBS)
        rangecfg = None
        if rng.random() < 0.8:
            lo, hi = rng.choice(RANGES)
            rangecfg = (lo, hi, rng.choice(["clip", "wrap"]))
        initial = None if rng.random() < 0.25 else rand_value(rng, rangecfg)
        default_duration = rng.choice([None, 0.0, float(Fraction(3, tpb)), 0.5])
        cur_dd = default_duration
        cur = rangecfg

        def reconfig_segs(ticks):
            nonlocal cur
            out = []
            r = rng.random()
            if r < 0.6 or cur is None:
                if rng.random() < 0.12:
                    new = None
                elif cur is not None and rng.random() < 0.4:
                    lo, hi = cur[0], cur[1]     # a part of the present range, or a range next to it
                    w = hi - lo
                    new = rng.choice([(lo, lo + w / 2), (lo + w / 2, hi), (lo + w / 4, lo + w / 2), (hi, hi + w), (lo - w, lo), (lo - w, hi + w)])
                else:
                    new = rng.choice(RANGES)
                out.append(["set_range", None if new is None else [new[0], new[1]]])
                cur = None if new is None else (new[0], new[1], cur[2] if cur is not None else "clip")
                run.dist("auto.reconfig.range.%s" % ("none" if new is None else "some"))
            if r >= 0.6 or rng.random() < 0.3:
                b = rng.choice(["clip", "wrap"])
                out.append(["set_boundaries", b])
                if cur is not None:
                    cur = (cur[0], cur[1], b)
            return [({"op": o, "ticks": ticks if i == len(out) - 1 else 0}, {}) for i, o in enumerate(out)]
        segs = [bind_seg(rng) for _ in range(rng.choice([0, 1, 1, 2]))]
        for oi in range(rng.randint(1, 4)):
            kind = rng.choice(["move_to", "move_to", "move_by"])
            D = rand_duration(rng, tpb)
            e = rand_env(rng) if rng.random() < 0.9 else None
            v = rand_value(rng, cur)
            if kind == "move_by":
                v = rng.choice([v, -v, v / 4, 1.0, -0.5])
            mode = rng.random()
            if mode < 0.2:
                d = rng.choice([0.0, float(Fraction(2, tpb)), float(Fraction(5, tpb)), 0.25])
                segs.append(({"op": ["set_default", d], "ticks": rng.choice([0, 0, 1])}, {}))
                cur_dd = d
                D = None
                run.dist("auto.reconfig.default_duration")
            n_t = max(math.ceil((Fraction(0.0 if cur_dd is None else cur_dd) if D is None else D) * tpb), 1)
            if mode < 0.65:
                k = rng.randint(0, n_t - 1)
                segs.append(mk_move(kind, v, D, e, k))
                segs += reconfig_segs(n_t - k + rng.choice([0, 1, 3]))
                run.dist("auto.reconfig.%s" % ("right-after-the-call" if k == 0 else "mid-move"))
            else:
                segs.append(mk_move(kind, v, D, e, n_t + rng.choice([0, 1])))
                segs += reconfig_segs(rng.choice([0, 1, 2]))
                run.dist("auto.reconfig.after-arrival")
        cases.append(make_case(tpb, segs, rangecfg, initial, default_duration, rng.choice([None, None, 1, 3]), tag="reconfig"))
    return cases


# ---- the timeline's resolution is re-configured in the middle of a run ---------------------------------------------
RETIME_TPBS = [8, 10, 12, 16, 24, 48, 96, 120]


def retime_seg(rng, n, ticks):
    """timeline.ticks_per_beat = n (public setter), or a new clock source with that resolution"""
    return ({"op": ["set_tpb", n, rng.choice(["attr", "attr", "clock"])], "ticks": ticks}, {})


def gen_auto_retime(run, n):
    """the resolution changes after the automation has ticked: while a move is under way (it must still arrive exactly,
    monotonically, and stay put), after arrival, before the first tick; moves made afterwards last ceil(duration / NEW tick)
    ticks (durations are beats: whole and fractional numbers of ticks of the resolution in force at the call, default
    durations whose tick count differs between the two resolutions)"""
    rng = run.rng
    cases = []
    for ci in range(n):
        tpb = cur = rng.choice(RETIME_TPBS)
        rangecfg = None
        if rng.random() < 0.6:
            lo, hi = rng.choice(RANGES)
            rangecfg = (lo, hi, rng.choice(["clip", "wrap"]))
        initial = None if rng.random() < 0.25 else rand_value(rng, rangecfg)
        default_duration = rng.choice([None, None, 0.25, 0.5, 1.0])
        segs = [bind_seg(rng) for _ in range(rng.choice([0, 1, 1, 2]))]
        if rng.random() < 0.15:
            new = rng.choice([x for x in RETIME_TPBS if x != cur])
            segs.append(retime_seg(rng, new, 0))
            cur = new
            run.dist("auto.retime.before-first-tick")
        nops = rng.randint(2, 4)
        for oi in range(nops + 1):
            kind = rng.choice(["move_to", "move_to", "move_by"])
            D = rand_duration(rng, cur)
            if default_duration is not None and rng.random() < 0.3:
                D = None
            e = rand_env(rng) if rng.random() < 0.9 else None
            v = rand_value(rng, rangecfg)
            if kind == "move_by":
                v = rng.choice([v, -v, v / 4, 1.0, -0.5])
            n_t = max(math.ceil((Fraction(default_duration) if D is None else D) * cur), 1)
            mode = rng.random()
            new = rng.choice([x for x in RETIME_TPBS if x != cur])
            if oi == nops or mode >= 0.8:
                # a move at the resolution in force (the last one always: made after every change), run to arrival
                segs.append(mk_move(kind, v, D, e, n_t + rng.choice([0, 1, 3])))
                if cur != tpb:
                    run.dist("auto.retime.move-after-change.%s" % ("default-duration" if D is None else "explicit"))
                continue
            if mode < 0.45:
                k = rng.randint(1, n_t - 1) if n_t > 1 and rng.random() < 0.85 else 0
                segs.append(mk_move(kind, v, D, e, k))
                left = n_t - k
                segs.append(retime_seg(rng, new, max(left, math.ceil(Fraction(left * new, cur))) + rng.choice([0, 1, 3])))
                run.dist("auto.retime.%s" % ("right-after-the-call" if k == 0 else "mid-move"))
            else:
                segs.append(mk_move(kind, v, D, e, n_t + rng.choice([0, 1])))
                segs.append(retime_seg(rng, new, rng.choice([0, 0, 1, 2])))
                run.dist("auto.retime.after-arrival")
            run.dist("auto.retime.%s" % ("finer" if new > cur else "coarser"))
            cur = new
        cases.append(make_case(tpb, segs, rangecfg, initial, default_duration, rng.choice([None, None, 1, 3]), tag="retime"))
    return cases


def gen_lfo_retime(run, n):
    """LFO histories in which timeline.ticks_per_beat is re-assigned (or the clock source replaced) before the first tick,
    after one tick, mid-period, after whole periods; to a finer / coarser resolution, a multiple or divisor of the old
    one or neither; once or twice, alone or together with re-configurations of the LFO itself; long enough after the
    change to cover more than one period of beats"""
    rng = run.rng
    out = []
    fixed = [
        (16, 1.0, (0.0, 1.0), [(None, 32), (["set_tpb", 8, "attr"], 24)]),
        (12, 0.5, (-1.0, 3.0), [(None, 24), (["set_tpb", 8, "attr"], 48)]),
        (8, 0.25, (20.0, 100.0), [(None, 16), (["set_tpb", 24, "clock"], 130)]),
        (24, 2.0, (0.0, 127.0), [(None, 5), (["set_tpb", 10, "attr"], 9), (["set_tpb", 96, "clock"], 70), (["set", "max", 64.0], 50)]),
        (10, 1.0, (2.0, 5.0), [(None, 0), (["set_tpb", 24, "attr"], 30), (["update", [["frequency", 3.0]]], 5), (["set_tpb", 12, "attr"], 10)]),
        (48, 4.0, (60.0, 72.0), [(None, 1), (["set_tpb", 16, "attr"], 9), (["reset"], 3), (["set_tpb", 120, "clock"], 45)]),
    ]
    for tpb, f, (lo, hi), segs in fixed[:n]:
        out.append({"tpb": tpb, "freq": f, "min": lo, "max": hi, "every": 1 + len(out) % 3, "tag": "retime-fixed",
                    "segs": [{"op": op, "ticks": t} for op, t in segs]})
    while len(out) < n:
        tpb = cur = rng.choice(RETIME_TPBS)
        f = rng.choice([0.25, 0.5, 1.0, 1.0, 2.0, 2.0, 4.0, 0.75, 1.5, 3.0, 0.3, round(rng.uniform(0.2, 6), 2)])
        lo, hi = rng.choice(LFO_RANGES)
        sc = {"tpb": tpb, "freq": f, "min": lo, "max": hi, "every": rng.choice([1, 2, 3, 5]), "tag": "retime", "segs": []}
        budget = 420
        F = Fraction(f)
        for ri in range(rng.choice([1, 1, 1, 2])):
            per = Fraction(cur) / F            # ticks per period at the resolution in force
            r = rng.random()
            if ri == 0 and r < 0.12:
                k, when = 0, "before-first-tick"
            elif r < 0.3:
                k, when = 1, "after-one-tick"
            elif r < 0.7:
                k, when = max(2, int(per * rng.choice([Fraction(1, 8), Fraction(1, 3), Fraction(1, 2), Fraction(5, 8), Fraction(9, 8)]))), "mid-period"
            else:
                k, when = max(1, int(per) * rng.choice([1, 1, 2])), ("after-whole-periods" if per.denominator == 1 else "mid-period")
            k = min(k, 150)
            budget -= k
            if ri == 0:
                sc["segs"].append({"op": None, "ticks": k})
            else:
                sc["segs"][-1]["ticks"] = k
            new = rng.choice([x for x in RETIME_TPBS if x != cur and Fraction(x) / F <= 200])
            run.dist("lfo.retime.when.%s" % when)
            run.dist("lfo.retime.ratio.%s" % ("multiple" if new % cur == 0 else "divisor" if cur % new == 0 else "finer" if new > cur else "coarser"))
            cur = new
            post = min(int(Fraction(cur) / F * rng.choice([Fraction(5, 4), Fraction(3, 2), Fraction(9, 4)])) + 2, max(budget, 20))
            budget -= post
            sc["segs"].append({"op": ["set_tpb", new, rng.choice(["attr", "attr", "clock"])], "ticks": post})
        if rng.random() < 0.35:
            # the LFO itself is re-configured as well, after the resolution change
            nlo, nhi = new_lfo_range(rng, {"min": lo, "max": hi}, run)
            op = rng.choice([["set", "max", max(nhi, lo)], ["update", [["min", nlo], ["max", nhi]]], ["reset"],
                             ["set", "frequency", rng.choice([1.0, 2.0, 0.5])]])
            sc["segs"].append({"op": op, "ticks": min(max(budget, 10), 60)})
        out.append(sc)
    return out


# ---- several bound objects, equal but not identical --------------------------------------------------------------
BIND_KINDS = [("attr", "plain"), ("method", "plain"), ("attr", "dc"), ("method", "dc"), ("attr", "eq"), ("method", "eq")]


def bind_kind_seg(mode, kind, key, ticks=0):
    """mode/kind/key: plain = a plain object (identity equality); dc = a dataclass whose fields (key, and for attr mode the
    level, created with the automation's current value) are equal for equal keys; eq = a class defining __eq__ by key.
    The keyword arguments of a method binding follow the key, so that equal keys give equal bindings"""
    kw = {} if mode == "attr" else [{}, {"channel": 3}][key % 2]
    return ({"op": ["bind", mode if kind == "plain" else "%s/%s/%d" % (mode, kind, key), kw], "ticks": ticks}, {})


def gen_bind_equal(run, n):
    """2-5 targets bound to one automation, of which a group of 2-4 compare EQUAL at bind time without being identical
    (same class, same key, attr-mode dataclasses created with the current value), next to targets of other kinds / modes /
    keys; bound before the first move, while a move is under way, after arrival / after a jump_to; every one of them must
    receive every new value (ticks of moves made afterwards, jump_to)"""
    rng = run.rng
    cases = []
    for ci in range(n):
        tpb = rng.choice(TPBS)
        rangecfg = None
        if rng.random() < 0.6:
            lo, hi = rng.choice(RANGES)
            rangecfg = (lo, hi, rng.choice(["clip", "wrap"]))
        initial = rng.choice([None, 0.0, 0.0, rand_value(rng, rangecfg)])
        mode, kind = BIND_KINDS[2 + (ci % 4)] if rng.random() < 0.9 else rng.choice(BIND_KINDS[:2])
        key = rng.choice([0, 1])
        group = [bind_kind_seg(mode, kind, key) for _ in range(rng.choice([2, 2, 3, 4]))]
        others = []
        for _ in range(rng.choice([0, 1, 1, 2])):
            m2, k2 = rng.choice(BIND_KINDS)
            others.append(bind_kind_seg(m2, k2, rng.choice([0, 1, 2])))
        run.dist("bind.equal-group.%s/%s.size%d" % (mode, kind, len(group)))
        for sg, _ in others:
            run.dist("bind.other.%s" % "/".join((sg["op"][1] + "/plain").split("/")[:2]))
        binds = group + others
        rng.shuffle(binds)
        when = rng.choice(["upfront", "upfront", "mid-move", "after-arrival", "after-jump"])
        run.dist("bind.when.%s" % when)

        def a_move(ticks_mode):
            D = rand_duration(rng, tpb)
            n_t = max(math.ceil(D * tpb), 1)
            kind_ = rng.choice(["move_to", "move_to", "move_by"])
            v = rand_value(rng, rangecfg)
            if kind_ == "move_by":
                v = rng.choice([v, -v, 1.0, -0.5, 2.5])
            ticks = n_t + rng.choice([0, 1, 2]) if ticks_mode == "arrive" else (rng.randint(1, n_t - 1) if n_t > 1 else 0)
            return mk_move(kind_, v, D, rand_env(rng), ticks), n_t - ticks
        segs = []
        if when == "upfront":
            segs += binds
        else:
            segs += binds[:1]
            if when == "mid-move":
                mv, left = a_move("part")
                segs.append(mv)
                segs += binds[1:]
                segs[-1][0]["ticks"] = max(left, 0) + 1
            elif when == "after-arrival":
                segs.append(a_move("arrive")[0])
                segs += binds[1:]
            else:
                segs.append(({"op": ["jump_to", rand_value(rng, rangecfg)], "ticks": rng.choice([0, 1])}, {}))
                segs += binds[1:]
        for _ in range(rng.randint(1, 3)):
            if rng.random() < 0.25:
                segs.append(({"op": ["jump_to", rand_value(rng, rangecfg)], "ticks": rng.choice([0, 1, 2])}, {}))
            else:
                segs.append(a_move("arrive")[0])
        # a guaranteed change of the value at the end, so that every target has something to receive
        segs.append(mk_move("move_by", rng.choice([1.0, -0.5, 2.5]), Fraction(rng.choice([2, 3, 5]), tpb), rng.choice([0.0, 0.5]), 7))
        cases.append(make_case(tpb, segs, rangecfg, initial, None, rng.choice([None, None, 1]), tag="bind-equal"))
    return cases


def gen_malformed(run):
    """calls outside the property's domain: the real code rejects some and accepts others; compared with the model only"""
    cases = []
    for tpb in (10, 24):
        for (D, e) in [(Fraction(-1, 4), 0.5), (Fraction(-1, tpb), 0.0), (Fraction(1), -0.5), (Fraction(1), 1.5),
                       (Fraction(1), -0.01), (Fraction(1), 1.001), (Fraction(1, tpb), 2.0), (Fraction(0), 7.0),
                       (Fraction(1, 2), 1.25)]:
            segs = [bind_seg(run.rng, "attr"), mk_move("move_to", 4.0, Fraction(2, tpb), 0.5, 3),
                    mk_move("move_by", 3.0, D, e, 4, valid=False), mk_move("move_to", 1.0, Fraction(3, tpb), 0.0, 5)]
            cases.append(make_case(tpb, segs, (0.0, 10.0, "clip"), 2.0, tag="malformed"))
    return cases


def gen_lfos(run, n):
    rng = run.rng
    out = []
    fixed = [(24, 1.0), (24, 3.0), (24, 0.5), (10, 2.0), (96, 0.25), (480, 1.0), (24, 5.0), (10, 0.7), (96, 1.5), (480, 7.0),
             (24, 0.1), (10, 1.0)]
    for i in range(n):
        if i < len(fixed):
            tpb, f = fixed[i]
        else:
            tpb = rng.choice(TPBS)
            f = rng.choice([1.0, 2.0, 0.5, 4.0, 0.25, 3.0, 6.0, 0.125, 1.5, 0.7, 0.3, 1.1, 2.5, round(rng.uniform(0.05, 9), 2)])
        lo, hi = rng.choice([(0.0, 1.0), (2.0, 5.0), (-1.0, 1.0), (0.0, 127.0), (-7.5, -2.25), (0.1, 0.3), (3.0, 3.0), (20.0, 20000.0)])
        period = Fraction(tpb) / Fraction(f)
        ticks = int(min(max(2.3 * period, 30), 1300))
        out.append({"tpb": tpb, "freq": f, "min": lo, "max": hi, "ticks": ticks, "every": rng.choice([1, 2, 3, 5])})
    return out



# ---- LFOs re-configured after construction ---------------------------------------------------------------------
LFO_KEYS = {"frequency": "KFreq", "min": "KMin", "max": "KMax"}
LFO_WHOLE = {10: [1.0, 2.0, 0.5, 2.5, 5.0], 24: [1.0, 2.0, 3.0, 4.0, 6.0, 0.5, 1.5, 8.0],
             96: [1.0, 2.0, 4.0, 8.0, 3.0, 6.0, 1.5], 480: [4.0, 8.0, 5.0, 2.5, 6.0, 7.5]}
LFO_RANGES = [(0.0, 1.0), (2.0, 5.0), (-1.0, 1.0), (0.0, 127.0), (-7.5, -2.25), (0.1, 0.3), (3.0, 3.0), (20.0, 20000.0),
              (60.0, 72.0), (64.0, 65.0), (0.0, 10.0), (-3.0, 12.5)]


def lfo_props(params):
    """the model's view of a property dict, in dict order (shape has no field in the model)"""
    return [(k, v) for k, v in params if k in LFO_KEYS]


def lfo_rop_term(op):
    """an operation of an LFO history with resolution changes (Auto/Retime.v)"""
    if op is not None and op[0] == "set_tpb":
        return "(Some (RLTpb %d%%Z))" % op[1]
    t = lfo_op_term(op)
    return t if t == "None" else "(Some (RL %s))" % t[len("(Some "):-1]


def lfo_op_term(op):
    if op is None or op[0] in ("tl_other", "new_pattern"):
        return "None"
    if op[0] == "reset":
        return "(Some LReset)"
    props = [(op[1], op[2])] if op[0] == "set" else lfo_props(op[1])
    return "(Some (LUpdate %s))" % lst(["(%s, %s)" % (LFO_KEYS[k], qlit(v)) for k, v in props])


def lfo_script_term(sc, res):
    """Coq boolean: the model reproduces every value the implementation showed, and Timeline.lfo found / created
    the LFOs the model says"""
    tpb = sc["tpb"]
    rt = has_retime(sc)     # the resolution changes along the way: the history runs on Auto/Retime.v (rl_step)
    LS, term = ("RLS_", lfo_rop_term) if rt else ("LS_", lfo_op_term)
    F, t = Fraction(sc["freq"]), Fraction(0)
    tab, segs, extra, others = {}, [], [], []
    for sg, r in zip(sc["segs"], res["segs"]):
        op = sg.get("op")
        if op is not None:
            if op[0] == "set_tpb":
                tpb = op[1]
            if op[0] == "reset":
                t = Fraction(0)
            elif op[0] == "set" and op[1] == "frequency":
                F = Fraction(op[2])
            elif op[0] in ("update", "tl_lfo"):
                for k, v in op[1]:
                    if k == "frequency":
                        F = Fraction(v)
            if op[0] in ("tl_lfo", "tl_other"):
                name = "(Some 0%Z)" if op[0] == "tl_lfo" else ("(Some %d%%Z)" % (len(others) + 1) if op[2] else "None")
                extra.append("check_tl_lfo %s %s %s (Some (%s, %d%%Z))" % (
                    lst(others), name, lst(["(%s, %s)" % (LFO_KEYS[k], qlit(v)) for k, v in lfo_props(op[1])]),
                    blit(bool(r["same"])), r["n_lfos"]))
                if op[0] == "tl_other":
                    others.append(name)
        for _ in r["ticks"]:
            t += Fraction(1, tpb)
            x = t * F
            tab[(x.numerator, x.denominator)] = math.sin(2 * math.pi * float(x % 1))
        segs.append("%s %s %s %s%%uint63" % (LS, term(op), "None" if op is None else "(Some %s%%uint63)" % ilit(r["value"]),
                                            lst([ilit(v[0]) for v in r["ticks"]])))
    table = lst(["se %d %d %s" % (n, d, ilit(v, 0, 10 ** 15)) for (n, d), v in tab.items()])
    return " && ".join(["%s %s %d%%Z %s %s %s %s%%uint63 %s" % (
        "check_lfo_retime" if rt else "check_lfo_script", table, sc["tpb"], qlit(sc["freq"]), qlit(sc["min"]), qlit(sc["max"]), ilit(res["init"]), lst(segs))] + extra)


def oracle_lfo_script(sc, res):
    """Judges the implementation's trace alone: after every tick the value lies within the [min, max] the LFO has
    been given LAST, repeats with the period of the frequency it has been given LAST, and every pattern read
    (twice through one PLFO, once through a fresh one) and the bound attribute show that same value.  The value
    between a re-configuration and the next tick is not judged (the text does not say when the new range shows),
    only that a pattern reads the same as lfo.value."""
    bad = []
    if res["raise"] is not None:
        return [("raises", "LFO scenario raised %s: %s" % (res["raise"], res.get("message")), None)]
    cur = {"frequency": sc["freq"], "min": sc["min"], "max": sc["max"]}
    known = True           # False once Timeline.lfo(name=...) did not hand back the same object (not decided by the text)

    def in_range(x, where, tick):
        lo, hi = cur["min"], cur["max"]
        if known and lo <= hi:
            eps = 1e-12 * max(1.0, abs(lo), abs(hi))
            if not (lo - eps <= x <= hi + eps):
                bad.append(("lfo-out-of-range", "%s: value %r outside the current [min, max] = [%r, %r]" % (where, x, lo, hi), tick))
    in_range(res["init"], "before the first tick", 0)
    if res["pattern_class"] != "PLFO" or res["init_pattern"] != res["init"]:
        bad.append(("lfo-pattern", "Pattern.pattern(lfo) is %s and reads %r, lfo.value is %r" % (res["pattern_class"], res["init_pattern"], res["init"]), 0))
    if not res.get("registered"):
        bad.append(("not-registered", "timeline.lfo() did not register the LFO", 0))
    flat = []              # value after every tick
    tpb = sc["tpb"]        # the resolution in force (timeline.ticks_per_beat may be re-assigned along the way)
    stretches = [[0, dict(cur), True, tpb]]    # first tick index, configuration, judged, resolution — ticks between two re-configurations
    beat = Fraction(0)     # beats elapsed: every tick lasts 1 / (the resolution in force at that tick)
    seen_at = {}           # beat position -> (tick, value) since the LFO's own configuration was last touched
    for sg, r in zip(sc["segs"], res["segs"]):
        op = sg.get("op")
        if op is not None:
            if op[0] == "set_tpb":
                tpb = op[1]
                stretches.append([len(flat), dict(cur), known, tpb])
            if op[0] == "set":
                cur[op[1]] = op[2]
            elif op[0] == "update":
                cur.update({k: v for k, v in op[1] if k in cur})
            elif op[0] == "tl_lfo":
                if r["same"]:
                    cur.update({k: v for k, v in op[1] if k in cur})
                else:
                    known = False
            if op[0] in ("set", "update", "tl_lfo", "reset"):
                stretches.append([len(flat), dict(cur), known, tpb])
                seen_at = {}
            if any(p != r["value"] for p in r["pattern"]):
                bad.append(("lfo-pattern", "after %r: lfo.value %r, pattern reads %r" % (op, r["value"], r["pattern"]), len(flat)))
        for x, p1, p2, p3, b in r["ticks"]:
            flat.append(x)
            k = len(flat)
            in_range(x, "tick %d" % k, k)
            # "repeats with period 1 / frequency beats": a beat is ticks_per_beat ticks of the resolution in force, so the
            # value one period of BEATS earlier — possibly before a change of the resolution — must be this one
            beat += Fraction(1, tpb)
            if known and cur["frequency"] > 0:
                before = seen_at.get(beat - 1 / Fraction(cur["frequency"]))
                lo, hi = cur["min"], cur["max"]
                if before is not None and abs(before[1] - x) > 1e-9 * max(1.0, abs(lo), abs(hi), abs(hi - lo)):
                    bad.append(("lfo-not-periodic", "frequency %r: value after tick %d (beat %s) is %r, one period (%s beats) later, after tick %d "
                                "(beat %s, ticks_per_beat now %d), it is %r" % (cur["frequency"], before[0], beat - 1 / Fraction(cur["frequency"]),
                                                                                 before[1], 1 / Fraction(cur["frequency"]), k, beat, tpb, x), k))
                seen_at[beat] = (k, x)
            if not (p1 == x and p2 == x and p3 == x and (b == x or not known)):
                bad.append(("lfo-pattern", "tick %d: lfo.value %r, pattern reads %r %r, fresh pattern %r, bound attribute %r" % (k, x, p1, p2, p3, b), k))
    for i, (start, cfg, judged, stpb) in enumerate(stretches):
        end = stretches[i + 1][0] if i + 1 < len(stretches) else len(flat)
        vals = flat[start:end]
        if not judged or cfg["frequency"] <= 0:
            continue
        period = Fraction(stpb) / Fraction(cfg["frequency"])
        if period.denominator != 1:
            continue
        p = int(period)
        lo, hi = cfg["min"], cfg["max"]
        tol = 1e-9 * max(1.0, abs(lo), abs(hi), abs(hi - lo))
        for k in range(len(vals) - p):
            if abs(vals[k + p] - vals[k]) > tol:
                bad.append(("lfo-not-periodic", "frequency %r since tick %d: value after tick %d is %r, one period (%d ticks) later %r" % (
                    cfg["frequency"], start, start + k + 1, vals[k], p, vals[k + p]), start + k + 1))
                break
        if p >= 4 and len(vals) >= p and hi > lo:
            if not (min(vals[:p]) < (lo + hi) / 2 - 0.2 * (hi - lo) and max(vals[:p]) > (lo + hi) / 2 + 0.2 * (hi - lo)):
                bad.append(("lfo-not-periodic", "range [%r, %r] since tick %d: one period (%d ticks) spans only [%r, %r]" % (
                    lo, hi, start, p, min(vals[:p]), max(vals[:p])), start + p))
    for name in ("controls", "action_args"):
        got = res[name]
        if flat and not got:
            bad.append(("lfo-track-silent", "scheduled track (%s) never ran" % name, None))
        for j, v in got:
            if j < len(flat) and v != flat[j]:
                bad.append(("track-reads-stale", "%s: track event in tick %d read %r through the pattern, lfo.value after that tick's update is %r" % (name, j + 1, v, flat[j]), j + 1))
                break
    return bad


def lfo_period_ticks(tpb, f):
    per = Fraction(tpb) / Fraction(f) if f > 0 else Fraction(12)
    return int(per) if per.denominator == 1 else max(4, min(int(per), 40))


def new_lfo_range(rng, cur, run):
    """a range to move to: narrower inside the current one, wider around it, disjoint, or any"""
    lo, hi = cur["min"], cur["max"]
    w = hi - lo
    r = rng.random()
    if r < 0.25 and w > 0:
        run.dist("lfo.reconfig.range.narrower")
        a = rng.choice([0.0, 0.25, 0.5]); b = rng.choice([0.125, 0.25, 0.5])
        return (lo + a * w, lo + (a + b) * w)
    if r < 0.45:
        run.dist("lfo.reconfig.range.wider")
        g = max(w, 1.0)
        return (lo - g * rng.choice([0.0, 1.0, 2.5]), hi + g * rng.choice([0.5, 1.0, 4.0]))
    if r < 0.65:
        run.dist("lfo.reconfig.range.disjoint")
        g = max(w, 1.0)
        return (hi + g, hi + g * rng.choice([1.5, 2.0, 3.0])) if rng.random() < 0.5 else (lo - 3 * g, lo - g * rng.choice([1.0, 2.0]))
    run.dist("lfo.reconfig.range.any")
    return rng.choice(LFO_RANGES)


def gen_lfo_scripts(run, n):
    rng = run.rng
    out = []
    # one script per way of re-configuring, range and frequency (fixed part: every stratum is reached on every seed)
    fixed = [
        (24, 0.5, (0.0, 1.0), [(None, 30), (["tl_lfo", [["min", 60.0], ["max", 72.0], ["frequency", 2.0]]], 30), (["set", "min", 64.0], 0), (["set", "max", 65.0], 30)]),
        (24, 2.0, (2.0, 5.0), [(None, 0), (["update", [["max", 9.0]]], 14), (["update", [["frequency", 4.0], ["min", -1.0]]], 15), (["reset"], 8)]),
        (10, 1.0, (-1.0, 1.0), [(None, 3), (["set", "frequency", 2.0], 13), (["set", "max", 0.0], 7), (["set", "min", -0.25], 7)]),
        (96, 4.0, (0.0, 127.0), [(None, 30), (["tl_lfo", [["shape", "sine"], ["max", 1.0]]], 26), (["new_pattern"], 5), (["tl_other", [["shape", "sine"], ["frequency", 1.0], ["min", 500.0], ["max", 600.0]], True], 26), (["tl_lfo", [["min", 0.5]]], 26)]),
        (480, 8.0, (0.1, 0.3), [(None, 61), (["set", "frequency", 5.0], 100), (["update", [["min", 0.2], ["max", 0.8], ["frequency", 7.5]]], 70)]),
        (24, 1.0, (3.0, 3.0), [(None, 5), (["set", "max", 4.0], 26), (["tl_other", [["shape", "sine"], ["frequency", 3.0]], False], 3), (["update", [["min", 3.5]]], 26)]),
    ]
    for tpb, f, (lo, hi), segs in fixed[:n]:
        out.append({"tpb": tpb, "freq": f, "min": lo, "max": hi, "every": 1 + len(out) % 3, "tag": "fixed",
                    "segs": [{"op": op, "ticks": t} for op, t in segs]})
    while len(out) < n:
        tpb = rng.choice(TPBS)
        pick_f = lambda: rng.choice(LFO_WHOLE[tpb]) if rng.random() < 0.85 else rng.choice([0.7, 1.1, 0.3, 3.3, round(rng.uniform(0.05, 9), 2)])
        lo, hi = rng.choice(LFO_RANGES)
        cur = {"frequency": pick_f(), "min": lo, "max": hi}
        sc = {"tpb": tpb, "freq": cur["frequency"], "min": lo, "max": hi, "every": rng.choice([1, 2, 3, 5]), "tag": "random", "segs": []}
        budget = min(400, 16 * tpb)

        def some_ticks():
            nonlocal budget
            p = lfo_period_ticks(tpb, cur["frequency"])
            k = rng.choice([p + rng.randint(1, 5), p + rng.randint(1, 5), 2 * p + 1, p // 2, 1, 2, 0])
            k = max(0, min(k, budget))
            budget -= k
            return k
        first = rng.choice([0, 0, 1, 3, None])
        sc["segs"].append({"op": None, "ticks": some_ticks() if first is None else first})
        if sc["segs"][0]["ticks"] == 0:
            run.dist("lfo.reconfig.before-first-tick")
        for _ in range(rng.randint(1, 5)):
            r = rng.random()
            if r < 0.30:
                key = rng.choice(["min", "max", "frequency", "min", "max"])
                if key == "frequency":
                    v = pick_f()
                else:
                    nlo, nhi = new_lfo_range(rng, cur, run)
                    v = nlo if key == "min" else nhi
                    if (key == "min" and v > cur["max"]) or (key == "max" and v < cur["min"]):
                        if rng.random() < 0.8:
                            v = cur["max"] if key == "min" else cur["min"]      # degenerate, not inverted
                        else:
                            run.dist("lfo.reconfig.range.inverted")
                op = ["set", key, v]
                cur[key] = v
            elif r < 0.80:
                kind = "update" if r < 0.55 else "tl_lfo"
                keys = rng.choice([["min", "max"], ["max", "min"], ["frequency"], ["min", "max", "frequency"], ["frequency", "max", "min"],
                                   ["min"], ["max"], ["frequency", "min"]])
                nlo, nhi = new_lfo_range(rng, cur, run)
                vals = {"min": nlo, "max": nhi, "frequency": pick_f()}
                if "min" in keys and "max" not in keys and nlo > cur["max"]:
                    vals["min"] = cur["max"]
                if "max" in keys and "min" not in keys and nhi < cur["min"]:
                    vals["max"] = cur["min"]
                params = [[k, vals[k]] for k in keys]
                if kind == "tl_lfo" and rng.random() < 0.3:
                    params.insert(rng.randint(0, len(params)), ["shape", "sine"])
                op = [kind, params]
                cur.update({k: v for k, v in params if k in cur})
            elif r < 0.86:
                op = ["reset"]
            elif r < 0.93:
                a, b = rng.choice(LFO_RANGES)
                op = ["tl_other", [["shape", "sine"], ["frequency", pick_f()], ["min", a], ["max", b]], rng.random() < 0.6]
            else:
                op = ["new_pattern"]
            sc["segs"].append({"op": op, "ticks": some_ticks()})
        out.append(sc)
    return out


def snippet_lfo_script(sc):
    lines = ["import isobar as iso", "class Dev(iso.OutputDevice): pass",
             "tl = iso.Timeline(output_device=Dev(), clock_source=iso.DummyClock(ticks_per_beat=%d))" % sc["tpb"],
             "lfo = tl.lfo({'shape': 'sine', 'frequency': %r, 'min': %r, 'max': %r}, name='mod'); p = iso.PLFO(lfo); k = 0" % (sc["freq"], sc["min"], sc["max"]),
             "def show(what): print(what, 'value', lfo.value, 'pattern', next(p), 'min', lfo.min, 'max', lfo.max, 'frequency', lfo.frequency)",
             "show('created')"]
    nother = 0
    for sg in sc["segs"]:
        op = sg.get("op")
        if op is not None:
            if op[0] == "set":
                lines.append("lfo.%s = %r; show('set')" % (op[1], op[2]))
            elif op[0] == "update":
                lines.append("lfo.update(%r); show('update')" % dict(op[1]))
            elif op[0] == "tl_lfo":
                lines.append("r = tl.lfo(%r, name='mod'); show('timeline.lfo same=%%s n=%%d' %% (r is lfo, len(tl.lfos)))" % dict(op[1]))
            elif op[0] == "tl_other":
                nother += 1
                lines.append("tl.lfo(%r%s); show('other lfo')" % (dict(op[1]), ", name='other%d'" % nother if op[2] else ""))
            elif op[0] == "reset":
                lines.append("lfo.reset(); show('reset')")
            elif op[0] == "set_tpb":
                lines.append(("tl.clock_source = iso.DummyClock(ticks_per_beat=%d)" % op[1] if op[2] == "clock" else "tl.ticks_per_beat = %d" % op[1])
                             + "; show('resolution now %d ticks per beat')" % op[1])
            elif op[0] == "new_pattern":
                lines.append("p = iso.PLFO(lfo); show('new PLFO')")
        if sg.get("ticks"):
            lines.append("for _ in range(%d): tl.tick(); k += 1; show('tick %%d' %% k)" % sg["ticks"])
    return "\n".join(lines)

# ---- the LFO is read through patterns while it keeps running ------------------------------------------------------------
RD_BIN = {"add": "BAdd", "sub": "BSub", "mul": "BMul"}


def rspec_term(sp):
    """construction expression (coq/Auto/Readers.v rspec)"""
    k = sp[0]
    if k == "lfo":
        return "SLfo"
    if k == "const":
        return "(SConst %s)" % qlit(sp[1])
    if k == "bin":
        return "(SBin %s %s %s)" % (RD_BIN[sp[1]], rspec_term(sp[2]), rspec_term(sp[3]))
    if k == "seq":
        return "(SSeq %s %s)" % (lst([qlit(float(v)) for v in sp[1]]), blit(bool(sp[2])))
    if k == "concat":
        return "(SConcat %s)" % lst([rspec_term(x) for x in sp[1]])
    if k == "reset":
        return "(SReset %s %s)" % (rspec_term(sp[1]), rspec_term(sp[2]))
    if k == "pingpong":
        return "(SPingPong %s %d%%Z)" % (rspec_term(sp[1]), sp[2])
    raise CheckError("reader spec %r" % (sp,))


def reader_term(sp):
    """a freshly constructed reader without PPingPong (track event streams): the object itself"""
    k = sp[0]
    if k == "lfo":
        return "RdLfo"
    if k == "const":
        return "(RdConst %s)" % qlit(sp[1])
    if k == "bin":
        return "(RdBin %s %s %s)" % (RD_BIN[sp[1]], reader_term(sp[2]), reader_term(sp[3]))
    if k == "seq":
        return "(RdSeq %s %s 0)" % (lst([qlit(float(v)) for v in sp[1]]), blit(bool(sp[2])))
    if k == "concat":
        return "(RdConcat %s 0)" % lst([reader_term(x) for x in sp[1]])
    if k == "reset":
        return "(RdReset %s %s)" % (reader_term(sp[1]), reader_term(sp[2]))
    raise CheckError("track reader spec %r" % (sp,))


def eval_stateless(sp, v):
    """the value a reader without own state yields when lfo.value is v (None: the reader has state, not judged by the
    oracle).  PReset around a stateless pattern yields what the pattern yields: resetting it changes nothing"""
    k = sp[0]
    if k == "lfo":
        return v
    if k == "const":
        return sp[1]
    if k == "bin":
        a, b = eval_stateless(sp[2], v), eval_stateless(sp[3], v)
        if a is None or b is None:
            return None
        return a + b if sp[1] == "add" else a - b if sp[1] == "sub" else a * b
    if k == "reset":
        return eval_stateless(sp[1], v)
    return None


def readers_term(sc, res):
    """Coq boolean: the model world (one LFO, readers, tracks) reproduces what every operation returned and the lfo.value
    shown after every operation and tick.  Track events are not steps of the term: by C18_readers_history they cannot
    matter to the LFO, and what the tracks read is judged by the oracle."""
    tpb, F, t = sc["tpb"], Fraction(sc["freq"]), Fraction(0)
    tab, steps = {}, []
    for op, r in zip(sc["ops"], res["ops"]):
        if op[0] == "tick":
            for v in r["ticks"]:
                t += Fraction(1, tpb)
                x = t * F
                tab[(x.numerator, x.denominator)] = math.sin(2 * math.pi * float(x % 1))
                steps.append("W_ WTick XNone %s" % ilit(v[0]))
            continue
        if r["raise"] is not None:
            if op[0] == "copy":
                continue          # Pattern.copy() of a reader of a timeline's LFO raises in deepcopy: not modelled, not judged
            return None
        rr = r["result"]
        if op[0] == "build":
            w, e = "(WBuild %s)" % rspec_term(op[1]), "XNone"
        elif op[0] == "next":
            w, e = "(WCmd %d CNext)" % op[1], ("XStop" if rr[0] == "stop" else "(XVal %s%%uint63)" % ilit(rr[1]))
        elif op[0] == "reset":
            w, e = "(WCmd %d CReset)" % op[1], "XNone"
        elif op[0] == "all":
            w, e = "(WCmd %d (CAll (Z.to_nat 65536)))" % op[1], "(XList %s%%uint63)" % lst([ilit(x) for x in rr[1]])
        elif op[0] == "len":
            w, e = "(WCmd %d (CAll (Z.to_nat 65536)))" % op[1], "(XLen %d%%Z)" % rr[1]
        elif op[0] in ("track_reset", "reschedule"):
            w, e = "(WTrackReset %d)" % op[1], "XNone"
        elif op[0] == "timeline_reset":
            w, e = "WTimelineReset", "XNone"
        else:
            continue              # copy, reschedule_name: no pattern is advanced or reset
        steps.append("W_ %s %s %s" % (w, e, ilit(r["lfo"])))
    tracks = lst([lst([reader_term(["lfo"] if tr["value"] == "raw-lfo" else tr["value"])]) for tr in sc.get("tracks", [])])
    table = lst(["se %d %d %s" % (n, d, ilit(v, 0, 10 ** 15)) for (n, d), v in tab.items()])
    return "check_world %s 400 %d%%Z %s %s %s %s%%uint63 %s %s" % (
        table, tpb, qlit(sc["freq"]), qlit(sc["min"]), qlit(sc["max"]), ilit(res["init"]), tracks, lst(steps))


def oracle_lfo_readers(sc, res):
    """Judges the implementation's trace alone.  The LFO is configured once and only ticked by the timeline, so from the
    property text: every value after a tick lies in [min, max]; the value repeats every tpb / frequency ticks over the
    WHOLE history, whatever was done to patterns in between; reading never changes the LFO (lfo.value is the same right
    after a pattern operation as right before); every reader of the LFO reads that same value: next(PLFO) is lfo.value,
    a stateless expression over it yields the expression of lfo.value, the witness PLFO and the bound attribute agree,
    and what a track sent in tick k is its expression of the value after tick k."""
    bad = []
    if res["raise"] is not None:
        return [("raises", "LFO reader scenario raised %s: %s" % (res["raise"], res.get("message")), None)]
    lo, hi = sc["min"], sc["max"]
    eps = 1e-12 * max(1.0, abs(lo), abs(hi))
    tol = 1e-9 * max(1.0, abs(lo), abs(hi), abs(hi - lo))
    flat = []
    cur = res["init"]
    specs = []
    if not (lo - eps <= cur <= hi + eps):
        bad.append(("lfo-out-of-range", "value before the first tick is %r, outside [%r, %r]" % (cur, lo, hi), 0))
    for oi, (op, r) in enumerate(zip(sc["ops"], res["ops"])):
        if op[0] == "tick":
            for x, wit, bound, sent in r["ticks"]:
                flat.append(x)
                k = len(flat)
                if not (lo - eps <= x <= hi + eps):
                    bad.append(("lfo-out-of-range", "tick %d: value %r outside [%r, %r]" % (k, x, lo, hi), k))
                if wit != x or bound != x:
                    bad.append(("lfo-pattern", "tick %d: lfo.value %r, an untouched PLFO reads %r, bound attribute %r" % (k, x, wit, bound), k))
                for j, v in sent:
                    tr = sc["tracks"][j]
                    want = x if tr["value"] == "raw-lfo" else eval_stateless(tr["value"], x)
                    if want is not None and abs(v - want) > 1e-12 * max(1.0, abs(want)):
                        bad.append(("track-reads-stale", "tick %d: track %d sent %r, its expression of lfo.value (%r) is %r" % (k, j, v, x, want), k))
                cur = x
            continue
        k = len(flat)
        if op[0] == "build":
            specs.append(op[1])
        if r["raise"] is not None and op[0] != "copy":
            bad.append(("raises", "%r raised %s: %s" % (op, r["raise"], r.get("message")), k))
            break
        if r["lfo"] != cur:
            bad.append(("lfo-disturbed", "after tick %d: %r changed lfo.value from %r to %r" % (k, op, cur, r["lfo"]), k))
            cur = r["lfo"]
        if r["witness"] != r["lfo"]:
            bad.append(("lfo-pattern", "after %r: lfo.value %r, an untouched PLFO reads %r" % (op, r["lfo"], r["witness"]), k))
        if op[0] == "next" and r["raise"] is None and r["result"][0] == "val":
            want = eval_stateless(specs[op[1]], cur)
            if want is not None and abs(r["result"][1] - want) > 1e-12 * max(1.0, abs(want)):
                bad.append(("lfo-pattern", "after tick %d: next(reader %d) = %r, its expression of lfo.value (%r) is %r" % (k, op[1], r["result"][1], cur, want), k))
    period = Fraction(sc["tpb"]) / Fraction(sc["freq"])
    if period.denominator == 1 and period > 0:
        p = int(period)
        for k in range(len(flat) - p):
            if abs(flat[k + p] - flat[k]) > tol:
                bad.append(("lfo-not-periodic", "value after tick %d is %r, one period (%d ticks) later %r (the LFO was only ticked and read through patterns in between)" % (
                    k + 1, flat[k], p, flat[k + p]), k + 1))
                break
        if p >= 4 and len(flat) >= p and hi > lo:
            if not (min(flat[:p]) < (lo + hi) / 2 - 0.2 * (hi - lo) and max(flat[:p]) > (lo + hi) / 2 + 0.2 * (hi - lo)):
                bad.append(("lfo-not-periodic", "one period (%d ticks) spans only [%r, %r] of range [%r, %r]" % (p, min(flat[:p]), max(flat[:p]), lo, hi), p))
    if res.get("n_lfos") != 1:
        bad.append(("lfo-duplicated", "the timeline holds %r LFOs after the history (one was created)" % res.get("n_lfos"), None))
    return bad


def rd_finite(sp):
    """does next() reach StopIteration by itself (all() / len() terminate quickly)?"""
    k = sp[0]
    if k == "seq":
        return not sp[2]
    if k == "bin":
        return rd_finite(sp[2]) or rd_finite(sp[3])
    if k == "concat":
        return all(rd_finite(x) for x in sp[1])
    if k == "pingpong":
        return True
    return False


def gen_reader_spec(rng, kind):
    c = lambda: rng.choice([0.5, 2.0, 10.0, -1.0, 0.25, 3.0, -4.0, 64.0])
    expr = lambda: rng.choice([["lfo"], ["bin", "mul", ["lfo"], ["const", c()]], ["bin", "add", ["bin", "mul", ["lfo"], ["const", c()]], ["const", c()]],
                               ["bin", "sub", ["const", c()], ["lfo"]], ["bin", "mul", ["lfo"], ["lfo"]]])
    seq = lambda: ["seq", rng.choice([[1, 2, 3], [0.5, -2], [4], [1, 0, -1, 2], [7, 8, 9, 10, 11]]), False]
    fin = lambda: rng.choice([["bin", "add", expr(), seq()], ["bin", "mul", seq(), expr()], ["bin", "sub", expr(), seq()]])
    trig = lambda: ["seq", rng.choice([[0, 1], [0, 0, 1], [1], [0, 0, 0, 1, 1], [0, -1, 2]]), True]
    if kind == "lfo":
        return ["lfo"]
    if kind == "expr":
        return expr()
    if kind == "finite":
        return fin()
    if kind == "concat":
        return ["concat", [fin() for _ in range(rng.choice([1, 2, 3]))]]
    if kind == "reset":
        return ["reset", rng.choice([expr(), ["bin", "add", expr(), ["seq", [1, 2, 3, 4], True]]]), trig()]
    if kind == "reset-finite":
        return ["reset", fin(), trig()]
    if kind == "pingpong":
        return ["pingpong", rng.choice([fin(), ["concat", [fin(), fin()]]]), rng.choice([1, 2, 3])]
    if kind == "nested":
        return rng.choice([["reset", ["pingpong", fin(), 2], trig()], ["concat", [["pingpong", fin(), 1], fin()]],
                           ["pingpong", ["concat", [["pingpong", fin(), 1], fin()]], 2],
                           ["bin", "add", ["pingpong", fin(), rng.choice([1, 2])], expr()]])
    raise CheckError(kind)


RD_KINDS = ["lfo", "expr", "finite", "concat", "reset", "reset-finite", "pingpong", "nested"]


def gen_lfo_readers(run, n):
    """histories in which the timeline ticks while patterns that read the LFO are advanced, reset, drained (all / len),
    copied, constructed mid-cycle (PPingPong's constructor drains and resets its input), and tracks reading the LFO are
    reset (Track.reset, timeline.schedule(<Track>), timeline.reset) or re-scheduled by name; 2-4 standalone readers and
    0-2 tracks of ONE LFO; the operations fall mid-period (a reset at a whole number of periods would be invisible)"""
    rng = run.rng
    out = []
    F3 = ["bin", "add", ["lfo"], ["seq", [1, 2, 3], False]]
    fixed = [
        (24, 0.5, (0.0, 1.0), [], [["build", F3], ["tick", 16], ["all", 0], ["len", 0], ["tick", 100]]),
        (24, 0.5, (0.0, 1.0), [], [["build", ["reset", ["bin", "mul", ["lfo"], ["const", 2.0]], ["seq", [0, 0, 0, 1], True]]], ["tick", 13]] +
         [x for _ in range(12) for x in (["next", 0], ["tick", 8])]),
        (24, 0.5, (0.0, 1.0), [{"every": 1, "value": "raw-lfo"}], [["tick", 57], ["reschedule", 0], ["tick", 60]]),
        (96, 0.25, (20.0, 100.0), [{"every": 3, "value": ["bin", "mul", ["lfo"], ["const", 0.5]]}, {"every": 1, "value": "raw-lfo"}],
         [["build", ["lfo"]], ["tick", 128], ["next", 0], ["timeline_reset"], ["tick", 300], ["track_reset", 1], ["tick", 420]]),
        (10, 1.0, (-1.0, 1.0), [], [["build", ["lfo"]], ["tick", 3], ["build", ["pingpong", F3, 2]], ["next", 1], ["tick", 4], ["reset", 1], ["all", 1], ["copy", 0], ["tick", 20]]),
        (24, 2.0, (60.0, 72.0), [{"every": 2, "value": ["reset", ["lfo"], ["seq", [0, 1], True]]}],
         [["build", ["concat", [F3, ["bin", "sub", ["seq", [5, 6], False], ["lfo"]]]]], ["build", ["lfo"]], ["tick", 5], ["next", 0], ["next", 0], ["reset", 0],
          ["reset", 1], ["tick", 2], ["len", 0], ["reschedule_name", 0], ["tick", 30]]),
    ]
    for tpb, f, (lo, hi), tracks, ops in fixed[:n]:
        out.append({"tpb": tpb, "freq": f, "min": lo, "max": hi, "tracks": tracks, "ops": ops, "tag": "readers-fixed"})
    while len(out) < n:
        tpb = rng.choice([10, 24, 24, 96])
        f = rng.choice([x for x in LFO_WHOLE[tpb] if tpb / x >= 4]) if rng.random() < 0.85 else rng.choice([0.7, 1.1, 0.3])
        lo, hi = rng.choice([r for r in LFO_RANGES if r[1] <= 1000])      # products of two reads stay within the literal range
        per = max(4, int(Fraction(tpb) / Fraction(f)))
        tracks = []
        for _ in range(rng.choice([0, 1, 1, 2])):
            v = rng.choice(["raw-lfo", gen_reader_spec(rng, "expr"), gen_reader_spec(rng, "reset")])
            tracks.append({"every": rng.choice([1, 1, 2, 3]), "value": v})
        specs, ops = [], []
        for _ in range(rng.choice([2, 2, 3, 4])):
            kind = rng.choice(RD_KINDS)
            if kind in ("pingpong", "nested") and rng.random() < 0.5:
                continue     # built later, mid-cycle
            specs.append(gen_reader_spec(rng, kind))
            ops.append(["build", specs[-1]])
            run.dist("lfo.readers.kind.%s" % kind)
        budget = min(int(2.6 * per) + 6, 330)
        done = 0
        while done < budget:
            k = max(1, min(budget - done, rng.randint(1, max(2, per // 3))))
            if (done + k) % per == 0:
                k += 1       # never exactly at a whole number of periods
            ops.append(["tick", k])
            done += k
            for _ in range(rng.choice([1, 1, 2, 3])):
                r = rng.random()
                if r < 0.12 or not specs:
                    kind = rng.choice(["pingpong", "nested", "finite", "lfo"])
                    specs.append(gen_reader_spec(rng, kind))
                    ops.append(["build", specs[-1]])
                    run.dist("lfo.readers.built-mid-cycle.%s" % kind)
                    continue
                if tracks and r < 0.32:
                    j = rng.randrange(len(tracks))
                    ops.append(rng.choice([["track_reset", j], ["reschedule", j], ["reschedule", j], ["timeline_reset"], ["reschedule_name", j]]))
                    continue
                i = rng.randrange(len(specs))
                fin = rd_finite(specs[i])
                what = rng.choice(["next", "next", "reset", "reset"] + (["all", "all", "len"] if fin else []) + ["copy"] * (rng.random() < 0.15))
                if what == "next":
                    ops += [["next", i]] * rng.choice([1, 1, 2, 4])
                else:
                    ops.append([what, i])
        out.append({"tpb": tpb, "freq": f, "min": lo, "max": hi, "tracks": tracks, "ops": ops, "tag": "readers"})
    return out


def rd_py(sp):
    k = sp[0]
    if k == "lfo":
        return "iso.PLFO(lfo)"
    if k == "const":
        return "iso.PConstant(%r)" % sp[1]
    if k == "bin":
        return "iso.P%s(%s, %s)" % (sp[1].capitalize(), rd_py(sp[2]), rd_py(sp[3]))
    if k == "seq":
        return "iso.PSequence(%r%s)" % (sp[1], "" if sp[2] else ", 1")
    if k == "concat":
        return "iso.PConcatenate([%s])" % ", ".join(rd_py(x) for x in sp[1])
    if k == "reset":
        return "iso.PReset(%s, %s)" % (rd_py(sp[1]), rd_py(sp[2]))
    return "iso.PPingPong(%s, %d)" % (rd_py(sp[1]), sp[2])


def snippet_lfo_readers(sc):
    lines = ["import isobar as iso", "class Dev(iso.OutputDevice):", "    def control(self, control=0, value=0, channel=0): print('   track sends', control, value)",
             "tl = iso.Timeline(output_device=Dev(), clock_source=iso.DummyClock(ticks_per_beat=%d))" % sc["tpb"],
             "lfo = tl.lfo({'shape': 'sine', 'frequency': %r, 'min': %r, 'max': %r}); R = []; T = []; k = 0" % (sc["freq"], sc["min"], sc["max"])]
    for j, tr in enumerate(sc.get("tracks", [])):
        lines.append("T.append(tl.schedule({'control': %d, 'value': %s, 'channel': 1, 'duration': %d / %d}, name='reader%d'))" % (
            20 + j, "lfo" if tr["value"] == "raw-lfo" else rd_py(tr["value"]), tr["every"], sc["tpb"], j))
    for op in sc["ops"]:
        if op[0] == "tick":
            lines.append("for _ in range(%d): tl.tick(); k += 1; print('tick', k, lfo.value)" % op[1])
        elif op[0] == "build":
            lines.append("R.append(%s)" % rd_py(op[1]))
        elif op[0] == "next":
            lines.append("print('next(R[%d]) =', next(R[%d], 'StopIteration'), ' lfo.value', lfo.value)" % (op[1], op[1]))
        elif op[0] == "reset":
            lines.append("R[%d].reset(); print('R[%d].reset()  lfo.value', lfo.value, 'lfo.current_time', lfo.current_time)" % (op[1], op[1]))
        elif op[0] == "all":
            lines.append("print('R[%d].all() =', R[%d].all())" % (op[1], op[1]))
        elif op[0] == "len":
            lines.append("print('len(R[%d]) =', len(R[%d]))" % (op[1], op[1]))
        elif op[0] == "copy":
            lines.append("try: R[%d].copy()\nexcept Exception as e: print('copy raised', type(e).__name__)" % op[1])
        elif op[0] == "track_reset":
            lines.append("T[%d].reset()" % op[1])
        elif op[0] == "reschedule":
            lines.append("tl.schedule(T[%d])" % op[1])
        elif op[0] == "reschedule_name":
            lines.append("# tl.schedule(<the same event dict>, name='reader%d')  (updates the track in place)" % op[1])
        elif op[0] == "timeline_reset":
            lines.append("tl.reset()")
    return "\n".join(lines)


def run_lfo_readers(run, scs):
    if not scs:
        return
    shards = [scs[i::8] for i in range(8) if scs[i::8]]
    outs = run.impl_parallel("c18_impl", [{"lfo_readers": sh} for sh in shards])
    results = {}
    for sh, out in zip(shards, outs):
        for sc, r in zip(sh, out["lfo_readers"]):
            results[id(sc)] = r
    terms, meta = [], []
    for sc in scs:
        res = results[id(sc)]
        run.count(1)
        run.dist("lfo.readers.%s" % sc.get("tag", "replay"))
        run.dist("lfo.readers.tracks.%d" % len(sc.get("tracks", [])))
        for op in sc["ops"]:
            if op[0] != "tick":
                run.dist("lfo.readers.op.%s" % op[0])
        if res["raise"] is None:
            for op, r in zip(sc["ops"], res["ops"]):
                if op[0] == "copy":
                    run.dist("lfo.readers.copy.%s" % ("raises-" + r["raise"] if r["raise"] else "ok"))
        bad = oracle_lfo_readers(sc, res)
        nt = sum(len(r.get("ticks", [])) for r in res.get("ops", []))
        run.cov["oracle_evaluations"] += 4 * nt + 3 * len(res.get("ops", [])) + 1
        kinds = set()
        for kind, detail, tick in bad:
            if kind in kinds:
                continue
            kinds.add(kind)
            run.violation({"kind": kind, "site": "LFO"}, {
                "case": {"scenario": sc, "what": "lfo_readers"}, "observed": detail, "tick": tick,
                "oracle": "range / period / undisturbed / every-reader-reads-lfo.value oracle from the property text",
                "all_failures_in_this_case": [b[1] for b in bad][:8], "python": snippet_lfo_readers(sc)})
        if res["raise"] is not None:
            continue
        run.cov["ticks_compared"] = run.cov.get("ticks_compared", 0) + nt
        term = readers_term(sc, res)
        if term is None:
            continue         # an operation raised: the oracle has reported it
        terms.append(term)
        meta.append((sc, res, bool(bad)))
        if nt > 0:
            run.nontrivial(json.dumps(sc, sort_keys=True))
        run.sample({"lfo_readers": {k: sc[k] for k in ("tpb", "freq", "min", "max", "tracks")}, "ops": sc["ops"][:12]}, limit=2)
    failing = run.coq_failing(HEADER, terms, chunk=max(2, len(terms) // 12 + 1))
    run.cov["traces_validated_against_impl"] += len(terms) - len(failing)
    for i in failing:
        sc, res, judged = meta[i]
        if judged:
            continue
        run.violation({"kind": "correspondence", "site": "LFO"}, {
            "case": {"scenario": sc, "what": "lfo_readers"},
            "observed": "implementation and model (coq/Auto/Readers.v w_step: the LFO is ticked by the timeline only, pattern operations "
                        "observe it) disagree on this history: lfo.value after some operation or tick differs by more than 1e-9 from the "
                        "tick-only waveform, or next / all / len of a reader returned something else than the model says",
            "implementation": [{"op": op, "result": r.get("result"), "lfo": r.get("lfo"), "ticks": [v[0] for v in r.get("ticks", [])][:40]}
                               for op, r in zip(sc["ops"], res["ops"])][:60],
            "python": snippet_lfo_readers(sc)})


# ---- snippets ----------------------------------------------------------------------------------------------
def snippet_auto(sc, upto_tick=None):
    kw = []
    if sc.get("range") is not None:
        kw.append("range=(%r, %r)" % tuple(sc["range"]))
    if sc.get("initial") is not None:
        kw.append("initial=%r" % sc["initial"])
    if sc.get("boundaries") is not None:
        kw.append("boundaries=%r" % sc["boundaries"])
    if sc.get("default_duration") is not None:
        kw.append("default_duration=%r" % sc["default_duration"])
    lines = ["import isobar as iso",
             "class Dev(iso.OutputDevice): pass",
             "class T:",
             "    def __init__(s, i): s.i = i",
             "    def __setattr__(s, k, v): object.__setattr__(s, k, v); k == 'level' and print('   binding', s.i, 'attr <-', v)",
             "    def set_level(s, value, **kw): print('   binding', s.i, 'method <-', value, kw)",
             "class V(T):   # value type: equal when key and level are equal (like a dataclass)",
             "    def __init__(s, i, key, level): object.__setattr__(s, 'i', i); object.__setattr__(s, 'key', key); object.__setattr__(s, 'level', level)",
             "    def __eq__(s, o): return type(o) is V and (o.key, o.level) == (s.key, s.level)",
             "class N(T):   # defines __eq__ by name",
             "    def __init__(s, i, key): s.i = i; s.key = key",
             "    def __eq__(s, o): return type(o) is N and o.key == s.key",
             "    def __hash__(s): return hash(s.key)",
             "tl = iso.Timeline(output_device=Dev(), clock_source=iso.DummyClock(ticks_per_beat=%d))" % sc["tpb"],
             "a = tl.automation(%s); print('initial', a.value)" % ", ".join(kw), "t = 0"]
    for sg in sc["segs"]:
        op = sg.get("op")
        if op is not None:
            if op[0] in ("move_to", "move_by"):
                args = [repr(op[1])] + (["duration=%r" % op[2]] if op[2] is not None else []) + (["envelope=%r" % op[3]] if op[3] is not None else [])
                lines.append("a.%s(%s); print('%s ->', a.value)" % (op[0], ", ".join(args), op[0]))
            elif op[0] == "jump_to":
                lines.append("a.jump_to(%r); print('jump_to ->', a.value)" % op[1])
            elif op[0] == "set_range":
                lines.append("a.range = %r; print('range re-assigned ->', a.value)" % (None if op[1] is None else tuple(op[1]),))
            elif op[0] == "set_boundaries":
                lines.append("a.boundaries = %r; print('boundaries re-assigned ->', a.value)" % op[1])
            elif op[0] == "set_default":
                lines.append("a.default_duration = %r" % op[1])
            elif op[0] == "set_tpb":
                lines.append(("tl.clock_source = iso.DummyClock(ticks_per_beat=%d)" % op[1] if op[2] == "clock" else "tl.ticks_per_beat = %d" % op[1])
                             + "; print('resolution now %d ticks per beat ->', a.value)" % op[1])
            elif op[0] == "bind":
                parts = op[1].split("/")
                kind, key = (parts[1] if len(parts) > 1 else "plain"), (int(parts[2]) if len(parts) > 2 else 0)
                ctor = {"plain": "T(%d)" % op[-1], "dc": "V(%d, %d, a.value)" % (op[-1], key), "eq": "N(%d, %d)" % (op[-1], key)}[kind]
                if parts[0] == "attr":
                    lines.append("a.bind_to(%s, 'level')" % ctor)
                else:
                    lines.append("a.bind_to(%s, 'set_level', mode='method', **%r)" % (ctor, op[2]))
        if sg.get("ticks"):
            lines.append("for _ in range(%d): tl.tick(); t += 1; print('tick', t, a.value)" % sg["ticks"])
    return "\n".join(lines)


def snippet_lfo(sc):
    return ("import isobar as iso\nclass Dev(iso.OutputDevice): pass\n"
            "tl = iso.Timeline(output_device=Dev(), clock_source=iso.DummyClock(ticks_per_beat=%d))\n"
            "lfo = tl.lfo({'shape': 'sine', 'frequency': %r, 'min': %r, 'max': %r}); p = iso.Pattern.pattern(lfo); print(0, lfo.value, next(p))\n"
            "for k in range(1, %d): tl.tick(); print(k, lfo.value, next(p))" % (sc["tpb"], sc["freq"], sc["min"], sc["max"], min(sc["ticks"], 60) + 1))


def public(sc):
    return {k: v for k, v in sc.items()}


def info_json(info):
    return {"initial_exact": str(info["initial_exact"]),
            "segs": [{"D": None if i.get("D") is None else str(i["D"]), "valid": i.get("valid", True)} for i in info["segs"]]}


def info_from_json(j):
    return {"initial_exact": Fraction(j["initial_exact"]),
            "segs": [{"D": None if i["D"] is None else Fraction(i["D"]), "valid": i["valid"]} for i in j["segs"]]}


# ---- running ------------------------------------------------------------------------------------------------
def run_autos(run, cases):
    """cases: list of (scenario, oracle info).  Returns number of violations recorded."""
    if not cases:
        return
    shards = [cases[i::12] for i in range(12) if cases[i::12]]
    outs = run.impl_parallel("c18_impl", [{"autos": [sc for sc, _ in sh]} for sh in shards])
    results = {}
    for sh, out in zip(shards, outs):
        for (sc, _), r in zip(sh, out["autos"]):
            results[id(sc)] = r
    terms, meta = [], []
    for sc, info in cases:
        res = results[id(sc)]
        nt = sum(len(r["ticks"]) for r in res["segs"])
        run.count(1)
        run.cov["ticks_compared"] = run.cov.get("ticks_compared", 0) + nt
        run.dist("auto.%s" % sc["tag"])
        run.dist("auto.tpb%d" % sc["tpb"])
        run.dist("auto.range.%s" % (sc["boundaries"] if sc["range"] else "none"))
        cur_dd = sc.get("default_duration") or 0.0
        cur_tpb = sc["tpb"]
        for sg in sc["segs"]:
            op = sg.get("op")
            if op is None:
                continue
            run.dist("op.%s" % op[0])
            if op[0] == "set_default":
                cur_dd = op[1]
            if op[0] == "set_tpb":
                cur_tpb = op[1]
                run.dist("retime.how.%s" % op[2])
            if op[0] == "bind":
                run.dist("bind.kind.%s" % "/".join((op[1] + "/plain").split("/")[:2]))
            if op[0] in ("move_to", "move_by"):
                d = op[2] if op[2] is not None else cur_dd
                n = model_ticks(cur_tpb, d)
                run.dist("duration.%s" % ("zero" if n == 0 else "one-tick" if n == 1 else "negative" if (n or 0) < 0 else
                                          "short" if (n or 0) <= 32 else "long" if (n or 0) <= 1000 else "very-long"))
                e = 0.5 if op[3] is None else op[3]
                E = int(e * n) if n and n > 0 else 0
                run.dist("envelope.%s" % ("E=0" if E == 0 else "E=N" if E == n else "2E>N" if 2 * E > n else "2E<=N"))
                if sg["ticks"] < max(n or 0, 1):
                    run.dist("interrupted-moves")
        bad = oracle_auto(sc, info, res)
        run.cov["oracle_evaluations"] += nt + len(res["segs"]) + 1
        kinds = set()
        for kind, detail, tick in bad:
            if kind in kinds:
                continue
            kinds.add(kind)
            run.violation({"kind": kind, "site": "Automation"}, {
                "case": {"scenario": public(sc), "oracle_info": info_json(info), "what": "automation"},
                "observed": detail, "tick": tick, "oracle": "Fraction oracle from the property text",
                "all_failures_in_this_case": [b[1] for b in bad][:8],
                "python": snippet_auto(sc)})
        if not vouchable(sc):
            run.discard("float and exact arithmetic disagree on int(envelope*ticks) / round(x,8) tie: model cannot vouch")
            continue
        shown = [res["init"]] + [r["value"] for r in res["segs"]] + [x for r in res["segs"] for x, _ in r["ticks"]]
        if any(x is not None and not math.isfinite(x) for x in shown):
            # nothing to compare with the model: the oracle has judged the trace (an infinite / NaN value is never on target)
            if not bad:
                run.violation({"kind": "non-finite-value", "site": "Automation"}, {
                    "case": {"scenario": public(sc), "oracle_info": info_json(info), "what": "automation"},
                    "observed": "automation.value is not a finite number: %r" % [x for x in shown if x is not None and not math.isfinite(x)][:3],
                    "python": snippet_auto(sc)})
            continue
        term = auto_term(sc, res)
        if term is None:
            if not bad:
                run.violation({"kind": "raises", "site": "Automation.tick"}, {
                    "case": {"scenario": public(sc), "oracle_info": info_json(info), "what": "automation"},
                    "observed": [r for r in res["segs"] if r["raise"]], "python": snippet_auto(sc)})
            continue
        terms.append(term)
        meta.append((sc, info, res, bool(bad)))
        if nt > 0:
            run.nontrivial(json.dumps(public(sc), sort_keys=True))
        run.sample({"scenario": {k: sc[k] for k in ("tpb", "range", "boundaries", "initial", "segs")},
                    "values_after_first_ticks": [x for r in res["segs"] for x, _ in r["ticks"]][:8]}, limit=3)
    failing = run.coq_failing(HEADER, terms, chunk=max(4, len(terms) // 24 + 1))
    run.cov["traces_validated_against_impl"] += len(terms) - len(failing)
    for i in failing:
        sc, info, res, judged = meta[i]
        if judged:
            continue      # the oracle already reported this case with its failing input
        run.violation({"kind": "correspondence", "site": "Automation"}, {
            "case": {"scenario": public(sc), "oracle_info": info_json(info), "what": "automation"},
            "observed": "implementation and model (coq/Auto/Automation.v; coq/Auto/Retime.v ra_step when the resolution changes) disagree on this scenario: "
                        "a value after some operation/tick differs by more than 1e-9, or a binding call / rejected call differs",
            "implementation": {"init": res["init"], "segs": [{"raise": r["raise"], "value": r["value"], "calls": r["calls"],
                                                               "ticks": r["ticks"][:40]} for r in res["segs"]]},
            "python": snippet_auto(sc), "coq_term": terms[i][:3000]})


def run_lfos(run, scs):
    if not scs:
        return
    shards = [scs[i::8] for i in range(8) if scs[i::8]]
    outs = run.impl_parallel("c18_impl", [{"lfos": sh} for sh in shards])
    results = {}
    for sh, out in zip(shards, outs):
        for sc, r in zip(sh, out["lfos"]):
            results[id(sc)] = r
    terms, meta = [], []
    for sc in scs:
        res = results[id(sc)]
        run.count(1)
        period = Fraction(sc["tpb"]) / Fraction(sc["freq"])
        run.dist("lfo.period.%s" % ("whole" if period.denominator == 1 else "fractional"))
        bad = oracle_lfo(sc, res)
        run.cov["oracle_evaluations"] += 3 * len(res.get("values") or []) + 1
        kinds = set()
        for kind, detail, tick in bad:
            if kind in kinds:
                continue
            kinds.add(kind)
            run.violation({"kind": kind, "site": "LFO"}, {
                "case": {"scenario": sc, "what": "lfo"}, "observed": detail, "tick": tick,
                "oracle": "range / period / pattern-read oracle from the property text", "python": snippet_lfo(sc)})
        if res["raise"] is not None:
            continue
        run.cov["ticks_compared"] = run.cov.get("ticks_compared", 0) + len(res["values"])
        terms.append(lfo_term(sc, res))
        meta.append((sc, res, bool(bad)))
        run.nontrivial(json.dumps(sc, sort_keys=True))
        run.sample({"lfo": sc, "values_after_first_ticks": res["values"][:6]}, limit=4)
    failing = run.coq_failing(HEADER, terms, chunk=max(2, len(terms) // 12 + 1))
    run.cov["traces_validated_against_impl"] += len(terms) - len(failing)
    for i in failing:
        sc, res, judged = meta[i]
        if judged:
            continue
        run.violation({"kind": "correspondence", "site": "LFO"}, {
            "case": {"scenario": sc, "what": "lfo"},
            "observed": "lfo.value differs by more than 1e-9 from the model min + (sin(2 pi t f) + 1) / 2 * (max - min) at t = k / ticks_per_beat",
            "implementation": {"init": res["init"], "values": res["values"][:40]},
            "python": snippet_lfo(sc)})


def run_lfo_scripts(run, scs):
    if not scs:
        return
    shards = [scs[i::8] for i in range(8) if scs[i::8]]
    outs = run.impl_parallel("c18_impl", [{"lfo_scripts": sh} for sh in shards])
    results = {}
    for sh, out in zip(shards, outs):
        for sc, r in zip(sh, out["lfo_scripts"]):
            results[id(sc)] = r
    terms, meta = [], []
    for sc in scs:
        res = results[id(sc)]
        run.count(1)
        run.dist("lfo.script.%s" % sc.get("tag", "replay"))
        for sg in sc["segs"]:
            if sg.get("op") is not None:
                run.dist("lfo.reconfig.%s" % (sg["op"][0] if sg["op"][0] != "set" else "set-" + sg["op"][1]))
        bad = oracle_lfo_script(sc, res)
        nt = sum(len(r["ticks"]) for r in res["segs"])
        run.cov["oracle_evaluations"] += 5 * nt + 3 * len(res["segs"]) + 1
        kinds = set()
        for kind, detail, tick in bad:
            if kind in kinds:
                continue
            kinds.add(kind)
            run.violation({"kind": kind, "site": "LFO"}, {
                "case": {"scenario": sc, "what": "lfo_script"}, "observed": detail, "tick": tick,
                "oracle": "range / period / pattern-read oracle from the property text, against the configuration given last",
                "all_failures_in_this_case": [b[1] for b in bad][:8], "python": snippet_lfo_script(sc)})
        if res["raise"] is not None:
            continue
        run.cov["ticks_compared"] = run.cov.get("ticks_compared", 0) + nt
        terms.append(lfo_script_term(sc, res))
        meta.append((sc, res, bool(bad)))
        if nt > 0:
            run.nontrivial(json.dumps(sc, sort_keys=True))
        run.sample({"lfo_script": sc, "values_after_first_ticks": [v[0] for r in res["segs"] for v in r["ticks"]][:6]}, limit=2)
    failing = run.coq_failing(HEADER, terms, chunk=max(2, len(terms) // 12 + 1))
    run.cov["traces_validated_against_impl"] += len(terms) - len(failing)
    for i in failing:
        sc, res, judged = meta[i]
        if judged:
            continue
        run.violation({"kind": "correspondence", "site": "LFO"}, {
            "case": {"scenario": sc, "what": "lfo_script"},
            "observed": "implementation and model (coq/Auto/Lfo.v lfo_run / tl_lfo; coq/Auto/Retime.v rl_run when the resolution changes) disagree on "
                        "this history: lfo.value after some re-configuration or tick differs by more than 1e-9 from the waveform of the "
                        "configuration given last at the running clock (in beats: every tick counted with the ticks_per_beat in force at "
                        "that tick), or Timeline.lfo(name=...) did not find / create the LFO the model says",
            "implementation": {"init": res["init"], "segs": [{"value": r["value"], "same": r["same"], "n_lfos": r["n_lfos"],
                                                               "ticks": [v[0] for v in r["ticks"]][:40]} for r in res["segs"]]},
            "python": snippet_lfo_script(sc)})


def check(run):
    quick = run.tier == "quick"
    cases = gen_grid(run) + gen_traps(run, 6 if quick else 40) + gen_malformed(run)
    cases += gen_random(run, 170 if quick else 4000, 5 if quick else 40)
    cases += gen_reconfig(run, 60 if quick else 1200)
    cases += gen_auto_retime(run, 40 if quick else 1000)
    cases += gen_bind_equal(run, 36 if quick else 800)
    for i in range(0, len(cases), 1500):
        run_autos(run, cases[i:i + 1500])
    run_lfos(run, gen_lfos(run, 40 if quick else 400))
    run_lfo_scripts(run, gen_lfo_scripts(run, 48 if quick else 500) + gen_lfo_retime(run, 30 if quick else 400))
    run_lfo_readers(run, gen_lfo_readers(run, 36 if quick else 500))
    run.cov["rule"] = ("one case = one scenario on a fresh Timeline: an automation (range none/clip/wrap, initial, default_duration, 0-3 bindings) "
                       "driven by a sequence of move_to / move_by / jump_to / bind_to calls with ticks in between, or one LFO (frequency, range) "
                       "ticked for > 2 periods and read through PLFO from two scheduled tracks; every value after every operation and tick is "
                       "compared with the Coq model; or one LFO / automation history with re-configurations (attribute assignment, update, Timeline.lfo(name=existing), "
                       "reset; range / boundaries / default_duration; timeline.ticks_per_beat / clock source) at random ticks, observed after every operation and tick; "
                       "or one automation with 2-5 bound targets of which 2-4 compare equal without being identical; "
                       "or one LFO with several pattern readers and tracks that are advanced / reset / drained / constructed between ticks. "
                       "distinct by the full scenario; non-trivial = at least one tick was executed.")


def replay(run, doc):
    case = doc.get("case", {})
    if "scenario" not in case:
        print("replay: no scenario in the document, re-running the whole check")
        if run.build(EXTRA_TARGETS):
            check(run)
        return run.finish()
    if not run.build(EXTRA_TARGETS):
        return 1
    sc = case["scenario"]
    if case.get("what") == "lfo":
        run_lfos(run, [sc])
    elif case.get("what") == "lfo_script":
        run_lfo_scripts(run, [sc])
    elif case.get("what") == "lfo_readers":
        run_lfo_readers(run, [sc])
    else:
        run_autos(run, [(sc, info_from_json(case["oracle_info"]))])
    for v in run.violations:
        print("REPLAY-FAILS:", json.load(open(v["path"])).get("observed"))
    return 1 if run.violations else 0

"""C08, operand-class stratum: one instance of EVERY pattern class of the library as the pattern operand of an
operator expression (directly, not wrapped in an operator expression), on either side of every operator.

Classes of pat_common's registry (GENERATORS) are generated as typed expression trees (random finite instances, also
compared with the Coq model).  Every other class has a RECIPE below: Python source text of a small deterministic
instance (stochastic ones seeded; `.seed(n)` returns the pattern itself, the others end in `.copy()`, which returns an
instance of the same class with the same attributes) — judged by the element-wise oracle only.  A class of the library
that has neither a generator, nor a recipe, nor an entry in EXCLUDED shows up in the evidence
(`operand_classes_not_covered`): the class list is taken from the live library by introspection, not from this file."""

BASE = "iso.PSequence([1, 2, None, 3, 5, 2], 1)"
NUMS = "iso.PSequence([1, 4, 2, 3, 5, 2], 1)"
KEY = "iso.Key('C', 'major')"

RECIPES = {
    # chance.py (seeded)
    "PBrown": "iso.PBrown(0, 2, -5, 5).seed(3)",
    "PChoice": "iso.PChoice([1, 2, 3, 5], [1, 2, 3, 4]).seed(3)",
    "PCoin": "iso.PCoin(0.5).seed(3)",
    "PFlipFlop": "iso.PFlipFlop(0, 0.5, 0.5).seed(3)",
    "PRandomExponential": "iso.PRandomExponential(1, 40).seed(3)",
    "PRandomImpulseSequence": "iso.PRandomImpulseSequence(0.5, 4).seed(3)",
    "PRandomWalk": "iso.PRandomWalk([1, 2, 3, 5, 8], 1, 2).seed(3)",
    "PSample": "iso.PSample([1, 2, 3, 5], 2).seed(3)",
    "PShuffle": "iso.PShuffle([1, 2, 3, 5], 1).seed(3)",
    "PShuffleInput": "iso.PShuffleInput(%s, 3).seed(3)" % BASE,
    "PSkip": "iso.PSkip(%s, 0.5).seed(3)" % BASE,
    "PSwitchOne": "iso.PSwitchOne(%s, 3).seed(3)" % NUMS,
    "PWhite": "iso.PWhite(0, 10, 6).seed(3)",
    "PMarkov": "iso.PMarkov({1: [2, 2, 3], 2: [3], 3: [1, 2]}).seed(3)",
    # core.py
    "PDict": "iso.PDict({'note': iso.PSequence([1, 2, 3], 1), 'amp': 4}).copy()",
    "PFunc": "iso.PFunc(lambda: 3).copy()",
    # fade.py, lsystem.py, oscillator.py
    "PFadeNotewise": "iso.PFadeNotewise(%s).copy()" % NUMS,
    "PLSystem": "iso.PLSystem('N+N', 2, False).copy()",
    "PSaw": "iso.PSaw(4, 0, 8).copy()",
    "PTri": "iso.PTri(4, 0, 8).copy()",
    # scalar.py
    "PMap": "iso.PMap(%s, abs).copy()" % NUMS,
    "PMapEnumerated": "iso.PMapEnumerated(%s, lambda n, value: n + value).copy()" % NUMS,
    "PNormalise": "iso.PNormalise(%s).copy()" % NUMS,
    "PScalar": "iso.PScalar(iso.PSequence([(1, 3), (2, 6), 5], 1)).copy()",
    "PScaleLinExp": "iso.PScaleLinExp(%s, 0, 8, 1, 64).copy()" % NUMS,
    "PScaleLinLin": "iso.PScaleLinLin(%s, 0, 8, 0, 4).copy()" % NUMS,
    # sequence.py
    "PArpeggiator": "iso.PArpeggiator([0, 4, 7, 11], iso.PArpeggiator.UP).copy()",
    "PCreep": "iso.PCreep(%s, 3, 1, 2).copy()" % NUMS,
    "PEuclidean": "iso.PEuclidean(3, 8).copy()",
    "PInterpolate": "iso.PInterpolate(%s, 2).copy()" % NUMS,
    "PMetropolis": "iso.PMetropolis([1, 2, 3], [2, 1], [1]).copy()",
    "PPatternGeneratorAction": "iso.PPatternGeneratorAction(lambda: iso.PSequence([1, 2, 3], 1)).copy()",
    "PPermut": "iso.PPermut(iso.PSequence([1, 2, 3], 1), 3).copy()",
    "PSequenceAction": "iso.PSequenceAction([1, 2, 3], lambda l: list(reversed(l)), 2).copy()",
    # static.py
    "PGlobals": "iso.PGlobals('c08_operand_class_absent', 5).copy()",
    # tonal.py
    "PDegree": "iso.PDegree(%s, iso.Scale.major).copy()" % BASE,
    "PFilterByKey": "iso.PFilterByKey(%s, %s).copy()" % (NUMS, KEY),
    "PKeyTonic": "iso.PKeyTonic(iso.PSequence([%s, iso.Key('D', 'minor')], 2)).copy()" % KEY,
    "PMidiNoteToFrequency": "iso.PMidiNoteToFrequency(iso.PSequence([69, 57, None, 60], 1)).copy()",
    "PMidiSemitonesToFrequencyRatio": "iso.PMidiSemitonesToFrequencyRatio(iso.PSequence([0, 12, -12, 7], 1)).copy()",
    "PNearestNoteInKey": "iso.PNearestNoteInKey(%s, %s).copy()" % (NUMS, KEY),
    # warp.py
    "PWInterpolate": "iso.PWInterpolate(iso.PSequence([0.5, -0.5], 1), 2).copy()",
    "PWRallantando": "iso.PWRallantando(4, 0.5).copy()",
    "PWSine": "iso.PWSine(4, 0.5).copy()",
}

# classes that draw from Python's GLOBAL generator (no seed() of their own): their stream is not reproducible by a twin, so
# only the construction of the operator expression is judged (the dunder dispatch), not the elements; PKeyScale yields
# Scale objects, which do not travel to the oracle (Scale.__eq__ raises on an int: only the real object can tell)
CTOR_ONLY = {
    "PKeyScale": "iso.PKeyScale(iso.PSequence([%s, iso.Key('D', 'minor')], 2)).copy()" % KEY,
    "PFadeNotewiseRandom": "iso.PFadeNotewiseRandom(%s).copy()" % NUMS,
    "PExplorer": "iso.PExplorer(0.5, 4).copy()",
}

EXCLUDED = {
    "PBinOp": "abstract base of the operator classes (no __next__)",
    "PStochasticPattern": "abstract base (no __next__)",
    "PFade": "abstract base (no __next__)",
    "PWarp": "abstract base (no __next__)",
    "PLFO": "needs an LFO bound to a running Timeline (wall clock)",
    "PCurrentTime": "reads the current Timeline's time (process-global state, C18/C19)",
    "PStaticPattern": "reads the current Timeline's time",
    "PMIDIControl": "needs a MIDI input device",
    "PMonomeArcControl": "needs a monome arc",
}

"""C07, stratum "pattern-valued globals": globals whose VALUES are Pattern objects (Globals.get / PGlobals resolve them through
Pattern.value), set again over an existing value - pattern over number, number over pattern, pattern over pattern, the same
value again, one object under two names - by setter tracks (all three forms of Globals.set), read by several reader tracks
(PGlobals as an event argument, Globals.get inside the callback).  Model: coq/Sched/GlobalsPat.v; theorems
C07_globals_pattern_latest, C07_globals_set_takes_effect, C07_globals_stored, C07_globals_pattern_shared,
C07_globals_scalar_case.  Driver: harness/impl/c07_impl.py (kind "globals").
Oracle (plain Python, from the property text): every read returns the latest value set for its name, or the default (KeyError
for Globals.get); a stored number is returned as it is, a stored pattern gives its values in turn to whoever reads it (the
count of reads of that object so far decides, under whatever name)."""
from common import *

HEADER = "From Isobar Require Import Base.Prelude Sched.Static Sched.GlobalsPat.\n"
NOKEY = -999


def gen_program(rng):
    tpb = rng.choice([2, 4, 4, 8])
    ticks = rng.choice([24, 32, 48])
    nobj = rng.randint(1, 3)
    objs = [{"vals": rng.sample(range(1, 400), rng.choice([1, 1, 2, 3, 4]))} for _ in range(nobj)]
    nnames = rng.randint(1, 3)

    def spec():
        r = rng.random()
        if r < 0.45:
            return ["p", rng.randrange(nobj)]
        return ["s", rng.choice([0, 0, 60, 64, rng.randint(400, 500)])]     # 0: a falsy value is a value
    tracks = []
    nset = rng.choice([1, 1, 2])
    for _ in range(nset):
        groups = []
        for _ in range(rng.randint(2, 5)):
            groups.append([[rng.randrange(nnames), spec(), rng.choice(["kv", "kv", "dict", "dict2"])] for _ in range(rng.choice([1, 1, 2]))])
        tracks.append({"role": "setter", "period": rng.choice([2, 3, 4, tpb, 2 * tpb]), "offset": rng.choice([0, 1, 2, 3]), "groups": groups})
    for _ in range(rng.randint(2, 3)):
        tracks.append({"role": "reader", "period": rng.choice([1, 2, 3, 4, 5]), "offset": rng.choice([0, 0, 1, 2]),
                       "name": rng.randrange(nnames), "direct": rng.random() < 0.4, "count": rng.choice([None, None, 6, 12])})
    rng.shuffle(tracks)
    return {"kind": "globals", "tpb": tpb, "ticks": ticks, "default": -1, "objs": objs, "tracks": tracks}


def linear_program(p):
    out = []
    n = [0] * len(p["tracks"])
    for tick in range(p["ticks"]):
        for j, t in enumerate(p["tracks"]):
            if tick < t["offset"] or (tick - t["offset"]) % t["period"]:
                continue
            if t.get("count") is not None and n[j] >= t["count"]:
                continue
            if t["role"] == "setter":
                for name, spec, form in t["groups"][n[j] % len(t["groups"])]:
                    out.append(("set", tick, j, name, spec))
            else:
                out.append(("get", tick, j, t["name"]))
                if t["direct"]:
                    out.append(("direct", tick, j, t["name"]))
            n[j] += 1
    return out


def oracle(p, log):
    bad = []
    want = linear_program(p)
    if [tuple(x[:4]) for x in log] != [tuple(x[:4]) for x in want]:
        bad.append(("read-schedule", "the callbacks ran in a different order / on different ticks than scheduled: %r vs %r"
                    % ([tuple(x[:4]) for x in log][:12], [tuple(x[:4]) for x in want][:12])))
        return bad
    stored = {}
    reads = [0] * len(p["objs"])
    history = []
    for x in log:
        kind, tick, j, name = x[:4]
        if kind == "set":
            stored[name] = x[4]
            history.append((tick, name, x[4]))
            continue
        if name not in stored:
            exp = p["default"] if kind == "get" else "keyerror"
        elif stored[name][0] == "s":
            exp = stored[name][1]
        else:
            q = stored[name][1]
            vals = p["objs"][q]["vals"]
            exp = vals[reads[q] % len(vals)]
            reads[q] += 1
        if x[4] != exp:
            what = "never set" if name not in stored else ("the number %r" % stored[name][1] if stored[name][0] == "s" else
                                                           "pattern object %d = cyclic %r, read %d times before" % (stored[name][1], p["objs"][stored[name][1]]["vals"], reads[stored[name][1]] - 1))
            bad.append(("globals-pattern", "tick %d: track %d reads g%d (%s) = %r, but the latest value set for it is %s, so the read must return %r; sets so far: %r"
                        % (tick, j, name, "PGlobals" if kind == "get" else "Globals.get", x[4], what, exp, history[-6:])))
            break
    return bad


def program_term(p, log):
    acts, outs = [], []
    for x in log:
        kind, name = x[0], x[3]
        if kind == "set":
            acts.append("GASet %d (%s)" % (name, "GScalar %s" % zlit(x[4][1]) if x[4][0] == "s" else "GPat %s" % natlit(x[4][1])))
            outs.append("None")
        else:
            d = p["default"] if kind == "get" else NOKEY
            acts.append("GARead %d %s" % (name, zlit(d)))
            v = NOKEY if x[4] == "keyerror" else x[4]
            outs.append("Some (GVal %s)" % zlit(v) if type(v) is int else "Some GNoObj")
    objs = lst(["pobj0 %s true" % zlist(o["vals"]) for o in p["objs"]])
    return "list_eqb gout_eqb (gp_run (gstore0 %s) %s) %s" % (objs, lst(acts), lst(outs))


def globals_part(run, n):
    rng = run.rng
    progs = [gen_program(rng) for _ in range(n)]
    parts = [progs[i::6] for i in range(6) if progs[i::6]]
    outs = run.impl_parallel("c07_impl", [{"programs": q} for q in parts])
    results = [None] * len(progs)
    for si, out in enumerate(outs):
        for j, r in enumerate(out["results"]):
            results[si + j * 6] = r
    terms, where = [], []
    for pi, (p, r) in enumerate(zip(progs, results)):
        run.count()
        run.dist("gpat.programs")
        if "driver_error" in r:
            run.violation({"kind": "driver-error", "site": "Globals/PGlobals"}, {"part": "gpat", "program": p, "observed": r}, found_input=True)
            continue
        log = r["log"]
        bad = oracle(p, log)
        run.cov["oracle_evaluations"] += 1
        stored = {}
        for x in log:
            if x[0] == "set":
                old = stored.get(x[3])
                if old is not None:
                    run.dist("gpat.set.%s-over-%s" % ("pattern" if x[4][0] == "p" else "number", "pattern" if old[0] == "p" else "number"))
                    if old == x[4]: run.dist("gpat.set.same-value-again")
                else:
                    run.dist("gpat.set.first-" + ("pattern" if x[4][0] == "p" else "number"))
                stored[x[3]] = x[4]
            else:
                cur = stored.get(x[3])
                run.dist("gpat.read." + ("unset" if cur is None else "pattern" if cur[0] == "p" else "number"))
        if len(set(x[2] for x in log if x[0] != "set")) >= 2 and any(x[0] == "set" and x[4][0] == "p" for x in log):
            run.nontrivial(json.dumps(p, sort_keys=True))
        seen = set()
        for kind_, detail in bad:
            if kind_ in seen:
                continue
            seen.add(kind_)
            run.violation({"kind": kind_, "site": "Globals/PGlobals with pattern values"}, {
                "part": "gpat", "program": p, "observed": detail, "log_head": log[:40],
                "oracle": "a globals read returns the latest value set (a stored pattern: its next value, shared by all readers) or the default",
                "python": "PYTHONPATH=/repo /venv/bin/python /verif/harness/impl/c07_impl.py <<< '{\"programs\": [<program>]}'   # or, by hand:\n"
                          "import isobar as iso; from isobar.globals import Globals\n"
                          "Globals.set('x', 60); Globals.set('x', iso.PSequence([1, 2])); print(Globals.get('x'))   # 1, not 60\n"
                          "Globals.set('x', 7); print(Globals.get('x'))   # 7\n"})
        if bad:
            continue
        terms.append(program_term(p, log)); where.append(pi)
        if pi % 50 == 0:
            run.sample({"family": "pattern-valued globals", "objs": p["objs"], "tracks": [t["role"] for t in p["tracks"]], "log_head": log[:8]})
    badi = run.coq_failing(HEADER, terms, chunk=40)
    run.cov["pattern_globals_programs_validated_against_model"] = len(terms) - len(badi)
    run.cov["traces_validated_against_impl"] += len(terms) - len(badi)
    for b in badi[:3]:
        pi = where[b]
        run.violation({"kind": "correspondence", "site": "Sched/GlobalsPat.v"}, {
            "part": "gpat", "broken": "correspondence Sched/GlobalsPat.v <-> isobar Globals / PGlobals with pattern values (C07_globals_pattern_* no longer describe this code)",
            "program": progs[pi], "observed": results[pi]["log"][:60]}, found_input=False)


def replay_gpat(run, doc):
    p = doc["program"]
    r = run.impl("c07_impl", {"programs": [p]})["results"][0]
    bad = oracle(p, r["log"]) if "log" in r else [("driver", r)]
    print("log:", json.dumps(r.get("log", r))[:1500])
    print("replay: oracle verdict:", bad or "ok")
    if not bad:
        m = run.coq_failing(HEADER, [program_term(p, r["log"])])
        print("model agrees:", not m)
        return 1 if m else 0
    return 1

"""C20 — string notation parses to the structure its brackets describe.

Theorems: coq/Props/C20.v about the executable model coq/Notation/{Lexer,Parser,PSeq}.v (a transcription of
isobar/notation/notation.py, the str branch of Pattern.pattern and PSequence.__next__).
Correspondence: every generated string is parsed by the repository under test (parse_notation, Pattern.pattern,
PDict, PSequence(str)) and by the model inside Coq (vm_compute); accept/reject (exception class), the tree
obtained by walking `.sequence` with atom types, and nextn over 3 cycles of the parent are compared.  Float
atoms: the model keeps the decimal text; the texts are read back from Coq and converted with Python's float()
and compared bit-for-bit with the implementation's value (no float repr is compared).
Oracle (independent of the model, written from the property text): a recursive-descent reference parser that
gives a verdict only where the property fixes one (foreign character / unbalanced brackets => must raise
ValueError; tokens separated by blanks, tabs or newlines => must parse to exactly the described tree), a
token-conservation check of every accepted string against the returned tree, the closed form of "a nested
group contributes one element per cycle of its parent", and the fallback rule for event-dictionary values.
"""
from common import *
import math

PROP = "C20"
META = {
 "engine": "P-notation-parser",
 "text": "Coq theorems (Props/C20.v, closed under the global context) about a character-level model of the tokenizer (the regular expression incl. its backtracking and the \\b word boundary, lstrip) and of the depth-counter parser as written: for EVERY nested sequence of unbounded depth and width and every choice of inner whitespace, parse(format(t)) = t with int / negative int / decimal / note-name atoms keeping their kind (C20_roundtrip); for EVERY string, if it is accepted then the flattened result is exactly its token stream, the brackets are balanced and only token characters and whitespace occur (C20_structure, C20_balanced_only); a string is accepted iff it tokenizes completely and its brackets are balanced, so deleting/inserting/swapping a bracket into imbalance and any foreign character give ValueError, never another exception (C20_accept_iff, C20_reject, C20_total); the event-dictionary fallback keeps exactly the rejected strings as constants (C20_fallback); a nested group contributes its c-th element on the c-th cycle of its parent, at every depth (C20_cycle). The model is tied to the repository on every run: random nested sequences (depth 0..5, width 0..6, all atom kinds, 0..3 whitespace characters incl. tabs/newlines/Unicode spaces), a mutation stream (delete/insert/swap brackets, foreign characters, glued tokens, malformed words) and ALL strings up to length 4 over the alphabet {1 - . c # [ ] space} are run through parse_notation, Pattern.pattern, PDict and PSequence(str) and compared inside Coq (vm_compute) with the model; an independent reference parser / token-conservation / cycle oracle judges every implementation result and supplies the failing string. Second round - the pattern built by the parser used through the whole pattern protocol (Notation/PSeqProto.v: reset = every group at every depth back to position 0, all(m), len, copy, histories over a store of objects): C20_reset_restores, C20_rewind_outputs, C20_all_rewinds, C20_history_rewind (after ANY history of next/reset/all/copy on the parsed object and its copies a reset or all() of any of them followed by nextn returns the outputs of a fresh parse), C20_cycle_after_rewind (one element per cycle of the parent from the start again), C20_copy_independent; 361 scripts per run (depth 0-5; parse_notation / Pattern.pattern / PSequence(str) / PDict / a Timeline rewound by Timeline.reset and Track.reset) are compared with the model operation by operation and judged by a reference interpreter of nested cyclic sequences.",
 "note": "Trusted: Coq kernel + VM; the Python harness; CPython's re/str.lstrip/int()/float() as mirrored by the model (the whitespace set and \\w on ASCII are re-measured from the interpreter on every run and compared with the model's tables; \\w on non-ASCII characters enters the model as data). Modelled, not verified: the float VALUE of a decimal token (the model keeps the text; float() is applied by the harness); number tokens longer than 4300 digits (int() refuses them in CPython 3.12) and PSequence.repeats (sys.maxsize) are outside the model. An empty nested group stops the pattern (observed, compared with the model, not demanded by the property).",
}

HEADER_TMPL = """From Isobar Require Import Base.Prelude Notation.Lexer Notation.Parser Notation.PSeq.
Set Printing Depth 1000000.
Set Printing Width 200.
Inductive etree := EI (z : Z) | EF | ES (s : str) | EG (ch : list etree).
Fixpoint ematch (t : tree) (e : etree) : bool :=
  match t, e with
  | Leaf (VInt a), EI b => a =? b
  | Leaf (VFloat _), EF => true
  | Leaf (VStr a), ES b => str_eqb a b
  | Node ch, EG es =>
      (fix go (l1 : list tree) (l2 : list etree) : bool :=
         match l1, l2 with
         | [], [] => true
         | x :: r1, y :: r2 => ematch x y && go r1 r2
         | _, _ => false
         end) ch es
  | _, _ => false
  end.
Fixpoint lmatch {A B} (f : A -> B -> bool) (l1 : list A) (l2 : list B) : bool :=
  match l1, l2 with
  | [], [] => true
  | x :: r1, y :: r2 => f x y && lmatch f r1 r2
  | _, _ => false
  end.
Definition vmatch (v : value) (e : etree) : bool := ematch (Leaf v) e.
Inductive eres := EOk (g : list etree) (k : nat) (out : list etree) | ERej | EOther.
Definition uw (c : Z) : bool := existsb (Z.eqb c) UWORD.
Definition chk (s : str) (e : eres) : bool :=
  match parse uw s, e with
  | Ok g, EOk eg k eo => lmatch ematch g eg && lmatch vmatch (outputs k g) eo
  | Reject, ERej => true
  | _, _ => false
  end.
Inductive epat := EPSeq (g : list etree) | EPConst (s : str) | EPOther.
Definition chkpat (s : str) (e : epat) : bool :=
  match patternify uw s, e with
  | Ok (PatSeq g), EPSeq eg => lmatch ematch g eg
  | Ok (PatConst c), EPConst ec => str_eqb c ec
  | _, _ => false
  end.
Fixpoint tfloats (t : tree) : list str :=
  match t with Leaf (VFloat x) => [x] | Leaf _ => [] | Node ch => flat_map tfloats ch end.
Definition vfloats (v : value) : list str := match v with VFloat x => [x] | _ => [] end.
Definition case_floats (s : str) (k : nat) : list str :=
  match parse uw s with
  | Ok g => flat_map tfloats g ++ flat_map vfloats (outputs k g)
  | _ => []
  end.
"""

DIG = "0123456789"
LETTERS = "abcdefg"
TOKEN_CHARS = set(DIG + LETTERS + "#.-[]")
PLAIN_WS = " \t\n"
EXOTIC_WS = ["\r", "\x0b", "\x0c", "\x1c", "\x1d", "\x1e", "\x1f", "\x85", "\xa0", "\u1680", "\u2003", "\u2028", "\u202f", "\u205f", "\u3000"]
FOREIGN = list("!\"$%&'()*+,/:;<=>?@\\^_`{|}~hijkxyzABCGH") + ["\x00", "\x1b", "\x7f", "\u00e9", "\u266f", "\uff12", "\u0661",
                                                                "\u00b2", "\u00bd", "\u200b", "\U0001d7d9", "\U0001f3b5", "\u00aa"]


def codes(s):
    return lst([zlit(ord(c)) for c in s])


# ---- trees (Python side): ("i", int) | ("f", text) | ("s", text) | ("g", [children]) --------------------
def tree_depth(nodes):
    return max([1 + tree_depth(n[1]) for n in nodes if n[0] == "g"] + [0])


def tree_width(nodes):
    return max([len(nodes)] + [tree_width(n[1]) for n in nodes if n[0] == "g"])


def has_empty_group(nodes):
    return any(n[0] == "g" and (len(n[1]) == 0 or has_empty_group(n[1])) for n in nodes)


def count_leaves(nodes):
    return sum(count_leaves(n[1]) if n[0] == "g" else 1 for n in nodes)


def from_impl_tree(t):
    """driver encoding -> python tree with floats as ('fv', hex)"""
    out = []
    for n in t:
        if n[0] == "g":
            out.append(("g", from_impl_tree(n[1])))
        elif n[0] == "i":
            out.append(("i", n[1]))
        elif n[0] == "f":
            out.append(("fv", n[1]))
        elif n[0] == "s":
            out.append(("s", n[1]))
        else:
            out.append(("?", n[1]))
    return out


def has_unknown(t):
    return any(n[0] == "?" or (n[0] == "g" and has_unknown(n[1])) for n in t)


def etree(nodes):
    items = []
    for n in nodes:
        if n[0] == "g":
            items.append("EG " + etree(n[1]))
        elif n[0] == "i":
            items.append("EI " + zlit(n[1]))
        elif n[0] in ("f", "fv"):
            items.append("EF")
        elif n[0] == "s":
            items.append("ES " + codes(n[1]))
        else:
            raise ValueError(n)
    return lst(items)


def fhex(text):
    return float(text).hex()


def same_tree(ref, impl):
    """ref: oracle tree (floats as text); impl: floats as hex.  Returns None or a description of the first difference"""
    if len(ref) != len(impl):
        return "a group has %d elements, expected %d" % (len(impl), len(ref))
    for a, b in zip(ref, impl):
        if a[0] == "g":
            if b[0] != "g":
                return "expected a nested group, found %r" % (b,)
            d = same_tree(a[1], b[1])
            if d:
                return d
        elif a[0] == "f":
            if b[0] != "fv":
                return "atom %r: expected a float, found %r" % (a[1], b)
            if fhex(a[1]) != b[1]:
                return "atom %r: float value %s, expected %s" % (a[1], b[1], fhex(a[1]))
        else:
            if tuple(a) != tuple(b):
                return "expected atom %r, found %r" % (a, b)
    return None


# ---- the independent oracle -----------------------------------------------------------------------------
def classify_word(word):
    """a maximal run of non-blank, non-bracket characters: one number or one note name, else None"""
    w = word[1:] if word.startswith("-") else word
    if w and all(c in DIG for c in w):
        return ("i", int(word))
    if w.count(".") == 1:
        a, b = w.split(".")
        if a and b and all(c in DIG for c in a) and all(c in DIG for c in b):
            return ("f", word)
    if len(word) == 2 and word[0] in LETTERS and word[1] in DIG:
        return ("s", word)
    if len(word) == 3 and word[0] in LETTERS and word[1] == "#" and word[2] in DIG:
        return ("s", word)
    return None


def ref_parse(s):
    """verdict of the property text on the string s:
       ("reject", site, why) | ("accept", tree) | ("unspec", why)"""
    for ch in s:
        if ch not in TOKEN_CHARS and not ch.isspace():
            return ("reject", "foreign-character", "foreign character %r" % ch)
    depth = 0
    for ch in s:
        if ch == "[":
            depth += 1
        elif ch == "]":
            depth -= 1
            if depth < 0:
                return ("reject", "stray-close", "a ']' without a matching '['")
    if depth > 0:
        return ("reject", "unclosed", "%d '[' never closed" % depth)
    if s == "" or s.isspace():
        return ("unspec", "empty")
    if s[0].isspace() or s[-1].isspace():
        return ("unspec", "outer-whitespace")
    if any(ch.isspace() and ch not in PLAIN_WS for ch in s):
        return ("unspec", "exotic-whitespace")
    pos = [0]
    n = len(s)

    class Odd(Exception):
        pass

    def items(closing):
        out = []
        while True:
            while pos[0] < n and s[pos[0]].isspace():
                pos[0] += 1
            if pos[0] == n:
                assert not closing
                return out
            c = s[pos[0]]
            if c == "]":
                assert closing
                pos[0] += 1
                return out
            if c == "[":
                pos[0] += 1
                out.append(("g", items(True)))
                continue
            j = pos[0]
            while j < n and not s[j].isspace() and s[j] not in "[]":
                j += 1
            a = classify_word(s[pos[0]:j])
            if a is None:
                raise Odd(s[pos[0]:j])
            if a[0] == "i" and j - pos[0] > 4000:
                raise Odd("huge")
            out.append(a)
            pos[0] = j
    try:
        return ("accept", items(False))
    except Odd as e:
        return ("unspec", "odd-word")


def conserve(s, tree):
    """every accepted string must consist of exactly the tokens of the returned tree, in order, with the same
       nesting and types, separated by whitespace only.  Returns None or a description."""
    n = len(s)
    pos = [0]

    def skip():
        while pos[0] < n and s[pos[0]].isspace():
            pos[0] += 1

    def digits(j):
        k = j
        while k < n and s[k] in DIG:
            k += 1
        return k

    def eat(nodes):
        for nd in nodes:
            skip()
            i = pos[0]
            if nd[0] == "g":
                if i >= n or s[i] != "[":
                    return "result has a nested group where the string has %r at offset %d" % (s[i:i + 6], i)
                pos[0] += 1
                d = eat(nd[1])
                if d:
                    return d
                skip()
                i = pos[0]
                if i >= n or s[i] != "]":
                    return "nested group of the result ends where the string has %r at offset %d" % (s[i:i + 6], i)
                pos[0] += 1
            elif nd[0] == "s":
                if classify_word(nd[1]) is None or classify_word(nd[1])[0] != "s":
                    return "str atom %r is not a note name" % (nd[1],)
                if not s.startswith(nd[1], i):
                    return "str atom %r not at offset %d (%r)" % (nd[1], i, s[i:i + 6])
                pos[0] += len(nd[1])
            elif nd[0] == "i":
                j = i + 1 if s.startswith("-", i) else i
                k = digits(j)
                if k == j or k - j > 4000:
                    return "int atom %r where the string has %r at offset %d" % (nd[1], s[i:i + 6], i)
                if int(s[i:k]) != nd[1]:
                    return "int atom %r but the token at offset %d is %r" % (nd[1], i, s[i:k])
                pos[0] = k
            elif nd[0] == "fv":
                j = i + 1 if s.startswith("-", i) else i
                k = digits(j)
                if k == j or not s.startswith(".", k) or digits(k + 1) == k + 1:
                    return "float atom %s where the string has %r at offset %d" % (nd[1], s[i:i + 8], i)
                k2 = digits(k + 1)
                if fhex(s[i:k2]) != nd[1]:
                    return "float atom %s but the token at offset %d is %r" % (nd[1], i, s[i:k2])
                pos[0] = k2
            else:
                return "atom of unexpected type %r" % (nd,)
        return None
    d = eat(tree)
    if d:
        return d
    skip()
    if pos[0] != n:
        return "the result ends but the string continues with %r at offset %d" % (s[pos[0]:pos[0] + 6], pos[0])
    return None


def den(node, k):
    """k-th value (k = 0, 1, ...) a (nested) group yields: its (k mod n)-th element, and if that is itself a
       group, the element that group yields on its (k div n)-th visit — one element per cycle of the parent."""
    if node[0] != "g":
        return node
    n = len(node[1])
    return den(node[1][k % n], k // n)


def impl_val(v):
    return {"i": ("i", v[1]), "f": ("fv", v[1]), "s": ("s", v[1])}.get(v[0], ("?", v[1]))


# ---- judging a batch of strings --------------------------------------------------------------------------
def snippet(s):
    return ("import isobar as iso\nfrom isobar.notation import parse_notation\ns = %r\n"
            "try:\n    p = parse_notation(s); print('accepted:', p, p.nextn(12))\n"
            "except Exception as e:\n    print('raised', type(e).__name__, e)\nprint(iso.Pattern.pattern(s))\n" % s)


def judge(run, cases, exhaustive=False):
    """cases: list of dicts {"s": str, "stratum": str, "expect": tree or None}.  Returns number of violations recorded."""
    seen = {}
    for c in cases:
        seen.setdefault(c["s"], c)
    cases = list(seen.values())
    if not cases:
        return 0
    nshard = 12
    shards = [cases[i::nshard] for i in range(nshard) if cases[i::nshard]]
    nonascii = sorted({ord(ch) for c in cases for ch in c["s"] if ord(ch) >= 128})
    payloads = [{"cases": [c["s"] for c in sh]} for sh in shards]
    payloads[0]["chars"] = nonascii
    outs = run.impl_parallel("c20_impl", payloads)
    uword = outs[0].get("uword", [])
    for sh, out in zip(shards, outs):
        for c, r in zip(sh, out["cases"]):
            c["r"] = r
    header = HEADER_TMPL.replace("UWORD", zlist(uword))
    terms, meta = [], []
    nviol = 0

    def viol(c, kind, site, detail, expected=None):
        nonlocal nviol
        nviol += 1
        c.setdefault("bad", []).append(kind)
        s = c["s"]
        run.violation({"kind": kind, "site": site}, {
            "case": {"string": s, "codes": [ord(ch) for ch in s], "stratum": c["stratum"]},
            "expected": expected, "observed": {"parse_notation": c["r"]["parse"], "Pattern.pattern": c["r"]["pattern"]},
            "detail": detail, "oracle": "reference parser / token conservation / cycle rule written from the property text",
            "python": snippet(s)})

    for c in cases:
        s, r = c["s"], c["r"]
        run.count(1)
        run.dist("stratum." + c["stratum"])
        pr = r["parse"]
        verdict = ref_parse(s)
        run.cov["oracle_evaluations"] += 1
        run.dist("oracle." + verdict[0] + ("." + verdict[1] if verdict[0] != "accept" else ""))
        if c.get("expect") is not None:
            if verdict[0] != "accept" or verdict[1] != c["expect"]:
                raise CheckError("generator and reference parser disagree on %r: %r vs %r" % (s, c["expect"], verdict))
        ok = "ok" in pr
        itree = from_impl_tree(pr["ok"]) if ok else None
        # --- exception class
        if not ok and pr.get("raise") != "ValueError":
            viol(c, "wrong-exception", "parse_notation", "parse_notation raised %r (only ValueError is caught by Pattern.pattern)" % (pr,),
                 expected="ValueError or a PSequence")
        elif ok and has_unknown(itree):
            viol(c, "wrong-type", "parse_notation", "the result holds an atom that is not int, float or str")
        else:
            # --- accept / reject where the property fixes it
            if verdict[0] == "reject" and ok:
                viol(c, "accepts-malformed", verdict[1], "accepted although the string has %s" % verdict[2], expected="ValueError")
            elif verdict[0] == "accept" and not ok:
                viol(c, "rejects-wellformed", "parse_notation", "well-formed string rejected", expected=verdict[1])
            elif verdict[0] == "accept" and ok:
                d = same_tree(verdict[1], itree)
                if d:
                    viol(c, "wrong-structure", "parse_notation", d, expected=verdict[1])
            # --- token conservation of every accepted string
            if ok and "bad" not in c:
                d = conserve(s, itree)
                run.cov["oracle_evaluations"] += 1
                if d:
                    viol(c, "token-conservation", "parse_notation", d)
            # --- one element per cycle of the parent
            if ok and "bad" not in c and not has_empty_group(itree) and itree:
                want = [den(("g", itree), k) for k in range(pr["k"])]
                got = [impl_val(v) for v in pr["out"]]
                run.cov["oracle_evaluations"] += 1
                if want != got:
                    viol(c, "cycle", "PSequence.__next__", "nextn(%d) = %r, one element per cycle gives %r" % (pr["k"], got, want), expected=want)
        # --- fallback for event-dictionary values
        pat, pd, ps = r["pattern"], r["pdict"], r["pseq"]
        if ok:
            if pat.get("seq") != pr["ok"] or pat.get("out") != pr["out"]:
                viol(c, "fallback", "Pattern.pattern", "the string parses but Pattern.pattern gave %r" % (pat,), expected="the parsed PSequence")
            elif pd.get("out") != pr["out"]:
                viol(c, "fallback", "PDict", "the string parses but PDict yields %r" % (pd,), expected=pr["out"])
            elif ps.get("out") != pr["out"]:
                viol(c, "fallback", "PSequence(str)", "the string parses but PSequence(str) yields %r" % (ps,), expected=pr["out"])
        elif pr.get("raise") == "ValueError":
            if pat.get("const") != ["s", s] or pat.get("out") != [["s", s]] * 3:
                viol(c, "fallback", "Pattern.pattern", "the string is rejected but Pattern.pattern gave %r instead of a constant" % (pat,),
                     expected="PConstant(%r)" % s)
            elif pd.get("out") != [["s", s]] * 3 or pd.get("y") != [["i", 7]] * 3:
                viol(c, "fallback", "PDict", "the string is rejected but PDict yields %r" % (pd,), expected="the string itself, 3 times")
        # --- correspondence terms
        if ok and not has_unknown(itree):
            outs_e = [impl_val(v) for v in pr["out"]]
            if any(v[0] == "?" for v in outs_e):
                e = "EOther"
            else:
                e = "(EOk %s %s %s)" % (etree(itree), natlit(pr["k"]), etree(outs_e))
        elif pr.get("raise") == "ValueError":
            e = "ERej"
        else:
            e = "EOther"
        terms.append("chk %s %s" % (codes(s), e))
        meta.append((c, "parse_notation"))
        if "seq" in pat and not has_unknown(from_impl_tree(pat["seq"])):
            e = "(EPSeq %s)" % etree(from_impl_tree(pat["seq"]))
        elif "const" in pat and pat["const"][0] == "s":
            e = "(EPConst %s)" % codes(pat["const"][1])
        else:
            e = "EPOther"
        terms.append("chkpat %s %s" % (codes(s), e))
        meta.append((c, "Pattern.pattern"))
        if ok and count_leaves(itree) >= 2:
            run.nontrivial(s)
        elif not ok and len(s) >= 3:
            run.nontrivial(s)
        if ok and (tree_depth(itree) >= 2 or any(n[0] == "fv" for n in itree)):
            run.sample({"string": s, "tree": pr["ok"], "nextn": pr["out"][:8]}, limit=3)
        elif not ok and c["stratum"].startswith("mut."):
            run.sample({"string": s, "result": pr}, limit=5)
    # --- model vs implementation inside Coq
    failing = run.coq_failing(header, terms, chunk=500)
    run.cov["traces_validated_against_impl"] += len(terms) - len(failing)
    for i in failing:
        c, fn = meta[i]
        if "bad" in c:
            continue        # already reported with the oracle's explanation
        nviol += 1
        s = c["s"]
        model = run.coq_eval(header, "(parse uw %s, patternify uw %s)" % (codes(s), codes(s)))
        run.violation({"kind": "correspondence", "site": fn}, {
            "broken": "correspondence model/implementation on %s: the theorems of Props/C20.v no longer speak about this code "
                      "(the property text itself gives no verdict on this string: %r)" % (fn, ref_parse(s)),
            "case": {"string": s, "codes": [ord(ch) for ch in s], "stratum": c["stratum"]},
            "observed": {"parse_notation": c["r"]["parse"], "Pattern.pattern": c["r"]["pattern"]},
            "model": model[:3000], "coq_term": terms[i][:3000], "python": snippet(s)}, found_input=False)
    # --- float atoms: model text -> float() == implementation value
    fcases = []
    for c in cases:
        pr = c["r"]["parse"]
        if "ok" in pr and "bad" not in c:
            it = from_impl_tree(pr["ok"])
            fl = flat_floats(it) + [v[1] for v in pr["out"] if v[0] == "f"]
            if fl:
                fcases.append((c, fl, pr["k"]))
    CH = 300
    jobs = [(i, fcases[i:i + CH]) for i in range(0, len(fcases), CH)]

    def one(job):
        i0, part = job
        src = header + "Eval vm_compute in [\n" + ";\n".join("case_floats %s %s" % (codes(c["s"]), natlit(k)) for c, _, k in part) + "\n].\n"
        out = " ".join(run.coqc_text("floats%d" % i0, src).split())
        m = re.match(r"^= (\[.*\]) : list \(list str\)$", out)
        if not m:
            raise CheckError("cannot parse float texts printed by Coq: " + out[:400])
        return json.loads(m.group(1).replace(";", ","))
    with ThreadPoolExecutor(max_workers=12) as ex:
        results = list(ex.map(one, jobs))
    for (i0, part), res in zip(jobs, results):
        for (c, fl, k), texts in zip(part, res):
            got = [fhex("".join(chr(x) for x in t)) if t else None for t in texts]
            run.count(len(fl))
            if got != fl:
                nviol += 1
                s = c["s"]
                run.violation({"kind": "float-value", "site": "parse_notation"}, {
                    "case": {"string": s, "codes": [ord(ch) for ch in s], "stratum": c["stratum"]},
                    "detail": "float atoms differ from float() of the decimal tokens",
                    "expected": ["".join(chr(x) for x in t) for t in texts], "observed": fl, "python": snippet(s)})
            else:
                run.cov["traces_validated_against_impl"] += 1
    return nviol


def flat_floats(nodes):
    out = []
    for n in nodes:
        if n[0] == "g":
            out += flat_floats(n[1])
        elif n[0] == "fv":
            out.append(n[1])
    return out


# ---- generators ------------------------------------------------------------------------------------------
def gen_atom(rng, kind=None):
    kind = kind or rng.choice(["int", "int", "neg", "dec", "dec", "note", "note"])
    if kind == "int":
        r = rng.random()
        if r < 0.7:
            return ("i", rng.randint(0, 127)), None
        if r < 0.85:
            return ("i", rng.randint(128, 10 ** rng.randint(3, 25))), None
        n = rng.randint(0, 99)
        return ("i", n), "0" * rng.randint(1, 3) + str(n)           # leading zeros
    if kind == "neg":
        r = rng.random()
        if r < 0.85:
            return ("i", -rng.randint(1, 127)), None
        if r < 0.93:
            return ("i", 0), "-0"
        return ("i", -rng.randint(128, 10 ** 12)), None
    if kind == "dec":
        fixed = ["0.5", "12.25", "0.1", "30.1", "-30.2", "1.50", "00.5", "-0.0", "0.0", "3.14159265358979323846",
                 "-3.125", "127.0", "0.333", "1.0000000000000001", "9007199254740993.0", "0.30000000000000004", "5.5"]
        if rng.random() < 0.5:
            return ("f", rng.choice(fixed)), None
        t = "%s%d.%s" % (rng.choice(["", "", "-"]), rng.randint(0, 999), "".join(rng.choice(DIG) for _ in range(rng.randint(1, 6))))
        return ("f", t), None
    t = rng.choice(LETTERS) + rng.choice(["", "#"]) + rng.choice(DIG)
    return ("s", t), None


def gen_tree(rng, depth, width_max=6):
    """a top-level list (width 1..6) whose deepest group nesting is exactly `depth`; nested groups have width 0..6"""
    texts = {}

    def atom():
        a, txt = gen_atom(rng)
        node = [a[0], a[1], txt]
        return node

    def group(d, top):
        w = rng.randint(1 if (top or d > 0) else 0, width_max)
        if not top and d == 0 and rng.random() < 0.12:
            w = 0
        items = []
        deep = rng.randrange(w) if d > 0 else -1
        for i in range(w):
            if i == deep:
                items.append(["g", group(d - 1, False), None])
            elif d > 0 and rng.random() < 0.22:
                items.append(["g", group(rng.randint(0, d - 1), False), None])
            else:
                items.append(atom())
        return items
    return group(depth, True)


def strip_txt(nodes):
    return [("g", strip_txt(n[1])) if n[0] == "g" else (n[0], n[1]) for n in nodes]


def atom_text(n):
    if n[2] is not None:
        return n[2]
    return str(n[1]) if n[0] == "i" else n[1]


def token_list(nodes):
    out = []
    for n in nodes:
        if n[0] == "g":
            out.append("[")
            out += token_list(n[1])
            out.append("]")
        else:
            out.append(atom_text(n))
    return out


def fmt(rng, toks, style):
    """style: 'plain' 1..3 blanks between all tokens; 'tight' no blank next to brackets where possible;
       'mixed' 0..3 of blank/tab/newline (0 only next to a bracket); 'exotic' any Unicode whitespace"""
    parts = []
    for i, t in enumerate(toks):
        parts.append(t)
        if i + 1 == len(toks):
            break
        nxt = toks[i + 1]
        bracket = t in "[]" or nxt in "[]"
        if style == "plain":
            sep = " " * rng.randint(1, 3)
        elif style == "doc":
            sep = "" if (t == "[" or nxt == "]") else " "
        elif style == "tight":
            sep = "" if bracket else " "
        elif style == "mixed":
            lo = 0 if bracket else 1
            sep = "".join(rng.choice(PLAIN_WS) for _ in range(rng.randint(lo, 3)))
        else:
            lo = 0 if bracket else 1
            sep = "".join(rng.choice(list(PLAIN_WS) + EXOTIC_WS) for _ in range(rng.randint(lo, 3)))
        parts.append(sep)
    return "".join(parts)


def mutate(rng, s):
    """one mutation of a well-formed string; returns (kind, string)"""
    br = [i for i, ch in enumerate(s) if ch in "[]"]
    kind = rng.choice(["del-bracket", "ins-open", "ins-close", "flip-bracket", "transpose", "foreign", "foreign",
                       "lead-space", "trail-space", "glue", "bad-word", "dup-bracket", "swap-pair"])
    if kind in ("del-bracket", "flip-bracket", "dup-bracket", "swap-pair") and not br:
        kind = rng.choice(["ins-open", "ins-close"])
    if kind == "del-bracket":
        i = rng.choice(br)
        return kind, s[:i] + s[i + 1:]
    if kind == "ins-open" or kind == "ins-close":
        # at a token boundary or anywhere
        i = rng.randint(0, len(s))
        return kind, s[:i] + ("[" if kind == "ins-open" else "]") + s[i:]
    if kind == "flip-bracket":
        i = rng.choice(br)
        return kind, s[:i] + ("]" if s[i] == "[" else "[") + s[i + 1:]
    if kind == "dup-bracket":
        i = rng.choice(br)
        return kind, s[:i] + s[i] + s[i:]
    if kind == "swap-pair":
        if len(br) < 2:
            return "del-bracket", s[:br[0]] + s[br[0] + 1:]
        i, j = sorted(rng.sample(br, 2))
        l = list(s)
        l[i], l[j] = l[j], l[i]
        return kind, "".join(l)
    if kind == "transpose":
        if len(s) < 2:
            return "ins-close", s + "]"
        i = rng.choice(br) if br and rng.random() < 0.7 else rng.randrange(len(s))
        j = i + 1 if i + 1 < len(s) else i - 1
        l = list(s)
        l[i], l[j] = l[j], l[i]
        return kind, "".join(l)
    if kind == "foreign":
        i = rng.randint(0, len(s))
        ch = rng.choice(FOREIGN)
        if rng.random() < 0.5:
            return kind, s[:i] + ch + s[i:]
        pad = rng.choice([" ", ""])
        return kind, s[:i] + pad + ch + pad + s[i:]
    if kind == "lead-space":
        return kind, rng.choice([" ", "  ", "\t", "\n"]) + s
    if kind == "trail-space":
        return kind, s + rng.choice([" ", "   ", "\t", "\n", " \n"])
    if kind == "glue":
        ws = [i for i, ch in enumerate(s) if ch.isspace()]
        if not ws:
            return kind, s + s
        i = rng.choice(ws)
        j = i
        while j < len(s) and s[j].isspace():
            j += 1
        while i > 0 and s[i - 1].isspace():
            i -= 1
        return kind, s[:i] + s[j:]
    # bad-word: put a malformed word somewhere
    bad = rng.choice(BAD_WORDS)
    i = rng.randint(0, len(s))
    return "bad-word", s[:i] + rng.choice([" ", ""]) + bad + rng.choice([" ", ""]) + s[i:]


BAD_WORDS = ["1.", "-", "c4d4", ".5", "1..2", "--1", "c#", "#4", "c##4", "cb4", "h4", "C4", "1e5", "1_0", "c10", "c#10", "1.5.5",
             "1-", "-c4", "c-4", "c4.5", "4c", "1.5c4", "+1", "0x10", "1,2", "#", ".", "e5", "e#5", "b#0", "1.e5", "a", "g", "12a", "a1b2"]
EDGE = ["", " ", "  ", "[]", "[ ]", "[[]]", "[] 1", "1 []", "[1]", "1", "-1", "0", "-0", "0.0", "-0.0", "c4", "c#4", "g#9", "a0",
        "1 ] 2", "] [ 1", "1 2]", "]", "[", "1 [", "] 1", "[ 1 ] ]", "[ ] ] [ 1", "] [ [ 1 ]", "[1 2", "[[1 2]", "[1 2]]", "][", "[][]", "[]]  [[]",
        "1-2", "1 -2", "1- 2", "1[2]3", "c4-1", "c4[c4]c4", "1.5-2.5", "1.5.5", "12.3a", "1.5x", "1.23a", "123", "00012", "007.50",
        "1\t2", "1\n2", "1\r\n2", "1\x0b2", "1\x0c2", "1\x1c2", "1\x1f2", "1\x852", "1\xa02", "1\u30002", "1\x002", "1\x1b2", "1\u200b2",
        "1\u00e9", "\u0661", "1 \u0661", "\uff11", "1\uff11", "c4\u00e9", "1 2 [10 11] [20 [30 31 32]]", "1 -2 [10 11] [c#4 [30.1 -30.2 30.3]]",
        "1 2 [10 11] [c#4 [30.1 30.2 30.3]]", "[[[[[1]]]]]", "[[[[[[1]]]]]]", "1 [2 [3 [4 [5 [6]]]]]", "C", "C4", "major", "kick", "note", "60",
        "c4 e4 g4", "c#4 [e4 g4] 0.5", "1.", "-", "c4d4", "9" * 30, "-" + "9" * 30, "0." + "3" * 40, "1" * 400 + ".5"] + BAD_WORDS


def check(run):
    rng = run.rng
    quick = run.tier == "quick"
    # 0. the CPython behaviour the lexer model takes as data: str.lstrip's whitespace set and \w on ASCII
    env = run.impl("c20_impl", {"cases": [], "env": True})["env"]
    header = HEADER_TMPL.replace("UWORD", "[]")
    eterms = [
        "list_eqb Z.eqb (flat_map (fun r => zrange (fst r) (Z.to_nat (snd r - fst r + 1))) space_table) %s" % zlist(env["lstrip"]),
        "list_eqb Z.eqb (filter ascii_word (zrange 0 128)) %s" % zlist(env["ascii_word"]),
        "list_eqb Z.eqb (filter is_digit (zrange 0 1000)) %s" % zlist([c for c in env["digits"] if c < 1000]),
        blit(env["digits"] == list(range(48, 58))),
    ]
    for i in run.coq_failing(header, eterms):
        run.violation({"kind": "environment", "site": ["lstrip", "ascii_word", "digits", "digits"][i]}, {
            "broken": "the lexer model's character tables (Notation/Lexer.v) differ from this interpreter",
            "observed": env if i != 0 else env["lstrip"]}, found_input=False)
    run.count(len(eterms))
    # 1. edge strings
    cases = [{"s": s, "stratum": "edge", "expect": None} for s in EDGE]
    # 2. random nested sequences, depth 0..5, width 0..6, all formatting styles
    n_trees = 700 if quick else 14000
    wf = []
    for i in range(n_trees):
        depth = i % 6
        t = gen_tree(rng, depth)
        toks = token_list(t)
        style = ["plain", "doc", "tight", "mixed", "exotic"][(i // 6) % 5]
        s = fmt(rng, toks, style)
        st = strip_txt(t)
        run.dist("tree.depth.%d" % tree_depth(st))
        run.dist("tree.width.%d" % tree_width(st))
        run.dist("format.%s" % style)
        if len(s) > 1500:
            run.discard("string longer than 1500 characters")
            continue
        cases.append({"s": s, "stratum": "wellformed." + style, "expect": st if style != "exotic" else None})
        wf.append(s)
        if rng.random() < 0.15:
            cases.append({"s": s + rng.choice([" ", "\n", "  "]), "stratum": "wellformed.trailing", "expect": None})
    # 3. mutation stream
    n_mut = 1800 if quick else 40000
    for i in range(n_mut):
        base = wf[i % len(wf)] if rng.random() < 0.8 else fmt(rng, token_list(gen_tree(rng, rng.randint(0, 2), 3)), "plain")
        kind, s = mutate(rng, base)
        if rng.random() < 0.1:
            kind2, s = mutate(rng, s)
            kind = kind + "+" + kind2
        cases.append({"s": s[:1600], "stratum": "mut." + kind.split("+")[0], "expect": None})
    # every single-bracket deletion / insertion position of a few documented strings
    for base in ["1 2 [10 11] [20 [30 31 32]]", "[c#4 [0.5 -1]] 3", "[[1] [2]]"]:
        for i in range(len(base) + 1):
            for b in "[]":
                cases.append({"s": base[:i] + b + base[i:], "stratum": "mut.ins-every", "expect": None})
            if i < len(base) and base[i] in "[]":
                cases.append({"s": base[:i] + base[i + 1:], "stratum": "mut.del-every", "expect": None})
                cases.append({"s": base[:i] + ("]" if base[i] == "[" else "[") + base[i + 1:], "stratum": "mut.flip-every", "expect": None})
    nv = judge(run, cases)
    # 4. ALL strings up to length L over a small alphabet that reaches every branch of the tokenizer
    alpha = "1-.c#[] "
    L = 4 if quick else 5
    small = [""]
    frontier = [""]
    for _ in range(L):
        frontier = [p + a for p in frontier for a in alpha]
        small += frontier
    nv += judge(run, [{"s": s, "stratum": "exhaustive-small", "expect": None} for s in small])
    # 5. the parsed pattern through the whole pattern protocol: reset / all / len / copy mid-cycle, Timeline.reset / Track.reset
    import c20_proto
    nv += c20_proto.check_protocol(run)
    run.cov["exhaustive"] = True
    run.cov["exhaustive_domain"] = "all %d strings of length <= %d over the alphabet %r (complete); the other strata are sampled" % (len(small), L, alpha)
    run.cov["rule"] = ("one case = one input string run through parse_notation, Pattern.pattern, PDict and PSequence(str); distinct by string; "
                       "non-trivial = accepted with >= 2 atoms, or rejected with >= 3 characters. Strata: well-formed nested sequences "
                       "(depth 0..5, width 0..6, five whitespace styles), mutations (delete/insert/flip/duplicate/swap/transposed brackets, "
                       "foreign characters, glued tokens, malformed words, outer whitespace), edge strings, exhaustive short strings.")


def replay(run, doc):
    case = doc.get("case") or {}
    if case.get("protocol"):
        import c20_proto
        return c20_proto.replay_case(run, case)
    if "codes" not in case:
        print("replay: no concrete string in this replay file; re-running the whole check")
        if run.build():
            check(run)
        return run.finish()
    s = "".join(chr(c) for c in case["codes"])
    nv = judge(run, [{"s": s, "stratum": case.get("stratum", "replay"), "expect": None}])
    print("replayed %r: %s" % (s, "FAILS" if nv else "passes"))
    return 1 if nv else 0

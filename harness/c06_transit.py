"""C06, stratum T: operations that reach a track while it is in a TRANSITIONAL state, issued from another track's action
callback inside a tick: a named re-schedule (replace on / off), schedule under another name, update, unschedule, mute,
unmute aimed at a track on the tick before / on / after the tick on which its stream is exhausted, its count is reached, its
last note is released (it finishes and leaves), or while it is finished but kept (remove_when_done = False); the caller is
placed before or after the target in Timeline.tracks; optionally a bystander and a max_tracks limit.

Model: Sched/Model.v as it stands (the callback's operation runs between two turns of phase_tracks); theorems C06_no_zombie,
C06_no_zombie_between_turns, C06_finished_turn_leaves, C06_same_tick_reschedule (Sched/TransitProofs.v).
Oracle (plain Python, exact Fractions, closed forms - no tick loop over the implementation's logic): every track performs
min(count, length) events of its current stream at start + ceil(N_k / tick); a track leaves on the first tick on which its
stream is exhausted and none of its notes sounds; the callback runs on the tick its event is due; what it does reaches the
target before the target's turn of that tick if the target is placed after the caller, after it otherwise; schedule(name,
replace) updates the track of that name IF ONE IS LISTED at that moment (same id, count restarted, unmuted) and creates a new
track otherwise (refused at max_tracks); a new track plays from the next tick on."""
from common import *
import sched_common as S
import sched_gen as G
from fractions import Fraction as F
from math import ceil

GATES_SHORT = [(1, 2), (1, 1), (1, 1)]
GATES_LONG = [(3, 2), (2, 1), (4, 1)]


def note_stream(rng, tick, base, chan, n, long_last):
    items, desc = [], []
    for i in range(n):
        d = tick * rng.choice([1, 2, 2, 3, 4])
        g = rng.choice(GATES_LONG if (long_last and i == n - 1) else GATES_SHORT)
        items.append({"k": "note", "dur": d, "note": base + i, "amp": 64, "gate": list(g), "chan": chan})
        desc.append((d, base + i, d * F(g[0], g[1])))
    form = "scripted" if n == 0 else rng.choice(["scripted", "psequence", "pdict"])
    return G.stream(items, False, form), desc


def gen_case(rng):
    tpb = rng.choice([1, 2, 4, 8])
    tick = F(1, tpb)
    cfg = {"stop_when_done": rng.random() < 0.3, "max_tracks": 0}
    base = [20]

    def stream(chan, n=None, long_last=None):
        n = rng.randint(1, 3) if n is None else n
        long_last = (rng.random() < 0.4) if long_last is None else long_last
        s, desc = note_stream(rng, tick, base[0], chan, n, long_last); base[0] += 6
        return s, desc
    # the target
    sA, dA = stream(0)
    countA = rng.choice([None, None, 0, 1, 2])
    A = {"role": "target", "stream": sA, "desc": dA, "count": countA, "rwd": rng.random() < 0.75, "name": rng.choice([0, 0, 1])}
    lim = len(dA) if countA in (None, 0) else min(countA, len(dA))
    E = int(sum(d for d, _, _ in dA[:lim]) / tick)                                  # tick on which StopIteration is met
    offs = []
    N = F(0)
    for d, _, gl in dA[:lim]:
        offs.append(int(N / tick) + max(1, int(ceil(gl / tick)))); N += d
    Fin = max([E] + offs)                                                          # first tick from then on with nothing sounding
    T = max(0, rng.choice([E - 1, E, E, E, E + 1, Fin - 1, Fin, Fin, Fin, Fin + 1, Fin + 2, rng.randint(0, Fin + 2)]))
    kind = rng.choice(["reschedule", "reschedule", "reschedule", "reschedule", "reschedule-noreplace", "schedule-other",
                       "update", "unschedule", "mute", "unmute"])
    sN, dN = stream(1, n=rng.randint(1, 3), long_last=False)
    new = {"stream": sN, "desc": dN, "count": rng.choice([None, None, 1, 2]), "rwd": rng.random() < 0.8}
    # the caller: a rest of T ticks, then the action; a second action (same callback) now and then
    items = []
    if T > 0:
        items.append({"k": "note", "dur": tick * T, "note": None, "amp": 64, "gate": [1, 1], "chan": 2})
    X = rng.choice([1, 2, 4])
    items.append({"k": "action", "cb": 0, "dur": tick * X})
    B = {"role": "caller", "stream": G.stream(items, False, "scripted"), "desc": ([(tick * T, None, F(0))] if T > 0 else []) + [(tick * X, None, F(0))],
         "count": None, "rwd": True, "name": None}
    tracks = [A, B] if rng.random() < 0.6 else [B, A]
    if rng.random() < 0.5:
        sC, dC = stream(3, n=rng.randint(2, 3))
        C = {"role": "bystander", "stream": sC, "desc": dC, "count": None, "rwd": rng.random() < 0.7, "name": rng.choice([None, 2])}
        tracks.insert(rng.randrange(len(tracks) + 1), C)
    if rng.random() < 0.35:
        cfg["max_tracks"] = len(tracks) + rng.choice([0, 0, 1])        # the schedule calls before the first tick all fit; the callback's may not
    premute = kind == "unmute" or rng.random() < 0.15           # the target is muted from the start (a named re-schedule must unmute it)
    horizon = max(T + X, Fin) + int(sum(d for d, _, _ in dN) / tick) + max([int(ceil(g / tick)) for _, _, g in dA + dN] + [1]) + 4
    return {"tpb": tpb, "config": cfg, "tracks": tracks, "T": T, "kind": kind, "new": new, "premute": premute, "horizon": min(horizon, 400),
            "E": E, "Fin": Fin}


def scenario(c):
    idA = [i for i, t in enumerate(c["tracks"]) if t["role"] == "target"][0]
    nameA = c["tracks"][idA]["name"]
    n = c["new"]
    k = c["kind"]
    if k == "reschedule":
        op = G.sched_op(n["stream"], None, None, n["count"], n["rwd"], nameA, True)
    elif k == "reschedule-noreplace":
        op = G.sched_op(n["stream"], None, None, n["count"], n["rwd"], nameA, False)
    elif k == "schedule-other":
        op = G.sched_op(n["stream"], None, None, n["count"], n["rwd"], 1 - nameA if nameA in (0, 1) else 0, True)
    elif k == "update":
        op = ["update", idA, n["stream"], None, None, n["count"]]
    else:
        op = [k, idA]
    ops = [G.sched_op(t["stream"], None, None, t["count"], t["rwd"], t["name"], True) for t in c["tracks"]]
    if c["premute"]:
        ops.append(["mute", idA])
    ops.append(["tick", c["horizon"]])
    return {"tpb": c["tpb"], "config": dict(c["config"]), "callbacks": [{"raise": "none", "ops": [op]}], "ops": ops,
            "meta": {"family": "transit", "kind": k, "T": c["T"], "E": c["E"], "Fin": c["Fin"],
                     "target_before_caller": idA < [i for i, t in enumerate(c["tracks"]) if t["role"] == "caller"][0]}}


# ---- oracle --------------------------------------------------------------------------------------------------------
class OT:
    def __init__(self, tid, desc, count, rwd, name, c, listed_from):
        self.id, self.rwd, self.name, self.max = tid, rwd, name, count
        self.mute_log = []          # (from tick, muted?)
        self.offs = []
        self.done = False
        self.listed_from = listed_from       # listed after every tick t >= listed_from (-1: before the first tick)
        self.gone_after = None               # not listed after any tick t >= gone_after
        self.start(desc, c, 0)

    def start(self, desc, c, counted):
        self.desc, self.j0, self.counted, self.k, self.N = desc, c, counted, 0, F(0)

    def limit(self):
        cap = None if self.max in (None, 0) else max(0, self.max - self.counted)
        return len(self.desc) if cap is None else min(cap, len(self.desc))

    def muted_at(self, onset):
        state = False
        for c, m in self.mute_log:
            if c <= onset:
                state = m
        return state


def expectation(c):
    tick = F(1, c["tpb"])
    total = c["horizon"]
    mt = c["config"]["max_tracks"]
    calls, notes = {}, []
    listed = []          # in list order
    everyone = []

    def advance(tr, upto):
        """perform the events of tr due before tick [upto]; it leaves on the first tick with its stream exhausted and nothing sounding"""
        if tr.done or tr.gone_after is not None:
            return
        lim = tr.limit()
        while tr.k < lim:
            onset = tr.j0 + int(ceil(tr.N / tick))
            if onset >= upto:
                return
            dur, note, glen = tr.desc[tr.k]
            if note is not None and not tr.muted_at(onset):
                off = onset + max(1, int(ceil(glen / tick)))
                calls.setdefault(onset, []).append(("on", note)); calls.setdefault(off, []).append(("off", note))
                tr.offs.append(off); notes.append((onset, off))
            tr.N += dur; tr.k += 1
        stop = tr.j0 + int(ceil(tr.N / tick))
        fin = max([stop] + tr.offs)
        if fin >= upto:
            return
        tr.done = True
        if tr.rwd:
            tr.gone_after = fin
            listed.remove(tr)

    # the schedule calls before the first tick (refused at the limit)
    for t in c["tracks"]:
        if mt and len(listed) >= mt:
            everyone.append(None); continue          # refused: the id is not handed out... (ids are positions among created tracks)
        tr = OT(len([x for x in everyone if x is not None]), t["desc"], t["count"], t["rwd"], t["name"], 0, -1)
        tr.role = t["role"]
        everyone.append(tr); listed.append(tr)
    created = [x for x in everyone if x is not None]
    A = next((x for x in created if x.role == "target"), None)
    B = next((x for x in created if x.role == "caller"), None)
    if A is not None and c["premute"]:
        A.mute_log.append((0, True))
    T = c["T"]
    if B is not None:
        # the callback runs on tick T, in the caller's turn: the tracks placed before the caller have had their turn of tick T
        for tr in list(listed):
            advance(tr, T)
        if B in listed:
            before = [tr for tr in listed if listed.index(tr) < listed.index(B)]
            for tr in before:
                advance(tr, T + 1)
            k = c["kind"]
            n = c["new"]

            def eff(tr):            # from which tick on the operation is felt by tr
                return T + 1 if tr in before or tr not in listed else T
            if k in ("reschedule", "reschedule-noreplace", "schedule-other"):
                name = A.name if (A is not None and k != "schedule-other") else None
                if k == "schedule-other":
                    nameA = next(t["name"] for t in c["tracks"] if t["role"] == "target")
                    name = 1 - nameA if nameA in (0, 1) else 0
                hit = next((tr for tr in listed if tr.name == name), None) if k != "reschedule-noreplace" else None
                if hit is not None:
                    if n["count"] is not None:
                        hit.max = n["count"]
                    hit.start(n["desc"], eff(hit), 0)
                    hit.done = False
                    hit.mute_log.append((eff(hit), False))
                elif not (mt and len(listed) >= mt):
                    tr = OT(len(created), n["desc"], n["count"], n["rwd"], name, T + 1, T)
                    tr.role = "new"
                    created.append(tr); listed.append(tr)
            elif A is not None and A in listed:
                if k == "update":
                    if n["count"] is not None:
                        A.max = n["count"]
                    A.start(n["desc"], eff(A), A.counted + A.k)
                    A.done = False
                elif k == "unschedule":
                    A.gone_after = T; listed.remove(A)
                elif k in ("mute", "unmute"):
                    A.mute_log.append((eff(A), k == "mute"))
            elif A is not None and k in ("mute", "unmute"):
                A.mute_log.append((T + 1, k == "mute"))          # the object is muted although it is no longer scheduled: no effect
    for tr in list(listed):
        advance(tr, total)
    calls = {t: sorted(v) for t, v in calls.items() if t < total}
    ids = []
    for t in range(total):
        ids.append([tr.id for tr in created if tr.listed_from <= t and (tr.gone_after is None or t < tr.gone_after)])
    return calls, ids, notes, [(x.id if x is not None else None) for x in everyone]


def oracle(c, sc, r):
    total = c["horizon"]
    calls, ids, notes, initial = expectation(c)
    reach, m, by_on = [0] * (total + 1), 0, {}
    for on, off in notes:
        by_on[on] = max(by_on.get(on, 0), off)
    for t in range(total + 1):
        m = max(m, by_on.get(t, 0)); reach[t] = m
    idx = S.tick_indices(sc)
    obs = {i: (cc, res, ii) for i, cc, res, ii in r["obs"]}
    seen, stopped = [], False
    ninit = 0
    for i, (kind, t) in enumerate(idx):
        c_obs, res_obs, ids_obs = obs.get(i, ([], "ok", None))
        if ids_obs is not None:
            seen = ids_obs
        if kind == "schedule":
            want = "ok" if initial[ninit] is not None else "limit"; ninit += 1
            if res_obs != want:
                return False, "schedule call %d before the first tick returned %r, expected %r" % (ninit - 1, res_obs, want)
            continue
        if kind != "tick":
            continue
        if stopped:
            if res_obs != "stop" or c_obs:
                return False, "tick %d after StopIteration: result %r calls %r" % (t, res_obs, c_obs)
            continue
        got = sorted((x[0], x[1]) for x in c_obs if x[0] in ("on", "off"))
        if got != calls.get(t, []):
            return False, ("tick %d: device calls %r, expected %r (callback %r on tick %d; target: stream exhausted on tick %d, finished on tick %d, "
                           "placed %s the caller)" % (t, got, calls.get(t, []), c["kind"], c["T"], c["E"], c["Fin"],
                                                       "before" if sc["meta"]["target_before_caller"] else "after"))
        if seen != ids[t]:
            return False, ("tracks after tick %d: %r, expected %r (callback %r on tick %d; target: stream exhausted on tick %d, finished on tick %d, "
                           "placed %s the caller; a named re-schedule updates the track of that name only if one is LISTED at that moment, and the "
                           "track it returns stays in the timeline)" % (t, seen, ids[t], c["kind"], c["T"], c["E"], c["Fin"],
                                                                         "before" if sc["meta"]["target_before_caller"] else "after"))
        pending = reach[t] > t
        should_stop = bool(c["config"]["stop_when_done"]) and not ids[t] and not pending
        if should_stop != (res_obs == "stop"):
            return False, "tick %d: result %r, expected %s" % (t, res_obs, "StopIteration" if should_stop else "a normal return")
        if res_obs == "stop":
            stopped = True
    return True, ""


# ---- the stratum ----------------------------------------------------------------------------------------------------
def transit_part(run, n):
    rng = run.rng
    cases = [gen_case(rng) for _ in range(n)]
    scs = [scenario(c) for c in cases]
    fin = [G.finalize(sc) for sc in scs]
    results = S.run_impl(run, fin, shards=8)
    flagged = set()
    for i, (c, sc, fsc, r) in enumerate(zip(cases, scs, fin, results)):
        run.count()
        run.dist("family.T"); run.dist("T.op." + c["kind"])
        run.dist("T.target-%s-caller" % ("before" if sc["meta"]["target_before_caller"] else "after"))
        rel = "T.callback-tick." + ("=finish" if c["T"] == c["Fin"] else "=stream-end" if c["T"] == c["E"] else
                                    "between" if c["E"] < c["T"] < c["Fin"] else "before" if c["T"] < c["E"] else "after")
        run.dist(rel)
        if c["T"] == c["Fin"] and sc["meta"]["target_before_caller"] and c["kind"] == "reschedule":
            run.dist("T.named-reschedule-in-the-tick-the-target-left")
        tgt = next(t for t in c["tracks"] if t["role"] == "target")
        if not tgt["rwd"]: run.dist("T.target-kept-when-done")
        if tgt["count"]: run.dist("T.target-count")
        if c["Fin"] > c["E"]: run.dist("T.note-outlives-the-stream")
        if c["config"]["max_tracks"]: run.dist("T.max_tracks")
        if "driver_error" in r:
            flagged.add(i)
            run.violation({"kind": "driver-error", "site": "Timeline"}, {"scenario": fsc, "observed": r}, found_input=True)
            continue
        ok, detail = oracle(c, sc, r)
        run.cov["oracle_evaluations"] += 1
        if len(r["obs"]) >= 3:
            run.nontrivial(json.dumps(fsc, sort_keys=True))
        if not ok:
            flagged.add(i)
            run.violation({"kind": "transit", "site": "Timeline/Track"}, {
                "scenario": fsc, "meta": sc["meta"], "observed": detail,
                "oracle": "closed form of every track's life; the callback's operation reaches the target before / after its turn of that tick by position; "
                          "schedule(name, replace) updates a LISTED track of that name, else creates a new one; new tracks play from the next tick",
                "trace_head": r["obs"][:16], "python": S.python_snippet(fsc)})
        if i % 50 == 0:
            run.sample({"meta": sc["meta"], "config": sc["config"], "first_observations": r["obs"][:5]})
    bad = S.model_disagreements(run, fin, results, chunk=40)
    run.cov["traces_validated_against_impl"] += len(fin) - len(bad)
    for i in [x for x in bad if x not in flagged][:2]:
        S.report_disagreement(run, fin[i], results[i], "correspondence", "Timeline/Track", {"meta": scs[i]["meta"]})

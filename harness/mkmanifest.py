#!/venv/bin/python
"""Regenerate MANIFEST.json from the META blocks of harness/cXX.py (run by hand after adding a check)."""
import importlib, json, os, sys
HERE = os.path.dirname(os.path.abspath(__file__))
sys.path.insert(0, HERE)
sys.dont_write_bytecode = True
VERIF = os.path.dirname(HERE)
props = [json.loads(l) for l in open(os.path.join(VERIF, "properties.jsonl"))]
checks, na, engines = [], [], {}
for p in props:
    pid = p["id"]
    try:
        m = importlib.import_module(pid.lower())
        meta = m.META
        if not meta.get("claim", True):
            raise AttributeError
    except (ModuleNotFoundError, AttributeError):
        na.append({"property_id": pid, "reason": "not reached yet: the Coq model and correspondence check for this property are not built; claimed by no other technique"})
        continue
    checks.append({
        "property_id": pid,
        "quick_cmd": "./check %s --tier quick" % pid,
        "thorough_cmd": "./check %s --tier thorough" % pid,
        "evidence_file": "/verif/evidence/%s.json" % pid,
        "replay_cmd_template": "./check %s --replay {path}" % pid,
        "engine": meta["engine"],
        "level_claimed": {"category": "proof", "text": meta["text"], "design_ref": meta.get("design_ref", "DESIGN.md section 4, " + pid)},
        "level_note": meta["note"],
        "technique": meta.get("technique", "machine-checked proof in Coq 8.16 about an executable Gallina model + differential correspondence check model/implementation (vm_compute)"),
    })
    engines.setdefault(meta["engine"], []).append(pid)
man = {
    "version": 1,
    "setup_cmd": "cd /verif && ./setup.sh",
    "hooks": {"guard": "ISOBAR_VERIF", "enable": "checks run /repo with ISOBAR_VERIF=1 in the environment; no source hook is needed so far (all observation points are reachable from outside)",
              "baseline_off_cmd": "cd /repo && /venv/bin/python -m pytest -ra -q -p no:cacheprovider --timeout=900 --continue-on-collection-errors",
              "source_commits": [], "add_only": True},
    "engines": [{"name": k, "path": "/verif/coq + /verif/harness", "serves_properties": v,
                 "kind_free_text": "Coq model + theorems + correspondence harness"} for k, v in sorted(engines.items())],
    "checks": checks,
    "not_applicable": na,
    "notes": "All checks: ./check <ID> --tier quick|thorough. Coq development in /verif/coq (theorems per property in coq/Props/<ID>.v). known findings: /verif/known_findings.json",
}
json.dump(man, open(os.path.join(VERIF, "MANIFEST.json"), "w"), indent=1)
print("checks:", [c["property_id"] for c in checks], "n/a:", len(na))

#!/venv/bin/python
"""developer tool: print the markdown table of seeded changes (seeded/*/meta.json) for DESIGN.md"""
import json, os, re
root = os.path.join(os.path.dirname(os.path.dirname(os.path.abspath(__file__))), "seeded")
print("""# Seeded changes

Each directory holds a change to ideoforms/isobar (patch.diff) written by a fresh engineer who saw only the text of one property and a scratch worktree of /repo (nothing from /verif), a demonstration (demo.py: exits 0 on the unchanged tree, 1 with the change), the engineer's notes, and meta.json with what was run (harness/seeded_run.py: demo on the clean tree, patch applied, repository test-suite, demo again, ./check <property> --tier quick, repository restored). a,b = first request; c,d = second request, told which two mechanisms were already collected; e,f = third and g,h = fourth request, told one line about each change already collected. No change is ever committed to /repo.  Regenerate with `harness/seeded_table.py > seeded/README.md`.
""")
print("| id | property | change (file: first changed line) | needs, to manifest | tests with change | check | how it was reported |")
print("|---|---|---|---|---|---|---|")
for name in sorted(os.listdir(root)):
    mp = os.path.join(root, name, "meta.json")
    if not os.path.exists(mp):
        continue
    m = json.load(open(mp))
    patch = open(os.path.join(root, name, "patch.diff")).read()
    files = re.findall(r"^\+\+\+ b/(\S+)", patch, re.M)
    ran = m.get("ran", {})
    kinds = []
    for v in ran.get("violation_kinds", []):
        if isinstance(v, str):
            v = {"signature": {"kind": v}}
        k = (v.get("signature") or {}).get("kind", "?")
        if not v.get("failing_input_found", True):
            k += " (no-failing-input-found)"
        if k not in kinds:
            kinds.append(k)
    needs = m.get("needs", m.get("notes_head", "")).replace("\n", " ").replace("|", "/")
    needs = re.sub(r"\s+", " ", needs)[:260]
    print("| %s | %s | %s | %s | %s | %s | %s |" % (
        name, m["property"], ", ".join(files), needs,
        (ran.get("tests_with_patch", "?").strip("= ")), "caught" if ran.get("caught") else "MISSED",
        ", ".join(kinds) + (" — after strengthening: " + m["strengthened"] if m.get("strengthened") else "")))

"""C01 — event onsets fall on the exact tick of their cumulative duration, drift-free.
Theorems: coq/Props/C01.v over the scheduler model (coq/Sched/Model.v).  Correspondence: histories
(ticks; schedule with quantize/delay; ticks; optional nudge; ticks) run on isobar's Timeline/Track and on the model
inside Coq; long runs included (quick 3*10^5 / 6*10^5 ticks, thorough 5*10^6).  Oracle: closed form of the onset tick with exact fractions.
Widened histories (Sched/Retick.v, theorems C01_retick_* / C01_self_nudge): the resolution is re-configured between
ticks (`timeline.ticks_per_beat = N`, once or twice, on and off the new grid), and events nudge their own track
re-entrantly (from their action, from a track event callback, from Timeline.on_event_callback); driver
harness/impl/c01_impl.py, model = run_segs over one configuration per segment, oracle = exact simulation of
"first tick at or after start + exact sum" over the exact cumulative times of the ticks.  Faults (Sched/ClockStepProofs.v,
C01_survivors_advance / C01_clocks_in_step): device calls / patterns / callbacks that raise, tolerant or not, on 1-3 tracks;
every surviving track's onsets and clock are judged."""
from common import *
import sched_common as S
import sched_gen as G
from fractions import Fraction as F
from math import ceil, gcd
import re
from concurrent.futures import ThreadPoolExecutor

PROP = "C01"
META = {
 "engine": "S-scheduler",
 "text": "Coq theorems (Props/C01.v) about the executable model of Track.tick/Timeline.tick (Sched/Model.v), for ALL tick lengths, all event streams with durations >= 1 tick (on or off the tick grid, finite or cyclic) and ALL run lengths (induction over the number of ticks, no bound): event k is performed exactly once, on the first tick at or after start + exact sum of the preceding durations; each onset depends only on that sum (no compounding of rounding); a nudge by x shifts every later onset to the first tick at or after the shifted time; Timeline/Track time after n ticks is n ticks. The model is tied to /repo on every run by a correspondence check: random histories at 9 resolutions incl. off-grid durations (0.1, 1/3, 5/7 ...), quantized/delayed starts, nudges, and long runs (quick: 3*10^5 ticks at 24 PPQN and 6*10^5 at 480 PPQN, beyond the point at which the repaired float drift showed; thorough: eight runs of 5*10^6 ticks) are executed on the real Timeline with a recording OutputDevice and inside Coq (vm_compute) on the model and compared call by call and tick by tick; an independent exact-fraction oracle judges every implementation trace. Widened (Sched/Retick.v, RetickProofs.v; theorems C01_retick_onsets, C01_retick_two_segments, C01_self_nudge, C01_retick_timeline_time, about Timeline.tick itself on a single-track timeline): the tick length may change before EVERY tick (any schedule of resolutions) - tick times are the exact cumulative sums of the tick lengths, for the track and for the timeline - and every event may nudge its own track re-entrantly from inside its own performance: event k is performed on tick j iff tick j is the first tick at or after start + exact sum of the preceding durations and self-nudges. Correspondence strata: histories with one or two `timeline.ticks_per_beat = N` assignments between ticks (before/after scheduling, on and off the new grid, with API reads in between) and tracks whose events nudge their own track from an action / a track event callback / Timeline.on_event_callback, run on the real Timeline (harness/impl/c01_impl.py) and on the model (run_segs, one configuration per segment). Ticks cut short by an exception (Sched/ClockStepProofs.v; theorems C01_survivors_advance, C01_clocks_in_step, for EVERY reachable state and every history, any number of tracks, callbacks, faults in tolerant or intolerant mode): after a completed Timeline.tick every started track that is still scheduled has had its clock advanced by exactly one tick, hence Track.current_time = Timeline.current_time - start for every surviving track; stratum: 1-3 tracks (notes, controls, program changes, actions, some raising), the n-th device call raises (OSError family or another class; a second fault later), or a pattern raises, tolerant and intolerant; the oracle judges the onsets of every track and the clocks of the survivors. Resolutions that are multiples of 512 (512 ... 3584: the tick grid sits on decimal ties of round(., 8)) with one-tick and mixed durations (0.2, 1/512, 0.1) are part of the ordinary strata.",
 "note": "Trusted: Coq kernel+VM; the Python harness; harness/gen_tables_time.py (ast translator of the time-advance and due-test expressions of timeline.py/track.py/util.py into Generated/TablesTime.v). The scheduler model computes in exact integer units (round(x, 8) comparisons are exact on grids below 10^8 units per beat, Base/Round8.v). The binary64 arithmetic of isobar's clock and due test is no longer only validated: Props/C01Float.v (Base/FloatGrid*.v, FloatDue*.v, Flocq) proves for the terms generated from the source that the float time after n ticks is the correctly rounded n/tpb (tpb <= 2^20, n <= 2^32), that after a change of resolution every tick lasts one new tick, and that the float due test and the whole float run of Track.tick decide exactly like exact arithmetic at every resolution under a stated error budget (admissible'); these theorems depend on the standard library's axioms of the classical reals (sig_forall_dec, sig_not_dec, functional_extensionality_dep, classic), listed in the evidence. Modelling assumptions of that layer, not proved: one correctly rounded binary64 operation per Python float operation, float(duration) is the nearest double, round(x, 8) is correctly rounded decimal rounding, int/int true division is correctly rounded. Runs beyond the error budget (more than about 1.5*10^7 event-beats) and float nudges are validated by the correspondence runs (the long runs; > 10^6 ticks in the thorough tier) only.",
}


# resolutions that are multiples of 512: every odd multiple of 1/512 beat (0.001953125) is a decimal tie of round(., 8), so the
# tick grid itself sits on the ties; with per-operand rounding in the due tests (before repair 9bb39e5) events there were
# performed a tick late or skipped (512 PPQN, durations 0.2, 1/512, 0.1: 16th event on tick 774 instead of 773)
TPBS_TIE = [512, 1024, 1536, 2560, 3584]


def durations_tie(rng, tpb, n):
    tick = F(1, tpb)
    pool = [tick, tick, 2 * tick, 3 * tick, 5 * tick, F(1, 512), F(3, 512), F(1, 5), F(1, 10), F(1, 10), F(1, 5), F(1, 3), F(3, 10), F(1, 4)]
    r = rng.random()
    if r < 0.2:
        return [tick] * n                                   # one event per tick
    if r < 0.35:
        return [F(1, 5), F(1, 512), F(1, 10)]
    return [rng.choice(pool) for _ in range(n)]


def gen_basic(rng, tier, tie=False):
    tpb = rng.choice(TPBS_TIE if tie else G.TPBS)
    tick = F(1, tpb)
    ncyc = rng.randint(1, 6)
    durs = durations_tie(rng, tpb, ncyc) if tie else G.durations_for(rng, tpb, ncyc)
    ncyc = len(durs)
    cyclic = rng.random() < 0.6
    items = [{"k": "note", "dur": d, "note": 40 + i, "amp": 64, "gate": [1, rng.choice([2, 4, 8])], "chan": 0} for i, d in enumerate(durs)]
    k0 = rng.choice([0, 0, 1, 3, tpb, 2 * tpb + 1, rng.randint(0, 4 * tpb)])
    q = rng.choice([None, None, F(0)] + G.QD_POOL)
    d = rng.choice([None, None, F(0)] + G.QD_POOL)
    budget = 2000 if tier == "quick" else 6000
    total = sum(durs)
    n_events_target = rng.randint(16, 60) if tie else rng.randint(3, 40)
    n1 = min(budget, int(ceil(total / ncyc * n_events_target / tick)) + 3 + int(ceil(((q or 0) + (d or 0)) / tick)))
    ops = []
    if k0:
        ops.append(["tick", k0])
    # a companion: a short finite track on another channel, scheduled just before or just after the measured one; it ends
    # (and is removed from the timeline) while the measured track keeps playing - which must not disturb a single onset
    main = 0
    comp = None
    if rng.random() < 0.4:
        cd = G.durations_for(rng, tpb, rng.randint(1, 3))
        citems = [{"k": "note", "dur": x, "note": 80 + i, "amp": 64, "gate": [1, rng.choice([2, 4])], "chan": 1} for i, x in enumerate(cd)]
        comp = G.sched_op(G.stream(citems, False, "psequence"))
        if rng.random() < 0.7:
            ops.append(comp); main = 1
    ops.append(G.sched_op(G.stream(items, cyclic, rng.choice(["scripted", "psequence", "pdict"])), q, d))
    if comp is not None and main == 0:
        ops.append(comp)
    nudge = None
    muted = None
    r_ = rng.random()
    if 0.4 <= r_ < 0.6 and n1 > 8:
        # mute for a while: events that fall due while muted are silent, every other onset is where it would have been
        a = rng.randint(1, n1 - 4)
        m = rng.randint(1, max(1, min(n1 - a - 1, 3 * int(ceil(max(durs) / tick)) + 2)))
        ops += [["tick", a], ["mute", main], ["tick", m], ["unmute", main], ["tick", n1 - a - m]]
        muted = (k0 + a, k0 + a + m)
    elif r_ < 0.4 and n1 > 6:
        a = rng.randint(2, n1 - 2)
        x = rng.choice([tick, 2 * tick, F(1, 3), F(1, 10), F(1, 2), F(1), -tick * rng.randint(0, 1)]) if rng.random() < 0.8 else F(0)
        ops += [["tick", a], ["nudge", main, x], ["tick", n1 - a]]
        nudge = (k0 + a, x)
    else:
        ops.append(["tick", n1])
    sc = {"tpb": tpb, "config": {}, "callbacks": [], "ops": ops,
          "meta": {"kind": "basic", "durs": [str(x) for x in durs], "cyclic": cyclic, "k0": k0, "q": str(q), "d": str(d),
                   "nudge": None if nudge is None else [nudge[0], str(nudge[1])], "muted_ticks": muted,
                   "companion": None if comp is None else ("before" if main == 1 else "after")}}
    sc["_o"] = {"durs": durs, "cyclic": cyclic, "k0": k0, "q": q, "d": d, "nudge": nudge, "muted": muted}
    return sc


def gen_long(rng, tpb, nticks):
    tick = F(1, tpb)
    beats = nticks / tpb
    base = max(1, int(beats / 1500))
    durs = [F(base) + rng.choice([F(1, 3), F(1, 10), F(5, 7), F(0), tick]) for _ in range(rng.randint(1, 3))]
    items = [{"k": "note", "dur": d, "note": 50 + i, "amp": 64, "gate": [1, 4], "chan": 0} for i, d in enumerate(durs)]
    ops = [G.sched_op(G.stream(items, True, "psequence")), ["tick", nticks]]
    sc = {"tpb": tpb, "config": {}, "callbacks": [], "ops": ops,
          "meta": {"kind": "long", "ticks": nticks, "durs": [str(x) for x in durs]}}
    sc["_o"] = {"durs": durs, "cyclic": True, "k0": 0, "q": None, "d": None, "nudge": None}
    return sc


def expected_onsets(o, tpb, total_ticks):
    """closed form, exact: list of (tick, event index) for events performed before total_ticks"""
    tick = F(1, tpb)
    t_call = o["k0"] * tick
    q, d = o["q"] or F(0), o["d"] or F(0)
    X = (q * ceil(t_call / q) if q else t_call) + d
    s = max(o["k0"], ceil(X / tick))
    out = []
    N = F(0)
    shift = F(0)
    k = 0
    durs = o["durs"]
    while True:
        if not o["cyclic"] and k >= len(durs):
            break
        # a nudge made before tick a shifts every event not yet performed by then
        onset = s + ceil((N + shift) / tick)
        if o["nudge"] is not None and shift == 0 and o["nudge"][1] != 0:
            a, x = o["nudge"]
            # a nudge made before the track has started is overwritten by start() and has no effect
            started = (not q and not d) or s < a
            if started and onset >= a:
                shift = x
                if s + ceil((N + shift) / tick) < a:
                    # a negative nudge that moves the next onset into the past: "shifted by exactly x" cannot be
                    # met by any scheduler (the tick has gone); the property does not say what happens - not judged
                    return None
                onset = max(a, s + ceil((N + shift) / tick))
        if onset >= total_ticks:
            break
        out.append((onset, k))
        N += durs[k % len(durs)]
        k += 1
    return out


def oracle(sc, r):
    """judge the implementation's trace alone; returns (ok, detail)"""
    o = sc["_o"]
    tpb = sc["tpb"]
    idx = S.tick_indices(sc)
    total = sum(1 for k, _ in idx if k == "tick")
    ons = []
    for i, calls, res, ids in r["obs"]:
        kind, t = idx[i]
        for c in calls:
            if c[0] == "on" and c[3] == 0:          # the measured track plays on channel 0 (a companion on channel 1)
                ons.append((t, c[1]))
    exp = expected_onsets(o, tpb, total)
    if exp is None:
        return None, "nudge into the past"
    if o.get("muted"):
        exp = [(t, k) for t, k in exp if not (o["muted"][0] <= t < o["muted"][1])]
    expn = [(t, 40 + (k % len(o["durs"])) if sc["meta"]["kind"] == "basic" else 50 + (k % len(o["durs"]))) for t, k in exp]
    if ons != expn:
        for j, (a, b) in enumerate(zip(ons + [None] * len(expn), expn + [None] * len(ons))):
            if a != b:
                return False, "event %d: performed (tick, note) = %r, exact onset (tick, note) = %r" % (j, a, b)
    if abs(r["now_ticks"] - total) > 1e-6:
        return False, "Timeline.current_time = %r ticks after %d ticks" % (r["now_ticks"], total)
    return True, ""


# ---- widened histories: the resolution is re-configured during the run; events nudge their own track -------------------------
HEADER_W = S.HEADER + "From Isobar Require Import Sched.Retick.\n"
# Every configuration literal carries the fuel as `5000%nat`, a unary numeral of 5000 constructors that Coq elaborates (and writes
# to the .vo) once per configuration: 70 % of the time of a case file.  The case files of this check define it once.
HEADER_ALL = HEADER_W + "Definition fuel5k : nat := Z.to_nat %d.\n" % S.FUEL
_FUEL_LIT = re.compile(r"(?<![0-9])%d%%nat\)" % S.FUEL)


def cheap(term):
    return _FUEL_LIT.sub("fuel5k)", term)

TPBS_W = [1, 7, 10, 24, 48, 96, 100, 480, 512, 960, 1920, 2560]
SEG_CAP = 1000         # ticks per segment


def w_items(rng, durs, kinds):
    """events of the measured track (index 'pos' in the cycle): a note 40+pos on channel 0, or an action running callback pos"""
    items, labels = [], []
    for i, (d, kd) in enumerate(zip(durs, kinds)):
        if kd == "action":
            items.append({"k": "action", "cb": i, "dur": d}); labels.append(["cb", i])
        else:
            items.append({"k": "note", "dur": d, "note": 40 + i, "amp": 64, "gate": [1, rng.choice([2, 4, 8])], "chan": 0})
            labels.append(["on", 40 + i])
    return items, labels


def ticks_for(rng, beats_per_event, tpb, lo=3, hi=14):
    return max(2, min(SEG_CAP, int(ceil(beats_per_event * rng.randint(lo, hi) * tpb)) + rng.randint(0, 3)))


def split_with_nudge(rng, ops, main, tick_now, started_possible=True):
    """insert one between-tick nudge of the measured track into a random tick block"""
    blocks = [i for i, o in enumerate(ops) if o[0] == "tick" and o[1] >= 4 and any(p[0] == "schedule" for p in ops[:i])]
    if not blocks:
        return None
    i = rng.choice(blocks)
    n = ops[i][1]
    a = rng.randint(2, n - 2)
    tpb = tick_now(i)
    tick = F(1, tpb)
    x = rng.choice([tick, 2 * tick, F(1, 3), F(1, 10), F(1, 2), F(1), 3 * tick, -tick * rng.randint(0, 1)])
    ops[i:i + 1] = [["tick", a], ["nudge", main, x], ["tick", n - a]]
    return x


def gen_retick(rng, tier):
    """k0 ticks; [re-configure;] schedule; ticks; re-configure; ticks [; re-configure; ticks] - on or off the new grid"""
    for _attempt in range(200):
        ntp = 2 if rng.random() < 0.7 else 3
        tpbs = [rng.choice(TPBS_W)]
        while len(tpbs) < ntp:
            t = rng.choice(TPBS_W)
            if t != tpbs[-1]:
                tpbs.append(t)
        want_aligned = rng.random() < 0.55
        early = rng.random() < 0.25            # the first change comes before the track is scheduled
        coarse = min(tpbs)
        ncyc = rng.randint(1, 5)
        durs = G.durations_for(rng, coarse, ncyc)
        cyclic = rng.random() < 0.75
        avg = sum(durs) / ncyc
        q = d = None
        if want_aligned:
            k0 = tpbs[0] * rng.choice([0, 0, 1, 2]) if tpbs[0] <= 200 else 0
            if rng.random() < 0.3:
                q = rng.choice([None, F(1), F(2)]); d = rng.choice([None, F(1), F(0)])
        else:
            k0 = rng.choice([0, 1, 3, rng.randint(0, 2 * min(tpbs[0], 200))])
        ops = []
        if k0:
            ops.append(["tick", k0])
        if rng.random() < 0.3:
            ops.append(["probe"])
        segs = list(tpbs)
        if early:
            ops.append(["set_tpb", segs[1]]); segs = segs[1:]
            if rng.random() < 0.5:
                ops.append(["probe"])
        kinds = ["note"] * ncyc
        items, labels = w_items(rng, durs, kinds)
        if not cyclic:
            reps = rng.randint(2, 8)
            items, labels, durs_full = items * reps, labels * reps, durs * reps
        else:
            durs_full = durs
        ops.append(G.sched_op(G.stream(items, cyclic, rng.choice(["scripted", "psequence", "pdict"])), q, d))
        ok = True
        for si, t in enumerate(segs):
            if si > 0:
                if rng.random() < 0.25:
                    ops.append(["probe"])
                ops.append(["set_tpb", t])
            if want_aligned and si + 1 < len(segs):
                step = t // gcd(t, segs[si + 1])
                if step > SEG_CAP:
                    ok = False; break
                n = step * rng.randint(1, max(1, min(SEG_CAP // step, int(ceil(avg * 12 * t / step)))))
            else:
                n = ticks_for(rng, avg, t)
            ops.append(["tick", n])
        if not ok:
            continue
        tp_of_op = []
        cur = tpbs[0]
        for o in ops:
            if o[0] == "set_tpb":
                cur = o[1]
            tp_of_op.append(cur)
        nudged = None
        if rng.random() < 0.25:
            nudged = split_with_nudge(rng, ops, 0, lambda i: tp_of_op[i])
        w = {"durs": durs_full, "cyclic": cyclic, "labels": labels, "selfx": [F(0)] * len(durs_full), "main": 0, "ops": ops, "tpb0": tpbs[0]}
        sim = simulate(w)
        if not sim["judged"]:
            continue
        if want_aligned != sim["aligned"]:
            continue
        if not sim["aligned"] and (q or d):
            continue
        if sum(1 for t, _ in sim["onsets"] if t >= sim["changes"][-1]) < 2 and _attempt < 150:
            continue            # at least two events after the last re-configuration
        sc = {"tpb": tpbs[0], "config": {}, "callbacks": [], "ops": ops, "grid": [F(1, t) for t in tpbs],
              "meta": {"kind": "retick", "tpbs": tpbs, "early": early, "aligned": sim["aligned"], "durs": [str(x) for x in durs],
                       "cyclic": cyclic, "q": str(q), "d": str(d), "nudge": None if nudged is None else str(nudged)}}
        sc["_w"] = w
        sc["_sim"] = sim
        return sc
    raise CheckError("gen_retick: no scenario in 200 attempts")


def gen_selfnudge(rng, tier):
    """a track whose events nudge that same track while they are being performed: from the action of an action event (in the
    model), from a callback added with track.add_event_callback, from Timeline.on_event_callback"""
    for _attempt in range(200):
        tpb = rng.choice(G.TPBS)
        tpbs = [tpb]
        if rng.random() < 0.2:
            t2 = rng.choice([t for t in TPBS_W if t != tpb]); tpbs.append(t2)
        coarse = min(tpbs)
        tick = F(1, coarse)
        via = rng.choice(["action", "action", "track_cb", "timeline_cb"])
        ncyc = rng.randint(1, 6)
        durs = G.durations_for(rng, coarse, ncyc)
        kinds = [("action" if rng.random() < 0.6 else "note") if via == "action" else "note" for _ in range(ncyc)]
        if via == "action" and "action" not in kinds:
            kinds[rng.randrange(ncyc)] = "action"
        selfx = []
        for dd, kd in zip(durs, kinds):
            if via == "action" and kd != "action":
                selfx.append(F(0)); continue
            cands = [x for x in [tick, 2 * tick, F(1, 16), F(1, 10), F(1, 3), F(3, 10), -tick, -F(1, 20), -F(1, 3), F(0), F(1)]
                     if dd + x >= tick]
            selfx.append(rng.choice(cands))
        if all(x == 0 for x in selfx):
            continue
        cyclic = rng.random() < 0.7
        items, labels = w_items(rng, durs, kinds)
        durs_full, selfx_full = durs, selfx
        if not cyclic:
            reps = rng.randint(2, 6)
            items, labels, durs_full, selfx_full = items * reps, labels * reps, durs * reps, selfx * reps
        k0 = rng.choice([0, 0, 1, 3, rng.randint(0, 2 * min(tpb, 100))])
        ops = []
        if k0:
            ops.append(["tick", k0])
        main = 0
        if rng.random() < 0.25:
            # another track, scheduled first, that plays along (its events run no callback of the measured track)
            cd = G.durations_for(rng, coarse, rng.randint(1, 3))
            citems = [{"k": "note", "dur": x, "note": 80 + i, "amp": 64, "gate": [1, 2], "chan": 1} for i, x in enumerate(cd)]
            ops.append(G.sched_op(G.stream(citems, rng.random() < 0.5, "psequence"))); main = 1
        ops.append(G.sched_op(G.stream(items, cyclic, rng.choice(["scripted", "psequence", "pdict"]))))
        avg = (sum(durs) + sum(selfx)) / ncyc
        for si, t in enumerate(tpbs):
            if si > 0:
                ops.append(["set_tpb", t])
            ops.append(["tick", ticks_for(rng, max(avg, tick), t, 4, 24 if len(tpbs) == 1 else 12)])
        tp_of_op = []
        cur = tpbs[0]
        for o in ops:
            if o[0] == "set_tpb":
                cur = o[1]
            tp_of_op.append(cur)
        nudged = None
        if rng.random() < 0.2:
            nudged = split_with_nudge(rng, ops, main, lambda i: tp_of_op[i])
        callbacks = []
        if via == "action":
            for i, kd in enumerate(kinds):
                callbacks.append({"raise": "none", "ops": [["nudge", main, selfx[i]]] if kd == "action" and (selfx[i] != 0 or rng.random() < 0.5) else []})
        w = {"durs": durs_full, "cyclic": cyclic, "labels": labels, "selfx": selfx_full, "main": main, "ops": ops, "tpb0": tpbs[0]}
        sim = simulate(w)
        if not sim["judged"] or len(sim["onsets"]) < 3:
            continue
        sc = {"tpb": tpbs[0], "config": {}, "callbacks": callbacks, "ops": ops, "grid": [F(1, t) for t in tpbs],
              "meta": {"kind": "self-nudge", "via": via, "tpbs": tpbs, "aligned": sim["aligned"], "durs": [str(x) for x in durs],
                       "self_nudges": [str(x) for x in selfx], "kinds": kinds, "cyclic": cyclic, "main": main,
                       "nudge": None if nudged is None else str(nudged)}}
        if via != "action":
            sc["self_nudge"] = {"via": via, "track": main, "by_pos": selfx}
        sc["_w"] = w
        sc["_sim"] = sim
        return sc
    raise CheckError("gen_selfnudge: no scenario in 200 attempts")


def simulate(w):
    """The property, executed with exact fractions.  The time of a tick is the exact sum of the lengths of the ticks before it
    (one tick_duration per tick, at the resolution in force during that tick); the measured track's k-th event is performed on
    the first tick at or after start + exact sum of the preceding durations + every nudge applied before it is performed
    (between ticks, or by an earlier event of the track itself while it was being performed)."""
    T, tick_len, prevT = F(0), F(1, w["tpb0"]), None
    tickno = idx = created = 0
    main = w["main"]
    pending, started, start_T, due, k, muted = None, False, None, None, 0, False
    durs, selfx, n = w["durs"], w["selfx"], len(w["durs"])
    onsets, times, tick_of_idx, aligned, judged, changes = [], [], {}, True, True, []

    def track_time():
        return (T - start_T) if started else F(0)
    for o in w["ops"]:
        kind = o[0]
        if kind == "tick":
            for _ in range(o[1]):
                if pending is not None and pending <= T:
                    started, start_T, due, pending = True, T, T, None
                if started and (w["cyclic"] or k < n) and due <= T:
                    if not muted:
                        onsets.append((tickno, k % n))
                        due += selfx[k % n]
                    due += durs[k % n]
                    k += 1
                    if due <= T:
                        judged = False          # two events in one tick: outside the property's domain (durations >= 1 tick)
                tick_of_idx[idx] = tickno
                prevT = T
                T += tick_len
                tickno += 1
                idx += 1
        elif kind == "set_tpb":
            times.append((idx, T, track_time()))
            changes.append(tickno)
            tick_len = F(1, o[1])
            if (T * o[1]).denominator != 1 or (track_time() * o[1]).denominator != 1:
                aligned = False
        elif kind == "probe":
            pass
        else:
            if kind == "schedule":
                if created == main:
                    q, d = o[2] or F(0), o[3] or F(0)
                    if not q and not d:
                        started, start_T, due = True, T, T
                    else:
                        pending = (q * ceil(T / q) if q else T) + d
                created += 1
            elif kind == "nudge" and o[1] == main:
                if started:
                    due += o[2]
                    # a nudge that moves the next onset to or before the last tick that has already happened: "shifted by
                    # exactly x" cannot be met by any scheduler; the property does not say what happens - not judged
                    if prevT is not None and due <= prevT:
                        judged = False
            elif kind == "mute" and o[1] == main:
                muted = True
            elif kind == "unmute" and o[1] == main:
                muted = False
            idx += 1
    times.append((idx, T, track_time()))
    return {"onsets": onsets, "times": times, "tick_of_idx": tick_of_idx, "aligned": aligned, "judged": judged,
            "finished": (not w["cyclic"]) and k >= n, "changes": changes}


def observed_w(sc, r):
    sim = sc["_sim"]
    ons = []
    for i, calls, res, ids in r["obs"]:
        for c in calls:
            if (c[0] == "on" and c[3] == 0) or c[0] == "cb":
                ons.append((sim["tick_of_idx"].get(i), [c[0], c[1]]))
    return ons


def times_match(w, got, want, tol=1e-9):
    if len(got) != len(want):
        return "Timeline.current_time read at %d points, expected %d" % (len(got), len(want))
    for (gi, gt, gtr), (wi, wt, wtr) in zip(got, want):
        if gi != wi:
            return "operation index %r, expected %r" % (gi, wi)
        if abs(gt - float(wt)) > tol:
            return "Timeline.current_time = %r beats before operation %d, exact sum of the tick durations = %s = %r" % (gt, gi, wt, float(wt))
        if wtr is not None and w["main"] < len(gtr) and abs(gtr[w["main"]] - float(wtr)) > tol:
            return "Track.current_time = %r beats before operation %d, exact sum of the tick durations since its start = %s = %r" % (
                gtr[w["main"]], gi, wtr, float(wtr))
    return None


def oracle_w(sc, r):
    """judge the implementation's trace of a widened history; returns (ok, detail)"""
    w, sim = sc["_w"], sc["_sim"]
    exp = [(t, w["labels"][pos]) for t, pos in sim["onsets"]]
    ons = observed_w(sc, r)
    track_alive = w["cyclic"]          # a finished track leaves the timeline and its clock stops: only the timeline's is judged then
    want_times = [(i, t, tt if track_alive else None) for i, t, tt in sim["times"]]
    detail = None
    if ons != exp:
        for j, (a, b) in enumerate(zip(ons + [None] * len(exp), exp + [None] * len(ons))):
            if a != b:
                detail = "event %d: performed (tick, what) = %r, exact onset (tick, what) = %r" % (j, a, b)
                break
    if detail is None:
        detail = times_match(w, r["times"], want_times)
    if detail is None:
        return True, ""
    return False, detail


def eff_stream(s, selfx):
    """the stream as the model sees it when event callbacks (which the model does not have) nudge the track: by theorem
    C01_self_nudge a self-nudge of x by event i is the same as event i lasting x longer (its notes keep their length)"""
    out = dict(s)
    out["items"] = [dict(e, eff=selfx[i % len(selfx)]) for i, e in enumerate(s["items"])]
    return out


def coq_event_w(ev):
    if "eff" not in ev or ev["eff"] == 0:
        return S.coq_event(ev)
    assert ev["k"] == "note"
    vs = lst(["mkVoice %s %s %s %s" % (zlit(n), optlit(a, zlit), zlit(c), optlit(g, zlit)) for n, a, c, g in S.voices_of(ev)])
    return "REvent (mkEvent %s %s (KNote %s))" % (zlit(ev["dur"] + ev["eff"]), blit(ev.get("active", True)), vs)


def coq_op_w(o):
    if o[0] == "schedule":
        _, s, q, d, count, rwd, name, replace = o
        st = "(mkStream %s 0%%nat %s)" % (lst([coq_event_w(e) for e in s["items"]]), blit(s["cyclic"]))
        return "OSchedule %s %s %s %s %s %s %s" % (st, S.oz(q), S.oz(d), S.oz(count), blit(rwd), S.oz(name), blit(replace))
    return S.coq_op(o)


def coq_segments(fsc):
    """one (configuration, history) pair per stretch of operations between two re-configurations (of the resolution, or of
    the device-call index at which the scripted device fault strikes)"""
    sn = fsc.get("self_nudge")
    segs, tpb, fail, cur = [], fsc["tpb"], fsc["config"].get("dev_fail"), []
    created = 0
    for o in fsc["ops"]:
        if o[0] == "probe":
            continue
        if o[0] == "set_tpb":
            segs.append((tpb, fail, cur)); tpb, cur = o[1], []
            continue
        if o[0] == "set_fail":
            segs.append((tpb, fail, cur)); fail, cur = o[1], []
            continue
        if o[0] == "schedule":
            if sn and created == sn["track"]:
                o = [o[0], eff_stream(o[1], sn["by_pos"])] + list(o[2:])
            created += 1
        cur.append("hop (%s) %s" % (coq_op_w(o), zlit(o[1] if o[0] == "tick" else 1)))
    segs.append((tpb, fail, cur))
    return lst(["seg %s %s" % (S.coq_config(dict(fsc, tpb=t, config=dict(fsc["config"], dev_fail=f))), lst(h))
                for t, f, h in segs if h or len(segs) == 1])


def agrees_term_w(fsc, obs):
    return "agrees_segs %s %s" % (coq_segments(fsc), S.coq_expected(obs))


def run_impl_w(run, scenarios, shards=12):
    parts = [scenarios[i::shards] for i in range(shards) if scenarios[i::shards]]
    outs = run.impl_parallel("c01_impl", [{"scenarios": p} for p in parts])
    res = [None] * len(scenarios)
    for si, out in enumerate(outs):
        for j, r in enumerate(out["results"]):
            res[si + j * shards] = r
    return res


def model_trace_w(run, fsc):
    return run.coq_eval(HEADER_W, "sparse (run_segs %s tl0)" % coq_segments(fsc))


def python_snippet_w(fsc):
    return ("# replay against the repository: PYTHONPATH=/repo /venv/bin/python /verif/harness/impl/c01_impl.py  <<< "
            "'{\"scenarios\": [<the scenario of this file>]}'   (or: ./check C01 --replay <this file>)")


def widened_generate(run):
    rng = run.rng
    n_each = 140 if run.tier == "quick" else 2500
    return ([gen_retick(rng, run.tier) for _ in range(n_each)] + [gen_selfnudge(rng, run.tier) for _ in range(n_each)]
            + [gen_fault(rng, run.tier) for _ in range(n_each)])


def widened_judge(run, scs, fin, results):
    """oracle verdicts and distribution of the widened histories; returns (indices not to be compared with the model, Coq terms)"""
    skip = set()
    for i, (sc, fsc, r) in enumerate(zip(scs, fin, results)):
        run.count()
        m = sc["meta"]
        run.dist("kind." + m["kind"])
        for t in m["tpbs"]:
            run.dist("tpb.%d" % t)
        if len(m["tpbs"]) > 1 and m["kind"] != "fault":
            run.dist("retick.%s" % ("on-new-grid" if m["aligned"] else "off-new-grid"))
            run.dist("retick.changes.%d" % (len(m["tpbs"]) - 1))
            run.dist("retick.%s" % ("finer" if m["tpbs"][1] > m["tpbs"][0] else "coarser"))
        if m.get("early"): run.dist("retick.before-scheduling")
        if any(o[0] == "probe" for o in sc["ops"]): run.dist("retick.api-reads-between")
        if m["kind"] == "self-nudge":
            run.dist("self-nudge.via." + m["via"])
            if any(x.startswith("-") for x in m["self_nudges"]): run.dist("self-nudge.negative")
            if m["main"] == 1: run.dist("self-nudge.second-track")
        if m.get("nudge"): run.dist("nudge")
        if "durs" in m and any(F(x).denominator != 1 for t in m["tpbs"] for x in [F(d) * t for d in m["durs"]]): run.dist("off-grid-durations")
        if "driver_error" in r:
            run.violation({"kind": "driver-error", "site": "Timeline"}, {"scenario": fsc, "observed": r}, found_input=True)
            skip.add(i); continue
        if m["kind"] == "fault":
            run.dist("fault.%s" % ("tolerant" if m["tolerant"] else "intolerant"))
            run.dist("fault.exception.%s" % ("OSError-family" if m["exception"] in FAULT_EXC[:4] else "other"))
            run.dist("fault.tracks.%d" % m["tracks"])
            if m["dev_fail"] is not None and m["faults_at_ticks"]: run.dist("fault.device")
            if m["second_fault"] is not None: run.dist("fault.second-device-fault")
            if m["pattern_fault"]: run.dist("fault.pattern")
            if m["callbacks_raising"]: run.dist("fault.callback-raises")
            if m["removed_tracks"] and len(m["removed_tracks"]) < m["tracks"]: run.dist("fault.neighbour-survives")
            ok, detail = oracle_f(sc, r)
            run.cov["oracle_evaluations"] += 1
            if sum(len(v) for v in observed_f(sc, r).values()) >= 2:
                run.nontrivial(json.dumps(fsc, sort_keys=True))
            if not ok:
                skip.add(i)
                kind = "clock-after-fault" if "current_time" in detail else "onset-after-fault"
                run.violation({"kind": kind, "site": "Timeline.tick/Track.tick"}, {
                    "scenario": fsc, "meta": m, "observed": detail,
                    "oracle": "every scheduled track performs its k-th event on the first tick at or after its start + exact sum of the preceding "
                              "durations, and its clock reads Timeline.current_time - start, whatever exception cut a tick short",
                    "expected_head": {ti: e[:10] for ti, e in sc["_sim"]["exp"].items()},
                    "observed_head": {ti: e[:10] for ti, e in observed_f(sc, r).items()}, "times": r["times"][-1], "final_ids": r["final_ids"],
                    "python": python_snippet_w(fsc)})
            if i % 97 == 0:
                run.sample({"meta": m, "first_observations": r["obs"][:5]}, limit=8)
            continue
        ok, detail = oracle_w(sc, r)
        run.cov["oracle_evaluations"] += 1
        if len(observed_w(sc, r)) >= 2:
            run.nontrivial(json.dumps(fsc, sort_keys=True))
        if not ok:
            skip.add(i)
            timey = detail.startswith("Timeline.current_time") or detail.startswith("Track.current_time")
            kind = "retick-clock" if timey else "self-nudge-onset" if m["kind"] == "self-nudge" else "retick-onset"
            run.violation({"kind": kind, "site": "Track.tick" if kind != "retick-clock" else "Timeline.tick"}, {
                "scenario": fsc, "meta": m, "observed": detail,
                "oracle": "exact simulation of the property: tick times = exact cumulative sums of the tick durations; event k on the "
                          "first tick at or after start + exact sum of the preceding durations and nudges",
                "expected_onsets_head": [(t, sc["_w"]["labels"][p]) for t, p in sc["_sim"]["onsets"][:12]],
                "observed_onsets_head": observed_w(sc, r)[:12], "times": r["times"],
                "expected_times": [(i, str(t), str(tt)) for i, t, tt in sc["_sim"]["times"]], "python": python_snippet_w(fsc)})
        if i % 97 == 0:
            run.sample({"meta": m, "first_observations": r["obs"][:5]}, limit=8)
    terms = []
    for i, (fsc, r) in enumerate(zip(fin, results)):
        if i in skip:
            terms.append("true")
        elif not S.obs_well_typed(r["obs"]):
            terms.append("false")
        else:
            terms.append(cheap(agrees_term_w(fsc, r["obs"])))
    return skip, terms


def widened_report(run, scs, fin, results, bad):
    for i in bad:
        doc = {"broken": "correspondence Sched/Model.v + Sched/Retick.v (run_segs) <-> isobar Timeline/Track on this history (the theorems "
                         "C01_retick_* / C01_self_nudge / C01_clocks_in_step of Props/C01.v no longer speak about this code)",
               "scenario": fin[i], "meta": scs[i]["meta"], "observed": results[i].get("obs"), "python": python_snippet_w(fin[i])}
        try:
            doc["model"] = model_trace_w(run, fin[i])
        except Exception as e:      # pragma: no cover
            doc["model"] = "unavailable: %s" % e
        run.violation({"kind": "correspondence-widened", "site": "Track.tick"}, doc, found_input=False)


# ---- histories with faults: a tick of a track that is cut short by an exception -------------------------------------------
FAULT_EXC = ["ConnectionRefusedError", "OSError", "BrokenPipeError", "TimeoutError", "RuntimeError", "ValueError", "KeyError"]


def split_ticks_at(ops, tick_index, new_op):
    """insert new_op before the tick with the given absolute index (ticks counted over the whole history)"""
    out, seen, done = [], 0, False
    for o in ops:
        if o[0] == "tick" and not done and seen <= tick_index < seen + o[1]:
            a = tick_index - seen
            if a:
                out.append(["tick", a])
            out.append(new_op)
            out.append(["tick", o[1] - a])
            done = True
        else:
            out.append(o)
        if o[0] == "tick":
            seen += o[1]
    if not done:
        out.append(new_op)
    return out


def simulate_f(f, keep=()):
    """The property for several tracks with faults, exact fractions.  Every track that is scheduled performs its k-th event on the
    first tick at or after its start + exact sum of the preceding durations - whatever happened to other tracks, and whatever
    exception cut one of ITS OWN ticks short, as long as it stays scheduled.  Whether a track whose tick raised in tolerant mode
    is removed is not C01's business (C17 says it is): keep[n] says whether the track hit by the n-th fault stays scheduled (the
    failed event is dropped, the stream goes on) or is removed (the default); the oracle accepts any such world as a whole.  In intolerant
    mode the exception leaves Timeline.tick and nothing after that tick is judged."""
    tick, T = F(1, f["tpb"]), F(0)
    tickno = idx = 0
    trs, calls, fail = [], 0, f["fail"]
    exp, tick_of_idx, cum_calls, fault_ticks, raised_at = {}, {}, [], [], None
    for o in f["ops"]:
        kind = o[0]
        if kind == "tick":
            for _ in range(o[1]):
                if raised_at is None:
                    for tr in trs:
                        if not tr["alive"] or tr["due"] > T:
                            continue
                        items = tr["items"]
                        if tr["pos"] >= len(items):
                            if tr["cyclic"]:
                                tr["pos"] = 0
                            else:
                                tr["alive"] = False; tr["ended"] = True
                                continue
                        it = items[tr["pos"]]
                        tr["pos"] += 1
                        if it["k"] == "raise_eval":
                            kept = len(fault_ticks) < len(keep) and keep[len(fault_ticks)]
                            fault_ticks.append(tickno)
                            if f["tolerant"]:
                                tr["alive"] = kept          # kept: next_event_time was not advanced, the next item is due at once
                                tr["faulted"] = True
                                continue
                            raised_at = tickno
                            break
                        if it["k"] == "action":
                            exp[tr["i"]].append((tickno, ["cb", it["cb"]]))
                        else:
                            delivered = calls != fail
                            calls += 1
                            if not delivered:
                                kept = len(fault_ticks) < len(keep) and keep[len(fault_ticks)]
                                fault_ticks.append(tickno)
                                if f["tolerant"]:
                                    tr["faulted"] = True
                                    if not kept:
                                        tr["alive"] = False
                                        continue
                                else:
                                    raised_at = tickno
                                    break
                            if delivered:
                                lab = (["on", it["note"]] if it["k"] == "note" else ["ctl", it["ctl"], it["val"]] if it["k"] == "control"
                                       else ["pgm", it["prog"]])
                                exp[tr["i"]].append((tickno, lab))
                        tr["due"] += it["dur"]
                    if raised_at is None:
                        T += tick
                tick_of_idx[idx] = tickno
                cum_calls.append(calls)
                tickno += 1
                idx += 1
        elif kind == "set_fail":
            fail = o[1]
        else:
            if kind == "schedule":
                i = len(trs)
                trs.append({"i": i, "items": f["streams"][i]["items"], "cyclic": f["streams"][i]["cyclic"], "pos": 0, "due": T,
                            "start": T, "alive": True, "ended": False, "faulted": False})
                exp[i] = []
            idx += 1
    return {"exp": exp, "tick_of_idx": tick_of_idx, "cum_calls": cum_calls, "fault_ticks": fault_ticks, "raised_at": raised_at, "T": T,
            "clock": {tr["i"]: T - tr["start"] for tr in trs if tr["alive"] and tr["cyclic"]}, "total_calls": calls,
            "dead": [tr["i"] for tr in trs if not tr["alive"] and not tr["ended"]], "faulted": [tr["i"] for tr in trs if tr["faulted"]]}


def gen_fault(rng, tier):
    """1-3 tracks of notes / controls / program changes / actions (some raising); the n-th device call raises (an OSError or another
    exception), possibly a second one later, or a pattern raises; tolerant (ignore_exceptions) or not"""
    for _attempt in range(200):
        tpb = rng.choice(G.TPBS + [512])
        ntr = rng.randint(1, 3)
        tolerant = rng.random() < 0.7
        callbacks, streams = [], []
        for ti in range(ntr):
            ncyc = rng.randint(1, 4)
            durs = G.durations_for(rng, tpb, ncyc)
            items = []
            for i, dd in enumerate(durs):
                r = rng.random()
                if r < 0.68:
                    items.append({"k": "note", "dur": dd, "note": 20 + 20 * ti + i, "amp": 64, "gate": [1, rng.choice([2, 4])], "chan": ti})
                elif r < 0.79:
                    items.append({"k": "control", "dur": dd, "ctl": 10 + i, "val": 10 * ti + i, "prog": 0, "chan": ti})
                elif r < 0.88:
                    items.append({"k": "program", "dur": dd, "ctl": 0, "val": 0, "prog": 10 * ti + i, "chan": ti})
                else:
                    items.append({"k": "action", "cb": len(callbacks), "dur": dd})
                    callbacks.append({"raise": "exc" if rng.random() < 0.7 else "none", "ops": []})
            cyclic = rng.random() < 0.75
            if not cyclic:
                items = items * rng.randint(2, 8)
            streams.append({"items": items, "cyclic": cyclic})
        pattern_fault = rng.random() < 0.15
        if pattern_fault:
            st = rng.choice(streams)
            st["items"] = list(st["items"])
            st["items"].insert(rng.randint(1, len(st["items"])), {"k": "raise_eval"})
            if st["cyclic"] and rng.random() < 0.5:
                st["cyclic"] = False
        avg = sum(sum(i.get("dur", 0) for i in st["items"]) / len(st["items"]) for st in streams) / ntr
        ops = []
        k0 = rng.choice([0, 0, 1, 3, rng.randint(0, 2 * min(tpb, 100))])
        if k0:
            ops.append(["tick", k0])
        order = list(range(ntr))
        for j, ti in enumerate(order):
            form = "scripted" if any(i["k"] == "raise_eval" for i in streams[ti]["items"]) else rng.choice(["scripted", "psequence", "pdict"])
            ops.append(G.sched_op(G.stream(streams[ti]["items"], streams[ti]["cyclic"], form)))
            if j + 1 < ntr and rng.random() < 0.5:
                ops.append(["tick", rng.randint(1, 2 * min(tpb, 50) + 1)])
        ops.append(["tick", ticks_for(rng, avg, tpb, 6, 30)])
        f = {"tpb": tpb, "streams": streams, "ops": ops, "tolerant": tolerant, "fail": None}
        dry = simulate_f(f)
        if dry["total_calls"] < 4:
            continue
        fail = None
        if not pattern_fault or rng.random() < 0.3:
            fail = rng.randint(0, max(0, (dry["total_calls"] * 2) // 3))
        f["fail"] = fail
        sim = simulate_f(f)
        second = None
        if tolerant and sim["fault_ticks"] and rng.random() < 0.4:
            tb = sim["fault_ticks"][0] + rng.randint(1, 20)
            if tb < len(sim["cum_calls"]) - 2:
                second = sim["cum_calls"][tb - 1] + rng.randint(0, 6)
                f["ops"] = ops = split_ticks_at(ops, tb, ["set_fail", second])
                sim = simulate_f(f)
        if not sim["fault_ticks"] and _attempt < 150:
            continue
        exc = rng.choice(FAULT_EXC[:4]) if rng.random() < 0.55 else rng.choice(FAULT_EXC[4:])
        sc = {"tpb": tpb, "config": {"ignore": tolerant, "dev_fail": fail, "dev_fail_exc": exc}, "callbacks": callbacks, "ops": ops,
              "meta": {"kind": "fault", "tpbs": [tpb], "tolerant": tolerant, "tracks": ntr, "exception": exc, "dev_fail": fail,
                       "second_fault": second, "pattern_fault": pattern_fault, "faults_at_ticks": sim["fault_ticks"],
                       "removed_tracks": sim["dead"], "callbacks_raising": sum(1 for c in callbacks if c["raise"] == "exc")}}
        sc["_f"] = f
        sc["_sim"] = sim
        return sc
    raise CheckError("gen_fault: no scenario in 200 attempts")


def observed_f(sc, r):
    """what each track was heard doing: (tick, label) per track (device calls carry the track's channel; callbacks their index)"""
    sim = sc["_sim"]
    owner = {}
    for ti, st in enumerate(sc["_f"]["streams"]):
        for it in st["items"]:
            if it["k"] == "action":
                owner[it["cb"]] = ti
    out = {ti: [] for ti in range(len(sc["_f"]["streams"]))}
    for i, calls, res, ids in r["obs"]:
        t = sim["tick_of_idx"].get(i)
        for c in calls:
            if c[0] == "on":
                out[c[3]].append((t, ["on", c[1]]))
            elif c[0] == "ctl":
                out[c[3]].append((t, ["ctl", c[1], c[2]]))
            elif c[0] == "pgm":
                out[c[2]].append((t, ["pgm", c[1]]))
            elif c[0] == "cb":
                out[owner[c[1]]].append((t, ["cb", c[1]]))
    return out


def judge_f(sim, got, r):
    horizon = sim["raised_at"]
    for ti, exp in sim["exp"].items():
        g = got.get(ti, [])
        if horizon is not None:
            g = [x for x in g if x[0] is not None and x[0] <= horizon]
        if g != exp:
            for j, (a, b) in enumerate(zip(g + [None] * len(exp), exp + [None] * len(g))):
                if a != b:
                    return "track %d, event %d: performed (tick, what) = %r, exact onset (tick, what) = %r" % (ti, j, a, b)
    if horizon is None:
        idx, now, tts = r["times"][-1]
        if abs(now - float(sim["T"])) > 1e-9:
            return "Timeline.current_time = %r beats at the end, exact sum of the tick durations = %s" % (now, sim["T"])
        for ti, want in sim["clock"].items():
            if ti in r["final_ids"] and abs(tts[ti] - float(want)) > 1e-9:
                return ("track %d is still scheduled and Track.current_time = %r beats, Timeline.current_time - start = %s = %r "
                        "(its clock has not advanced once per tick)" % (ti, tts[ti], want, float(want)))
    return None


def oracle_f(sc, r):
    sim = sc["_sim"]
    got = observed_f(sc, r)
    d1 = judge_f(sim, got, r)
    if d1 is None:
        return True, ""
    if not sc["_f"]["tolerant"] or not sim["fault_ticks"]:
        return False, d1
    import itertools
    best = None
    for bits in itertools.product([True, False], repeat=3):
        if not any(bits):
            continue
        world = simulate_f(sc["_f"], keep=bits)
        d2 = judge_f(world, got, r)
        if d2 is None:
            return True, ""
        # which world is the implementation in?  a faulted track that was heard again after its fault has been kept
        heard = [ti for ti in world["faulted"] if any(x[0] is not None and x[0] > world["fault_ticks"][0] for x in got.get(ti, []))]
        if best is None and heard and all(ti in world["faulted"] and ti not in world["dead"] for ti in heard):
            best = d2
    return False, ("(the track whose tick raised stays scheduled) " + best) if best else d1


def strip(sc):
    return {k: v for k, v in sc.items() if k not in ("_o", "_w", "_sim", "_f")}


def base_judge(run, scs, fin, results, first=0):
    """oracle verdicts and distribution of the ordinary histories; returns the indices the oracle rejected"""
    bad_oracle = set()
    for i, (sc, fsc, r) in enumerate(zip(scs, fin, results)):
        run.count()
        run.dist("tpb.%d" % sc["tpb"]); run.dist("kind." + sc["meta"]["kind"])
        if sc["tpb"] % 512 == 0:
            run.dist("tpb.multiple-of-512")
            if all(d == F(1, sc["tpb"]) for d in sc["_o"]["durs"]): run.dist("tpb.multiple-of-512.one-event-per-tick")
        if sc["_o"]["nudge"]: run.dist("nudge")
        if sc["_o"].get("muted"): run.dist("mute-unmute")
        if sc["meta"].get("companion"): run.dist("companion-track." + sc["meta"]["companion"])
        if any(F(x).denominator != 1 for x in [d * sc["tpb"] for d in sc["_o"]["durs"]]): run.dist("off-grid-durations")
        if "driver_error" in r:
            run.violation({"kind": "driver-error", "site": "Timeline"}, {"scenario": fsc, "observed": r}, found_input=True)
            bad_oracle.add(i); continue
        ok, detail = oracle(sc, r)
        if ok is None:
            run.discard("oracle: " + detail)
            ok = True
        else:
            run.cov["oracle_evaluations"] += 1
        n_on = sum(1 for _, calls, _, _ in r["obs"] for c in calls if c[0] == "on")
        if n_on >= 2:
            run.nontrivial(json.dumps(fsc, sort_keys=True))
        if not ok:
            bad_oracle.add(i)
            run.violation({"kind": "onset-tick", "site": "Track.tick"}, {
                "scenario": fsc, "meta": sc["meta"], "observed": detail, "oracle": "exact-fraction closed form of the onset tick",
                "trace_head": r["obs"][:12], "python": S.python_snippet(fsc)})
        if first + i < 3:
            run.sample({"meta": sc["meta"], "first_observations": r["obs"][:6]})
    return bad_oracle


def base_term(fsc, r):
    if "driver_error" in r or not S.obs_well_typed(r["obs"]):
        return "false"
    return cheap(S.agrees_term(fsc, r["obs"]))


def base_probe(fsc):
    return cheap("out_of_fuel %s %s" % (S.coq_config(fsc), S.coq_history(fsc)))


def long_pipeline(run, lfin):
    """the long runs, off the critical path: implementation (one interpreter each), then the model (one coqc each)"""
    results = S.run_impl(run, lfin, shards=max(1, len(lfin)))

    def one(k):
        t = base_term(lfin[k], results[k])
        out = run.coqc_text("long%d" % k, HEADER_ALL + "\nDefinition results : list bool := [\n" + t + "\n].\n"
                            "Eval vm_compute in failing results.\n", timeout=3000)
        return bool(parse_nat_list(out))
    with ThreadPoolExecutor(max_workers=max(1, len(lfin))) as ex:
        bad = [k for k, b in enumerate(ex.map(one, range(len(lfin)))) if b]
    return results, bad


def check(run):
    rng = run.rng
    quick = run.tier == "quick"
    n = 1000 if quick else 12000
    scs = [gen_basic(rng, run.tier) for _ in range(n)] + [gen_basic(rng, run.tier, tie=True) for _ in range(n // 7)]
    # quick: long enough for the float drift that repair 2bc35ef removed to show (it showed after 7*10^4 ticks at 24 PPQN and
    # 5*10^5 ticks at 480 PPQN); the runs of several million ticks are the thorough tier's
    longs = [(24, 300000), (480, 600000)] if quick else \
            [(t, 5000000) for t in (24, 48, 96, 100, 480, 960, 1000, 1920)]
    lscs = [gen_long(rng, t, nt) for t, nt in longs]
    wscs = widened_generate(run)
    fin = [G.finalize(strip(sc)) for sc in scs]
    lfin = [G.finalize(strip(sc)) for sc in lscs]
    wfin = [G.finalize(strip(sc)) for sc in wscs]
    with ThreadPoolExecutor(max_workers=3) as ex:
        f_long = ex.submit(long_pipeline, run, lfin)
        f_w = ex.submit(run_impl_w, run, wfin)
        results = S.run_impl(run, fin, shards=14)
        wresults = f_w.result()
        bad_oracle = base_judge(run, scs, fin, results)
        wskip, wterms = widened_judge(run, wscs, wfin, wresults)
        # one batch of case files for all histories
        terms = [base_term(fsc, r) for fsc, r in zip(fin, results)] + wterms
        probes = [base_probe(fsc) for fsc in fin] + ["out_of_fuel_segs %s" % cheap(coq_segments(fsc)) for fsc in wfin]
        bad = run.coq_failing(HEADER_ALL, terms, chunk=48)
        lresults, lbad = f_long.result()
    lbad_oracle = base_judge(run, lscs, lfin, lresults, first=len(fin))
    if lbad:
        bad += [len(terms) + k for k in lbad]
        probes += [base_probe(fsc) for fsc in lfin]
    if bad:
        # a history on which the model itself runs out of fuel (a catch-up loop of thousands of events within one tick) is not
        # described by the model: discarded and counted, not reported
        cand = [i for i in bad if i >= len(terms) or terms[i] != "false"]
        spent = set(cand[j] for j in run.coq_failing(HEADER_ALL, ["negb (%s)" % probes[i] for i in cand], chunk=24))
        for i in spent:
            run.discard("model-out-of-fuel")
        bad = [i for i in bad if i not in spent]
    nb, nt = len(fin), len(terms)
    run.cov["traces_validated_against_impl"] = nt + len(lfin) - len(bad) - len(wskip)
    for i in bad:
        if i < nb:
            if i not in bad_oracle:
                S.report_disagreement(run, fin[i], results[i], "correspondence", "Track.tick", {"meta": scs[i]["meta"]})
        elif i >= nt:
            k = i - nt
            if k not in lbad_oracle:
                S.report_disagreement(run, lfin[k], lresults[k], "correspondence", "Track.tick", {"meta": lscs[k]["meta"]})
    widened_report(run, wscs, wfin, wresults, [i - nb for i in bad if nb <= i < nt])
    run.cov["rule"] = ("one case = one history (ticks; schedule(q, d); ticks [; nudge; ticks]) of a track with a cycle of 1-6 durations "
                       "(on/off grid) at one of 9 resolutions (or a multiple of 512), or a long run (quick: 3*10^5 and 6*10^5 ticks; thorough: 5*10^6), "
                       "or a widened history (resolution re-configured once or twice between "
                       "ticks; events nudging their own track from an action / track callback / timeline callback; 1-3 tracks with a device / pattern / "
                       "callback fault, tolerant or not); distinct by scenario text; "
                       "non-trivial = at least two events performed")
    run.cov["long_runs"] = [{"tpb": t, "ticks": nt_} for t, nt_ in longs]


def replay(run, doc):
    fsc = doc["scenario"]
    widened = doc.get("meta", {}).get("kind") in ("retick", "self-nudge", "fault") or "self_nudge" in fsc or any(o[0] in ("set_tpb", "probe", "set_fail") for o in fsc["ops"])
    if widened:
        r = run_impl_w(run, [fsc], shards=1)[0]
        bad = [0] if "driver_error" in r or not S.obs_well_typed(r["obs"]) else run.coq_failing(HEADER_W, [agrees_term_w(fsc, r["obs"])])
    else:
        r = S.run_impl(run, [fsc], shards=1)[0]
        bad = S.model_disagreements(run, [fsc], [r]) if "driver_error" not in r else [0]
    print("replay: implementation/model agree:", not bad)
    if bad:
        print("implementation:", json.dumps(r.get("obs", r))[:1500])
        print("model:", (model_trace_w(run, fsc) if widened else S.model_trace(run, fsc))[:1500])
        if widened:
            print("Timeline.current_time / Track.current_time read:", r.get("times"), " exact:", doc.get("expected_times"))
    return 1 if bad else 0

"""C01 — event onsets fall on the exact tick of their cumulative duration, drift-free.
Theorems: coq/Props/C01.v over the scheduler model (coq/Sched/Model.v).  Correspondence: histories
(ticks; schedule with quantize/delay; ticks; optional nudge; ticks) run on isobar's Timeline/Track and on the model
inside Coq; long runs (> 10^6 ticks) included.  Oracle: closed form of the onset tick with exact fractions."""
from common import *
import sched_common as S
import sched_gen as G
from fractions import Fraction as F
from math import ceil

PROP = "C01"
META = {
 "engine": "S-scheduler",
 "text": "Coq theorems (Props/C01.v) about the executable model of Track.tick/Timeline.tick (Sched/Model.v), for ALL tick lengths, all event streams with durations >= 1 tick (on or off the tick grid, finite or cyclic) and ALL run lengths (induction over the number of ticks, no bound): event k is performed exactly once, on the first tick at or after start + exact sum of the preceding durations; each onset depends only on that sum (no compounding of rounding); a nudge by x shifts every later onset to the first tick at or after the shifted time; Timeline/Track time after n ticks is n ticks. The model is tied to /repo on every run by a correspondence check: random histories at 9 resolutions incl. off-grid durations (0.1, 1/3, 5/7 ...), quantized/delayed starts, nudges, and runs of 1.2*10^6 ticks (quick) are executed on the real Timeline with a recording OutputDevice and inside Coq (vm_compute) on the model and compared call by call and tick by tick; an independent exact-fraction oracle judges every implementation trace.",
 "note": "Trusted: Coq kernel+VM; the Python harness. Modelled, not verified: IEEE-754 rounding inside isobar (the model computes in exact integer units; round(x, 8) comparisons are exact on grids below 10^8 units per beat, Base/Round8.v) - agreement of the float implementation with the exact model is validated by the correspondence runs, including > 10^6-tick runs, not proved.",
}


def gen_basic(rng, tier):
    tpb = rng.choice(G.TPBS)
    tick = F(1, tpb)
    ncyc = rng.randint(1, 6)
    durs = G.durations_for(rng, tpb, ncyc)
    cyclic = rng.random() < 0.6
    items = [{"k": "note", "dur": d, "note": 40 + i, "amp": 64, "gate": [1, rng.choice([2, 4, 8])], "chan": 0} for i, d in enumerate(durs)]
    k0 = rng.choice([0, 0, 1, 3, tpb, 2 * tpb + 1, rng.randint(0, 4 * tpb)])
    q = rng.choice([None, None, F(0)] + G.QD_POOL)
    d = rng.choice([None, None, F(0)] + G.QD_POOL)
    budget = 2000 if tier == "quick" else 6000
    total = sum(durs)
    n_events_target = rng.randint(3, 40)
    n1 = min(budget, int(ceil(total / ncyc * n_events_target / tick)) + 3 + int(ceil(((q or 0) + (d or 0)) / tick)))
    ops = []
    if k0:
        ops.append(["tick", k0])
    # a companion: a short finite track on another channel, scheduled just before or just after the measured one; it ends
    # (and is removed from the timeline) while the measured track keeps playing - which must not disturb a single onset
    main = 0
    comp = None
    if rng.random() < 0.4:
        cd = G.durations_for(rng, tpb, rng.randint(1, 3))
        citems = [{"k": "note", "dur": x, "note": 80 + i, "amp": 64, "gate": [1, rng.choice([2, 4])], "chan": 1} for i, x in enumerate(cd)]
        comp = G.sched_op(G.stream(citems, False, "psequence"))
        if rng.random() < 0.7:
            ops.append(comp); main = 1
    ops.append(G.sched_op(G.stream(items, cyclic, rng.choice(["scripted", "psequence", "pdict"])), q, d))
    if comp is not None and main == 0:
        ops.append(comp)
    nudge = None
    muted = None
    r_ = rng.random()
    if 0.4 <= r_ < 0.6 and n1 > 8:
        # mute for a while: events that fall due while muted are silent, every other onset is where it would have been
        a = rng.randint(1, n1 - 4)
        m = rng.randint(1, max(1, min(n1 - a - 1, 3 * int(ceil(max(durs) / tick)) + 2)))
        ops += [["tick", a], ["mute", main], ["tick", m], ["unmute", main], ["tick", n1 - a - m]]
        muted = (k0 + a, k0 + a + m)
    elif r_ < 0.4 and n1 > 6:
        a = rng.randint(2, n1 - 2)
        x = rng.choice([tick, 2 * tick, F(1, 3), F(1, 10), F(1, 2), F(1), -tick * rng.randint(0, 1)]) if rng.random() < 0.8 else F(0)
        ops += [["tick", a], ["nudge", main, x], ["tick", n1 - a]]
        nudge = (k0 + a, x)
    else:
        ops.append(["tick", n1])
    sc = {"tpb": tpb, "config": {}, "callbacks": [], "ops": ops,
          "meta": {"kind": "basic", "durs": [str(x) for x in durs], "cyclic": cyclic, "k0": k0, "q": str(q), "d": str(d),
                   "nudge": None if nudge is None else [nudge[0], str(nudge[1])], "muted_ticks": muted,
                   "companion": None if comp is None else ("before" if main == 1 else "after")}}
    sc["_o"] = {"durs": durs, "cyclic": cyclic, "k0": k0, "q": q, "d": d, "nudge": nudge, "muted": muted}
    return sc


def gen_long(rng, tpb, nticks):
    tick = F(1, tpb)
    beats = nticks / tpb
    base = max(1, int(beats / 1500))
    durs = [F(base) + rng.choice([F(1, 3), F(1, 10), F(5, 7), F(0), tick]) for _ in range(rng.randint(1, 3))]
    items = [{"k": "note", "dur": d, "note": 50 + i, "amp": 64, "gate": [1, 4], "chan": 0} for i, d in enumerate(durs)]
    ops = [G.sched_op(G.stream(items, True, "psequence")), ["tick", nticks]]
    sc = {"tpb": tpb, "config": {}, "callbacks": [], "ops": ops,
          "meta": {"kind": "long", "ticks": nticks, "durs": [str(x) for x in durs]}}
    sc["_o"] = {"durs": durs, "cyclic": True, "k0": 0, "q": None, "d": None, "nudge": None}
    return sc


def expected_onsets(o, tpb, total_ticks):
    """closed form, exact: list of (tick, event index) for events performed before total_ticks"""
    tick = F(1, tpb)
    t_call = o["k0"] * tick
    q, d = o["q"] or F(0), o["d"] or F(0)
    X = (q * ceil(t_call / q) if q else t_call) + d
    s = max(o["k0"], ceil(X / tick))
    out = []
    N = F(0)
    shift = F(0)
    k = 0
    durs = o["durs"]
    while True:
        if not o["cyclic"] and k >= len(durs):
            break
        # a nudge made before tick a shifts every event not yet performed by then
        onset = s + ceil((N + shift) / tick)
        if o["nudge"] is not None and shift == 0 and o["nudge"][1] != 0:
            a, x = o["nudge"]
            # a nudge made before the track has started is overwritten by start() and has no effect
            started = (not q and not d) or s < a
            if started and onset >= a:
                shift = x
                if s + ceil((N + shift) / tick) < a:
                    # a negative nudge that moves the next onset into the past: "shifted by exactly x" cannot be
                    # met by any scheduler (the tick has gone); the property does not say what happens - not judged
                    return None
                onset = max(a, s + ceil((N + shift) / tick))
        if onset >= total_ticks:
            break
        out.append((onset, k))
        N += durs[k % len(durs)]
        k += 1
    return out


def oracle(sc, r):
    """judge the implementation's trace alone; returns (ok, detail)"""
    o = sc["_o"]
    tpb = sc["tpb"]
    idx = S.tick_indices(sc)
    total = sum(1 for k, _ in idx if k == "tick")
    ons = []
    for i, calls, res, ids in r["obs"]:
        kind, t = idx[i]
        for c in calls:
            if c[0] == "on" and c[3] == 0:          # the measured track plays on channel 0 (a companion on channel 1)
                ons.append((t, c[1]))
    exp = expected_onsets(o, tpb, total)
    if exp is None:
        return None, "nudge into the past"
    if o.get("muted"):
        exp = [(t, k) for t, k in exp if not (o["muted"][0] <= t < o["muted"][1])]
    expn = [(t, 40 + (k % len(o["durs"])) if sc["meta"]["kind"] == "basic" else 50 + (k % len(o["durs"]))) for t, k in exp]
    if ons != expn:
        for j, (a, b) in enumerate(zip(ons + [None] * len(expn), expn + [None] * len(ons))):
            if a != b:
                return False, "event %d: performed (tick, note) = %r, exact onset (tick, note) = %r" % (j, a, b)
    if abs(r["now_ticks"] - total) > 1e-6:
        return False, "Timeline.current_time = %r ticks after %d ticks" % (r["now_ticks"], total)
    return True, ""


def strip(sc):
    return {k: v for k, v in sc.items() if k != "_o"}


def check(run):
    rng = run.rng
    n = 1200 if run.tier == "quick" else 12000
    scs = [gen_basic(rng, run.tier) for _ in range(n)]
    longs = [(24, 1200000), (480, 1200000)] if run.tier == "quick" else \
            [(t, 5000000) for t in (24, 48, 96, 100, 480, 960, 1000, 1920)]
    scs += [gen_long(rng, t, nt) for t, nt in longs]
    fin = [G.finalize(strip(sc)) for sc in scs]
    results = S.run_impl(run, fin, shards=14)
    bad_oracle = set()
    for i, (sc, fsc, r) in enumerate(zip(scs, fin, results)):
        run.count()
        run.dist("tpb.%d" % sc["tpb"]); run.dist("kind." + sc["meta"]["kind"])
        if sc["_o"]["nudge"]: run.dist("nudge")
        if sc["_o"].get("muted"): run.dist("mute-unmute")
        if sc["meta"].get("companion"): run.dist("companion-track." + sc["meta"]["companion"])
        if any(F(x).denominator != 1 for x in [d * sc["tpb"] for d in sc["_o"]["durs"]]): run.dist("off-grid-durations")
        if "driver_error" in r:
            run.violation({"kind": "driver-error", "site": "Timeline"}, {"scenario": fsc, "observed": r}, found_input=True)
            bad_oracle.add(i); continue
        ok, detail = oracle(sc, r)
        if ok is None:
            run.discard("oracle: " + detail)
            ok = True
        else:
            run.cov["oracle_evaluations"] += 1
        n_on = sum(1 for _, calls, _, _ in r["obs"] for c in calls if c[0] == "on")
        if n_on >= 2:
            run.nontrivial(json.dumps(fsc, sort_keys=True))
        if not ok:
            bad_oracle.add(i)
            run.violation({"kind": "onset-tick", "site": "Track.tick"}, {
                "scenario": fsc, "meta": sc["meta"], "observed": detail, "oracle": "exact-fraction closed form of the onset tick",
                "trace_head": r["obs"][:12], "python": S.python_snippet(fsc)})
        if i < 3:
            run.sample({"meta": sc["meta"], "first_observations": r["obs"][:6]})
    bad = S.model_disagreements(run, fin, results, chunk=24)
    run.cov["traces_validated_against_impl"] = len(fin) - len(bad)
    for i in bad:
        if i in bad_oracle:
            continue
        S.report_disagreement(run, fin[i], results[i], "correspondence", "Track.tick", {"meta": scs[i]["meta"]})
    run.cov["rule"] = ("one case = one history (ticks; schedule(q, d); ticks [; nudge; ticks]) of a track with a cycle of 1-6 durations "
                       "(on/off grid) at one of 9 resolutions, or a > 10^6-tick run; distinct by scenario text; non-trivial = at least two note-ons performed")
    run.cov["long_runs"] = [{"tpb": t, "ticks": nt} for t, nt in longs]


def replay(run, doc):
    fsc = doc["scenario"]
    r = S.run_impl(run, [fsc], shards=1)[0]
    bad = S.model_disagreements(run, [fsc], [r]) if "driver_error" not in r else [0]
    print("replay: implementation/model agree:", not bad)
    if bad:
        print("implementation:", json.dumps(r.get("obs", r))[:1500])
        print("model:", S.model_trace(run, fsc)[:1500])
    return 1 if bad else 0

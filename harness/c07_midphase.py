"""C07, stratum "mid-phase": the set of tracks changes DURING the track phase of a tick.  Action events of "caller" tracks
run callbacks that unschedule / mute / unmute another track (at an earlier or a later position of Timeline.tracks), stop
their own track, or schedule a new track, on ticks on which the neighbours have events due.

Model: Sched/Model.v as it stands (callbacks perform timeline operations: exec_cb_ops inside tick_one; the turns are taken
over the snapshot of ids).  Theorems: C07_merge_cb (the merge theorem for configurations whose callbacks perform
operations on tracks other than the observed one), C07_snapshot_* in Props/C07.v; lemmas Sched/MergeCbProofs.v.

Oracle (plain Python, from the property text; exact Fractions): every track produces in the joint run exactly what it
produces alone -
  * a bystander and a caller: its solo run (a caller's callbacks keep only the operations aimed at the caller itself);
  * a victim: its solo run with the same operations applied from outside, before the tick of the callback if the victim's
    turn comes after the caller's (it must not play any more in that tick / must already be muted), after it otherwise;
  * a track scheduled by a callback: its solo run, scheduled after that tick (it takes no turn in the tick that created
    it) - or, with a delay, before that tick (the delay counts from the tick of the callback);
the ticks on which callbacks run are computed in closed form from the callers' streams.  Inside a tick: note-offs first,
events grouped by track in scheduling order (tracks created by callbacks after the original ones, in creation order)."""
from common import *
import sched_common as S
import sched_gen as G
from fractions import Fraction as F
import itertools

MIDCB_INSTANCE = """
Definition merge_cb_instance (i : nat) (ch : Z) (mine : list nat) (cfg : config) (h : list (op * Z)) (solo_calls : list (list call)) : bool :=
  uncoupled_cb i (on_channel ch) (one_of mine) cfg && hist_wf i (on_channel ch) (one_of mine) 0 (expand h)
  && ticks_wf i cfg 0 (expand h) && all_ticks_ok cfg tl0 (expand h)
  && list_eqb (list_eqb call_eqb) (tick_calls cfg (tl_at i) (solo i 0 (expand h))) solo_calls.
"""


def note(d, pitch, chan, gate):
    return {"k": "note", "dur": d, "note": pitch, "amp": 64 + ((pitch[0] if isinstance(pitch, list) else pitch) % 40), "gate": list(gate), "chan": chan}


def plain_stream(rng, tpb, g, chan, long=False):
    """a neighbour: notes (some legato, some chords), controls, on the grid g so that it coincides with the callers"""
    n = rng.randint(2, 6)
    items = []
    pitch = rng.randint(40, 80)
    for j in range(n):
        d = g * rng.choice([1, 1, 2, 3])
        r = rng.random()
        if r < 0.15:
            items.append({"k": "control", "dur": d, "ctl": rng.randint(0, 119), "val": rng.randint(0, 127), "prog": 0, "chan": chan})
        elif r < 0.25:
            items.append(note(d, [pitch, pitch + 4], chan, (1, 2)))
        else:
            items.append(note(d, pitch + j, chan, rng.choice([(1, 2), (1, 1), (1, 1), (3, 2), (2, 1)])))
    cyclic = long or rng.random() < 0.6
    return G.stream(items, cyclic, rng.choice(["scripted", "psequence", "pdict"]) if all(i["k"] == "note" and not isinstance(i["note"], list) for i in items) else "scripted")


def gen_desc(rng):
    tpb = rng.choice([1, 2, 4, 4, 8])
    tick = F(1, tpb)
    g = tick * rng.choice([1, 1, 2])
    k = rng.choice([3, 3, 4, 4, 5, 6])
    chans = rng.sample(range(12), k)
    ncall = 1 if k == 3 or rng.random() < 0.6 else 2
    roles = ["caller"] * ncall + ["other"] * (k - ncall)
    rng.shuffle(roles)
    T0 = rng.choice([0, 0, 1, 3])
    horizon = T0 + rng.choice([12, 20, 32])
    tracks, cbs, news = [], [], []
    others = [j for j in range(k) if roles[j] == "other"]
    for j in range(k):
        if roles[j] != "caller":
            tracks.append({"chan": chans[j], "role": "other", "stream": plain_stream(rng, tpb, g, chans[j], long=rng.random() < 0.5),
                           "count": rng.choice([None, None, None, 4]), "rwd": rng.random() < 0.8})
            continue
        # a caller: action events (callbacks with operations) and a few notes of its own, every event g, 2g or 3g long
        items = []
        nact = rng.randint(1, 3)
        lead = rng.choice([0, 0, 1, 2])              # events before the first action, so that the neighbours are in mid-flight
        for _ in range(lead):
            items.append(note(g * rng.choice([1, 2]), 30 + j, chans[j], (1, 2)))
        for a in range(nact):
            ops = []
            for _ in range(rng.choice([1, 1, 2])):
                kind = rng.choice(["unschedule", "unschedule", "unschedule", "mute", "unmute", "schedule", "schedule", "stop-self"])
                if kind == "stop-self":
                    ops.append(["unschedule", j])
                elif kind == "schedule":
                    ch = 12 + len(news)
                    if ch > 15:
                        continue
                    news.append({"chan": ch, "stream": plain_stream(rng, tpb, g, ch), "count": rng.choice([None, 2, 3]),
                                 "rwd": True, "d": rng.choice([None, None, None, g, 2 * g])})
                    ops.append(["schedule", len(news) - 1])
                else:
                    ops.append([kind, rng.choice(others)])
            # an operation that can raise (unschedule of a track that has left) ends the callback: at most one, and last
            uns = [o for o in ops if o[0] == "unschedule"]
            ops = [o for o in ops if o[0] != "unschedule"] + uns[:1]
            cbs.append({"raise": rng.choice(["none", "none", "exc"]), "ops": ops, "owner": chans[j]})
            items.append({"k": "action", "cb": len(cbs) - 1, "dur": g * rng.choice([1, 2, 3])})
            if rng.random() < 0.4:
                items.append(note(g * rng.choice([1, 2]), 35 + j, chans[j], (1, 1)))
        cyclic = rng.random() < 0.35
        tracks.append({"chan": chans[j], "role": "caller", "stream": G.stream(items, cyclic, "scripted"),
                       "count": rng.choice([2, 3, 5]) if cyclic else rng.choice([None, None, 2]), "rwd": True})
    victims = set(o[1] for c in cbs for o in c["ops"] if o[0] in ("unschedule", "mute", "unmute"))
    for j in victims:
        if tracks[j]["role"] == "other":
            tracks[j]["role"] = "victim"
    for t in tracks:
        if t["role"] == "other":
            t["role"] = "bystander"
    return {"tpb": tpb, "g": g, "T0": T0, "horizon": horizon, "tracks": tracks, "callbacks": cbs, "news": news,
            "config": {"ignore": rng.random() < 0.5, "stop_when_done": False}}


# ---- closed form: when do the callbacks run ------------------------------------------------------------------
def firings(desc, order):
    """[(tick, caller index, callback index)] in the order the callbacks run: a caller's event j is due on tick
    T0 + (sum of the durations before it) / tick; it performs min(count, length) events, none after it stopped itself"""
    tick = F(1, desc["tpb"])
    out = []
    for j, t in enumerate(desc["tracks"]):
        if t["role"] != "caller":
            continue
        items = t["stream"]["items"]
        pos, N, n = 0, F(0), 0
        while True:
            if t["count"] not in (None, 0) and n >= t["count"]:
                break
            if pos >= len(items):
                if not t["stream"]["cyclic"]:
                    break
                pos = 0
            it = items[pos]
            at = desc["T0"] + N / tick
            assert at.denominator == 1
            at = int(at)
            if at >= desc["horizon"]:
                break
            stop = False
            if it["k"] == "action":
                out.append((at, j, it["cb"]))
                cb = desc["callbacks"][it["cb"]]
                # the operations run in order until one raises (unschedule of an absent track); a stop-self that succeeds ends the caller
                stop = any(o == ["unschedule", j] or o[0] == "clear" for o in cb["ops"])
            N += it["dur"]; pos += 1; n += 1
            if stop:
                break
    out.sort(key=lambda x: (x[0], order.index(x[1])))
    return out


def fates(desc, order):
    """per original track: {tick: [ops applied from outside before that tick]}; per new template: ticks before which it is scheduled"""
    fate = {j: {} for j in range(len(desc["tracks"]))}
    born = []           # (insert-before tick, template index), in creation order
    for at, j, ci in firings(desc, order):
        for o in desc["callbacks"][ci]["ops"]:
            if o[0] == "schedule":
                tpl = desc["news"][o[1]]
                born.append((at if tpl["d"] else at + 1, o[1]))
            elif o[0] == "clear":           # (scene changes of C06: clear() first, then the new tracks) every other original track is removed
                for x in range(len(desc["tracks"])):
                    if x != j:
                        fate[x].setdefault(at if order.index(x) > order.index(j) else at + 1, []).append("unschedule")
            elif o[1] != j:
                x = o[1]
                when = at if order.index(x) > order.index(j) else at + 1
                fate[x].setdefault(when, []).append(o[0])
    return fate, born


# ---- scenarios ---------------------------------------------------------------------------------------------------
def sched_of(t):
    return G.sched_op(t["stream"], None, t.get("d"), t.get("count"), t.get("rwd", True), None, True)


def ops_from(events, horizon):
    ops, prev = [], 0
    for T in sorted(events):
        if T >= horizon:
            continue
        if T > prev:
            ops.append(["tick", T - prev]); prev = T
        ops += events[T]
    if horizon > prev:
        ops.append(["tick", horizon - prev])
    return ops


def joint_scenario(desc, order):
    ids = {j: n for n, j in enumerate(order)}
    cbs = []
    for c in desc["callbacks"]:
        ops = []
        for o in c["ops"]:
            ops.append(sched_of(desc["news"][o[1]]) if o[0] == "schedule" else ["clear"] if o[0] == "clear" else [o[0], ids[o[1]]])
        cbs.append({"raise": c["raise"], "ops": ops})
    events = {desc["T0"]: [sched_of(desc["tracks"][j]) for j in order]}
    return {"tpb": desc["tpb"], "config": dict(desc["config"]), "callbacks": cbs, "ops": ops_from(events, desc["horizon"])}, ids


def solo_scenario(desc, order, j):
    """original track j alone; its own callbacks keep the operations aimed at j (now id 0); what the others' callbacks do to
    it is applied from outside at the ticks the closed form gives"""
    fate, _ = fates(desc, order)
    cbs = []
    for c in desc["callbacks"]:
        mine = c["owner"] == desc["tracks"][j]["chan"]
        cbs.append({"raise": c["raise"], "ops": [["unschedule", 0] if o[0] == "clear" else [o[0], 0] for o in c["ops"]
                                                 if mine and o[0] != "schedule" and (o[0] == "clear" or o[1] == j)]})
    events = {desc["T0"]: [sched_of(desc["tracks"][j])]}
    for when, names in fate[j].items():
        events.setdefault(when, [])
        events[when] = events[when] + [[nm, 0] for nm in names]
    return {"tpb": desc["tpb"], "config": dict(desc["config"]), "callbacks": cbs, "ops": ops_from(events, desc["horizon"])}


def solo_new_scenario(desc, order, tpl_index):
    """every instance of the track template that callbacks schedule, alone"""
    _, born = fates(desc, order)
    events = {}
    for when, ti in born:
        if ti == tpl_index:
            events.setdefault(when, []).append(sched_of(desc["news"][ti]))
    cbs = [{"raise": c["raise"], "ops": []} for c in desc["callbacks"]]
    return {"tpb": desc["tpb"], "config": dict(desc["config"]), "callbacks": cbs, "ops": ops_from(events, desc["horizon"])}


# ---- oracle ----------------------------------------------------------------------------------------------------------
def oracle(C, desc, order, jsc, jr, solos, new_solos):
    bad = []
    cb_owner = {i: c["owner"] for i, c in enumerate(desc["callbacks"])}
    J = C.per_tick(jsc, jr)
    fate, born = fates(desc, order)
    rank = {desc["tracks"][j]["chan"]: n for n, j in enumerate(order)}
    seq = {}
    for n, (when, ti) in enumerate(born):
        seq.setdefault(desc["news"][ti]["chan"], len(order) + n)      # all instances of a template share its channel: first rank counts
    for t, (calls, res, ids) in enumerate(J):
        if res != "ok":
            bad.append(("tick-raised", "tick %d of the joint run ended with %r" % (t, res))); break
        seen_event, last = False, -1
        for c in calls:
            if c[0] == "off":
                if seen_event:
                    bad.append(("note-off-after-event", "tick %d: %r comes after an event of the same tick: %r" % (t, c, calls))); break
                continue
            seen_event = True
            ch = C.owner_of(c, cb_owner)
            rk = rank.get(ch, seq.get(ch))
            if rk is None:
                bad.append(("unowned-call", "tick %d: call %r belongs to no track of the scenario" % (t, c))); break
            if ch in rank:
                if rk < last:
                    bad.append(("track-order", "tick %d: events are not grouped by track in scheduling order: %r (ranks by channel %r)" % (t, calls, rank))); break
                last = rk
            elif last < len(order):
                last = len(order)       # tracks created by callbacks come after every original track
    def compare(ch, Sd, what):
        if len(Sd) != len(J):
            bad.append(("harness", "solo/joint tick counts differ")); return
        for t in range(len(J)):
            pj = [c for c in J[t][0] if C.owner_of(c, cb_owner) == ch]
            if pj != Sd[t][0]:
                bad.append(("projection", "%s on channel %d: tick %d of the joint run has %r for it, alone it produces %r (callbacks ran on ticks %r)"
                            % (what, ch, t, pj, Sd[t][0], [(a, desc["tracks"][j]["chan"], desc["callbacks"][ci]["ops"]) for a, j, ci in firings(desc, order)][:8])))
                return
    for j, (ssc, sr) in solos.items():
        tr = desc["tracks"][j]
        Sd = C.per_tick(ssc, sr)
        compare(tr["chan"], Sd, "the %s (scheduling rank %d)" % (tr["role"], order.index(j)))
        jid = order.index(j)
        # a victim placed before its caller has had its turn when the callback removes it: it is gone at the end of THAT tick,
        # while the operation from outside can only be made after the tick
        late = set(when - 1 for when, names in fate[j].items() if "unschedule" in names)
        for t in range(min(len(J), len(Sd))):
            if t in late:
                continue
            if (jid in J[t][2]) != (0 in Sd[t][2]):
                bad.append(("presence", "%s on channel %d: after tick %d it is %s in the joint timeline but %s when it runs alone"
                            % (tr["role"], tr["chan"], t, "present" if jid in J[t][2] else "absent", "present" if 0 in Sd[t][2] else "absent")))
                break
    for ti, (ssc, sr) in new_solos.items():
        compare(desc["news"][ti]["chan"], C.per_tick(ssc, sr), "the track scheduled by a callback")
    # the number of tracks: originals still there + tracks created so far that have not finished
    return bad


# ---- the stratum --------------------------------------------------------------------------------------------------------
def midphase_part(run, n_desc, with_instances=True):
    import c07 as C
    rng = run.rng
    descs, jobs, scs = [], [], []
    for di in range(n_desc):
        desc = gen_desc(rng)
        descs.append(desc)
        k = len(desc["tracks"])
        orders = [list(range(k))]
        perms = list(itertools.permutations(range(k)))
        orders.append(list(rng.choice(perms[1:])))
        if k == 3 and rng.random() < 0.3:
            orders = [list(p) for p in perms]
        for order in orders:
            sc, ids = joint_scenario(desc, order)
            jobs.append((di, order, "joint", None)); scs.append(sc)
            for j in range(k):
                jobs.append((di, order, "solo", j)); scs.append(solo_scenario(desc, order, j))
            _, born = fates(desc, order)
            for ti in sorted(set(ti for _, ti in born)):
                jobs.append((di, order, "new", ti)); scs.append(solo_new_scenario(desc, order, ti))
    import c07_coq as Q
    groups = [di for di, _, _, _ in jobs]
    first = {}
    for j, di in enumerate(groups):
        first.setdefault(di, j)
    fin = [Q.finalize_group(G, [sc], scs[first[groups[j]]])[0] for j, sc in enumerate(scs)]
    results = S.run_impl(run, fin, shards=14)
    flagged = set()
    index = {}
    for j, (di, order, kind, x) in enumerate(jobs):
        index[(di, tuple(order), kind, x)] = j
    for j, (di, order, kind, x) in enumerate(jobs):
        run.count()
        r = results[j]
        if "driver_error" in r:
            flagged.add(j)
            run.violation({"kind": "driver-error", "site": "Timeline"}, {"part": "midphase", "scenario": fin[j], "observed": r}, found_input=True)
            continue
        if kind != "joint":
            run.dist("midphase.solo-runs")
            continue
        desc = descs[di]
        k = len(desc["tracks"])
        run.dist("midphase.joint-runs"); run.dist("midphase.tracks.%d" % k)
        solos, new_solos, broken = {}, {}, False
        for jj in range(k):
            sj = index[(di, tuple(order), "solo", jj)]
            broken |= "driver_error" in results[sj]
            solos[jj] = (scs[sj], results[sj])
        _, born = fates(desc, order)
        for ti in sorted(set(ti for _, ti in born)):
            sj = index[(di, tuple(order), "new", ti)]
            broken |= "driver_error" in results[sj]
            new_solos[ti] = (scs[sj], results[sj])
        if broken:
            continue
        fire = firings(desc, order)
        J = C.per_tick(scs[j], r)
        cb_owner = {i: c["owner"] for i, c in enumerate(desc["callbacks"])}
        for at, cj, ci in fire:
            for o in desc["callbacks"][ci]["ops"]:
                tag = "stop-self" if (o[0] == "unschedule" and o[1] == cj) else o[0]
                run.dist("midphase.callback-op." + tag)
                if o[0] != "schedule" and o[1] != cj:
                    run.dist("midphase.target-%s-the-caller" % ("after" if order.index(o[1]) > order.index(cj) else "before"))
            others_due = set(C.owner_of(c, cb_owner) for c in J[at][0] if c[0] != "off") - {desc["tracks"][cj]["chan"]} if at < len(J) else set()
            if others_due:
                run.dist("midphase.callback-ticks-on-which-a-neighbour-plays")
                # a neighbour placed AFTER the caller has an event due on the tick the track list shrinks / grows
                if any(rk > order.index(cj) for rk in [order.index(jj) for jj in range(k) if desc["tracks"][jj]["chan"] in others_due]):
                    run.dist("midphase.neighbour-after-the-caller-plays-on-that-tick")
        if fire:
            run.nontrivial(json.dumps(fin[j], sort_keys=True))
        bad = oracle(C, desc, order, scs[j], r, solos, new_solos)
        run.cov["oracle_evaluations"] += 1
        seen = set()
        for kind_, detail in bad:
            if kind_ in seen:
                continue
            seen.add(kind_); flagged.add(j)
            run.violation({"kind": kind_, "site": "Timeline.tick/callbacks"}, {
                "part": "midphase", "scenario": fin[j], "observed": detail, "order": order,
                "solo_scenarios": {str(desc["tracks"][jj]["chan"]): G.finalize(solos[jj][0]) for jj in solos},
                "new_track_scenarios": {str(desc["news"][ti]["chan"]): G.finalize(new_solos[ti][0]) for ti in new_solos},
                "cb_owner": cb_owner, "roles": {str(t["chan"]): t["role"] for t in desc["tracks"]},
                "oracle": "every track = what it produces alone (a victim: with the callback's operation applied from outside before / after that tick "
                          "according to its position; a track scheduled by a callback: scheduled after that tick); note-offs first; events grouped by track",
                "trace_head": r["obs"][:30], "python": S.python_snippet(fin[j])})
        if di % 40 == 0 and order == list(range(k)):
            run.sample({"family": "midphase", "tracks": [(t["chan"], t["role"]) for t in desc["tracks"]],
                        "callbacks": [c["ops"] for c in desc["callbacks"]], "callback_ticks": fire[:6], "first_observations": r["obs"][:4]})
    bad = Q.model_disagreements_shared(run, S, fin, results, groups, target=40, name="midagree")
    run.cov["traces_validated_against_impl"] += len(fin) - len(bad)
    for j in [x for x in bad if x not in flagged][:2]:        # same signature: one report is printed; do not evaluate the model trace for all
        S.report_disagreement(run, fin[j], results[j], "correspondence", "Timeline/Track (callbacks changing the track list mid-phase)", extra={"part": "midphase-model"})
    if not with_instances:
        return
    # instances of the generalised merge theorem (C07_merge_cb): for every track whose solo run needs no help from outside -
    # bystanders, callers, tracks nobody's callback aims at - the hypotheses hold for the joint history and Coq's solo run of the
    # theorem makes the calls of the REAL solo run
    terms, where, tgroups = [], [], []
    for j, (di, order, kind, x) in enumerate(jobs):
        if kind != "joint" or j in flagged or j in bad:
            continue
        desc = descs[di]
        fate, _ = fates(desc, order)
        ids = {jj: n for n, jj in enumerate(order)}
        for jj, tr in enumerate(desc["tracks"]):
            aimed = any(o[0] != "schedule" and o[1] == jj and c["owner"] != tr["chan"] for c in desc["callbacks"] for o in c["ops"])
            foreign_ops_of_mine = any(o[0] == "schedule" or o[1] != jj for c in desc["callbacks"] if c["owner"] == tr["chan"] for o in c["ops"])
            if aimed or foreign_ops_of_mine:
                continue
            if desc["T0"] > 0 and any(o[0] == "schedule" for c in desc["callbacks"] for o in c["ops"]):
                # hypothesis ticks_wf of the theorem: a callback may schedule only on ticks after track i got its id; here ticks run
                # on the still empty timeline before the schedule calls.  Judged by the oracle and the model comparison only.
                run.discard("C07_merge_cb instance not applicable: ticks before the tracks exist while a callback schedules (ticks_wf)")
                continue
            sj = index[(di, tuple(order), "solo", jj)]
            if sj in bad or "driver_error" in results[sj]:
                continue
            mine = [ci for ci, c in enumerate(desc["callbacks"]) if c["owner"] == tr["chan"]]
            dense = [calls for calls, _, _ in C.per_tick(scs[sj], results[sj])]
            terms.append("merge_cb_instance %s %s %s %s %s %s" % (
                natlit(ids[jj]), zlit(tr["chan"]), lst([natlit(m) for m in mine]), S.coq_config(fin[j]),
                S.coq_history(fin[j]), lst([lst([S.coq_call(c) for c in calls]) for calls in dense])))
            where.append((j, jj)); tgroups.append(j)
    hdr = S.HEADER + "From Isobar Require Import Sched.TimeProofs Sched.MergeProofs Sched.MergeCbProofs Props.C07.\n" + MIDCB_INSTANCE

    def cands(i0, i1):
        inner, outer = [], []
        for j in dict.fromkeys(w[0] for w in where[i0:i1]):
            a, b = Q.scenario_literals(S, fin[j])
            inner += a; outer += b
        return inner + outer
    badi = Q.failing_shared(run, hdr, terms, cands, Q.bounds_by_group(tgroups, 40), name="midinstance")
    run.cov["merge_cb_theorem_instances_checked"] = run.cov.get("merge_cb_theorem_instances_checked", 0) + len(terms) - len(badi)
    for b in badi[:2]:
        j, jj = where[b]
        S.report_disagreement(run, fin[j], results[j], "merge-cb-instance", "Timeline/Track",
                              extra={"part": "midphase-model",
                                     "broken": "the instance of C07_merge_cb for this history: its hypotheses (uncoupled_cb, hist_wf, ticks_wf, all_ticks_ok) "
                                               "or the equality of the theorem's solo run with the solo run of the implementation", "track": jj})


def replay_midphase(run, doc):
    import c07 as C
    fsc = doc["scenario"]
    r = S.run_impl(run, [fsc], shards=1)[0]
    print("joint run:", json.dumps(r.get("obs", r))[:1500])
    rc = 0
    cb_owner = {int(k): v for k, v in doc["cb_owner"].items()}
    J = C.per_tick(fsc, r)
    for group in ("solo_scenarios", "new_track_scenarios"):
        for ch, ssc in doc.get(group, {}).items():
            sr = S.run_impl(run, [ssc], shards=1)[0]
            Sd = C.per_tick(ssc, sr)
            for t in range(min(len(J), len(Sd))):
                pj = [c for c in J[t][0] if C.owner_of(c, cb_owner) == int(ch)]
                if pj != Sd[t][0]:
                    print("channel %s tick %d: joint %r alone %r" % (ch, t, pj, Sd[t][0])); rc = 1
                    break
    print("replay:", "violation reproduced" if rc else "no projection violation on this input (see 'observed' for other kinds)")
    return rc

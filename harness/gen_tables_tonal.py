#!/venv/bin/python
"""Translator: the BODIES of Scale.get (isobar/scale.py) and Key.get, Key.__contains__, Key.semitones, Key.nearest_note
(isobar/key.py), read from the source text with `ast`, rendered as Gallina -> coq/Generated/TablesTonal.v.
Core: harness/src2coq.py; docs/TRANSLATOR2.md.

  Scale.get(self, n)              -> src_scale_get         (self : scale) (n : option Z)        : option Z     (None = a rest)
  Key.get(self, degree)           -> src_key_get           (self : key)   (degree : option Z)   : option Z
  Key.semitones  (@property)      -> src_key_semitones     (self : key)                         : list Z
  Key.__contains__(self, semitone)-> src_key_contains      (self : key)   (semitone : option Z) : bool
  Key.nearest_note(self, note)    -> src_key_nearest_note  (self : key)   (note : Z)            : Z            (note: an int, not a rest)
  and for each f: src_f_defined ... : bool, true iff no partial operation on the executed path fails (// or % by zero, a list
  index outside 0 <= i < len (l[-k]: k <= len), an optional int that is None used as a number).  Where an operation fails the
  value term has the total Coq counterpart (x / 0 = 0, znth's default 0, 0 for a None used as a number): Tonal/KeySrc.v
  proves the _defined terms true under the hypotheses of the C13 theorems.

Reading of the object model (checked here, fail-closed): the records `scale` (semis, osize) and `key` (tonic, kscale) of
Tonal/Key.v stand for the attributes semitones/octave_size of a Scale and tonic/scale of a Key; in Key methods
`self.semitones` is the property Key.semitones, `self.scale[d]` is Scale.__getitem__ = `return self.get(key)`, `x in self` is
Key.__contains__; `l.sort()` on a list of ints is Tonal/Key.v's isort (KeySrc.isort_sorted_perm: a sorted permutation).
Anything else -> exit 3."""
import ast, sys
from src2coq import Reject, Block, load, find_class, method, plain_args, body_of, lines_of, write_if_changed, main_wrap

DEFAULT = {"optint": "None", "int": "0", "bool": "false", "intlist": "[]"}


class TonalBlock(Block):
    def __init__(self, fn, cls, ret_kind):
        Block.__init__(self, fn, reserved={"semis", "osize", "tonic", "kscale", "znth", "isort", "scale", "key"})
        self.cls, self.ret_kind = cls, ret_kind
        for n in ast.walk(fn):
            if isinstance(n, ast.Name) and n.id == "self" and not isinstance(n.ctx, ast.Load):
                raise Reject("self is assigned")

    def attr(self, n):
        """self.a / self.scale.a -> value"""
        def is_self(x):
            return isinstance(x, ast.Name) and x.id == "self"
        if not isinstance(n, ast.Attribute):
            return None
        if self.cls == "Scale" and is_self(n.value):
            return {"semitones": ("intlist", "(semis self)"), "octave_size": ("int", "(osize self)")}.get(n.attr)
        if self.cls == "Key" and is_self(n.value):
            if n.attr == "semitones":
                self.guards.append("src_key_semitones_defined self")
                return ("intlist", "(src_key_semitones self)")
            return {"tonic": ("int", "(tonic self)")}.get(n.attr)
        if self.cls == "Key" and isinstance(n.value, ast.Attribute) and n.value.attr == "scale" and is_self(n.value.value):
            return {"semitones": ("intlist", "(semis (kscale self))"), "octave_size": ("int", "(osize (kscale self))")}.get(n.attr)
        return None

    def special_expr(self, n, env):
        if isinstance(n, ast.Attribute):
            v = self.attr(n)
            if v is None:
                raise Reject("attribute not understood: " + ast.unparse(n))
            return v
        if isinstance(n, ast.Name) and n.id == "self":
            raise Reject("self used as a value")
        # self.scale[d]  (Scale.__getitem__ -> Scale.get)
        if self.cls == "Key" and isinstance(n, ast.Subscript) and isinstance(n.value, ast.Attribute) and n.value.attr == "scale" \
                and isinstance(n.value.value, ast.Name) and n.value.value.id == "self":
            d = self.ex(n.slice, env)
            arg = self.coerce(d, "optint")
            self.guards.append("src_scale_get_defined (kscale self) %s" % arg)
            return ("optint", "(src_scale_get (kscale self) %s)" % arg)
        # x in self  (Key.__contains__)
        if self.cls == "Key" and isinstance(n, ast.Compare) and len(n.ops) == 1 and isinstance(n.ops[0], ast.In) \
                and isinstance(n.comparators[0], ast.Name) and n.comparators[0].id == "self":
            x = self.ex(n.left, env)
            arg = self.coerce(x, "optint")
            self.guards.append("src_key_contains_defined self %s" % arg)
            return ("bool", "(src_key_contains self %s)" % arg)
        return None

    def special_stmt(self, st, rest, env, go):
        # l.sort() on a local list of ints
        if isinstance(st, ast.Expr) and isinstance(st.value, ast.Call) and isinstance(st.value.func, ast.Attribute) \
                and st.value.func.attr == "sort" and isinstance(st.value.func.value, ast.Name) and not st.value.args and not st.value.keywords:
            name = st.value.func.value.id
            if env.get(name, ("?",))[0] != "intlist":
                raise Reject(".sort() on something that is not a local list of ints")
            return "let %s := isort %s in\n  %s" % (name, env[name][1], go(env))
        return None

    def on_return(self, v, env):
        return self.coerce(v, self.ret_kind)

    def on_type_error(self, st, env):
        return DEFAULT[self.ret_kind]


def translate(cls, name, params, ret_kind, decorators=()):
    """params: [(kind, coq type)] of the arguments after self"""
    fn = method(cls, name, decorators)
    args = plain_args(fn, 1 + len(params))
    if args[0] != "self":
        raise Reject("%s.%s: first argument is not self" % (cls.name, name))
    for n in ast.walk(fn):
        if isinstance(n, (ast.Yield, ast.YieldFrom, ast.Await, ast.Try, ast.With, ast.Global, ast.Nonlocal, ast.Lambda, ast.Break,
                          ast.Continue, ast.Delete, ast.Import, ast.ImportFrom, ast.Assert)) or (isinstance(n, ast.FunctionDef) and n is not fn):
            raise Reject("%s.%s: %s" % (cls.name, name, type(n).__name__))
    b = TonalBlock(fn, cls.name, ret_kind)
    env = {"self": ("self", "self")}
    for a, (kd, _) in zip(args[1:], params):
        env[a] = (kd, a)

    def fall_off(e):
        raise Reject("%s.%s can fall off its end" % (cls.name, name))
    value = b.run(body_of(fn), env, fall_off)
    defined = b.run(body_of(fn), env, fall_off, mode="defined")
    binders = "(self : %s)" % cls.name.lower() + "".join(" (%s : %s)" % (a, ty) for a, (_, ty) in zip(args[1:], params))
    return fn, binders, value, defined


COQTYPE = {"optint": "option Z", "int": "Z", "bool": "bool", "intlist": "list Z"}


def main(out_path):
    sc, ky = load("isobar/scale.py"), load("isobar/key.py")
    Scale, Key = find_class(sc, "Scale"), find_class(ky, "Key")
    # Scale.__getitem__ is `return self.get(key)`; Key has no __getitem__-like redefinition of `in`
    gi = method(Scale, "__getitem__")
    a = plain_args(gi, 2)
    b = body_of(gi)
    if not (len(b) == 1 and isinstance(b[0], ast.Return) and ast.unparse(b[0].value) == "self.get(%s)" % a[1]):
        raise Reject("Scale.__getitem__ is not `return self.get(key)`")
    if Key.bases or [k for k in Key.keywords]:
        raise Reject("Key has base classes")
    if [ast.unparse(x) for x in Scale.bases] != ["object"]:
        raise Reject("Scale has unexpected base classes")
    for cls, names in ((Scale, ("__getattr__", "__getattribute__")), (Key, ("__getattr__", "__getattribute__", "__iter__"))):
        for nm in names:
            if any(isinstance(n, ast.FunctionDef) and n.name == nm for n in cls.body):
                raise Reject("%s defines %s" % (cls.name, nm))
    specs = [
        ("src_scale_get", Scale, "get", [("optint", "option Z")], "optint", ()),
        ("src_key_semitones", Key, "semitones", [], "intlist", ("property",)),
        ("src_key_contains", Key, "__contains__", [("optint", "option Z")], "bool", ()),
        ("src_key_get", Key, "get", [("optint", "option Z")], "optint", ()),
        ("src_key_nearest_note", Key, "nearest_note", [("int", "Z")], "int", ()),
    ]
    text = ""
    where = []
    for coqname, cls, name, params, ret, decs in specs:
        fn, binders, value, defined = translate(cls, name, params, ret, decs)
        where.append("%s.%s: lines %s" % (cls.name, name, lines_of(fn)))
        text += "(* %s.%s, lines %s *)\nDefinition %s %s : %s :=\n  %s.\n\nDefinition %s_defined %s : bool :=\n  %s.\n\n" % (
            cls.name, name, lines_of(fn), coqname, binders, COQTYPE[ret], value, coqname, binders, defined)
    head = ("(* GENERATED by harness/gen_tables_tonal.py from the source text of isobar/scale.py and isobar/key.py.  Do not edit.\n   %s.\n"
            "   The records scale/key, znth (list indexing) and isort (list.sort on ints) come from Tonal/Key.v and Base/Prelude.v. *)\n"
            "From Isobar Require Import Base.Prelude Tonal.Key.\n\n" % "; ".join(where))
    write_if_changed(out_path, head + text, "tables-tonal")


if __name__ == "__main__":
    main_wrap("gen_tables_tonal", main)

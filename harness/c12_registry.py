"""C12: the registry of (class, parameter) pairs that accept a pattern in place of a scalar, derived from the
repository under test on every run (Python `ast`; nothing is imported from isobar here).

For every concrete Pattern subclass of isobar/pattern/*.py and every parameter of its constructor:

  attr      the instance attribute the constructor stores the parameter in (`self.x = x`, `self.x = Pattern.pattern(x)`,
            `self.x = copy.copy(x)`, `self.x = Pattern.value(x)` (resolved at construction: the dynamic check then sees it), or through a forwarded `Parent.__init__(self, ...)` / `super().__init__(...)`)
  mode      how the code reachable from __next__ (the method itself plus the `self.m()` methods it calls) uses it:
              value  passed through Pattern.value(self.attr) / self.value(self.attr)      -> accepts scalar or pattern
              items  every item of the tuple / dict attribute is passed through Pattern.value (PMap's *args, **kwargs)
              next   next(self.attr) / self.attr.nextn(..): an input that must be a pattern
              raw    used as a plain Python value
              unused not used by __next__ (used by __init__ / reset only)
  nvalue    number of textual Pattern.value(self.attr) sites, `in_loop` if one of them is inside a while/for
  overwrite the code assigns Pattern.value(self.attr) back to self.attr (the parameter is lost after the first step)
  raw_elsewhere  a value-resolved attribute is ALSO used as a plain value in __init__/reset (read at construction)
  evidence  which sources say the parameter takes a pattern: "value" (decisive), "hint" (annotation mentions Pattern),
            "doc" (Args: docstring line mentions Pattern), "test" (isobar's tests pass a pattern constructor there)

Fail closed: a class that cannot be analysed raises RegistryError unless it is listed in OUTSIDE with a reason."""
import ast, glob, os, re


class RegistryError(Exception):
    pass


# pattern classes deliberately outside C12, with the reason (reported in the evidence)
OUTSIDE = {
    "PLFO": "wraps a running LFO (hardware clock)",
    "PMIDIControl": "MIDI hardware", "PMonomeArcControl": "monome hardware",
    "PWInterpolate": "warp family: needs a running Timeline", "PWSine": "warp family: needs a running Timeline",
    "PWRallantando": "warp family: needs a running Timeline",
    "PFadeNotewise": "fade family: draws from the global RNG", "PFadeNotewiseRandom": "fade family: draws from the global RNG",
    "PExplorer": "draws from the global RNG",
    "PPatternGeneratorAction": "parameter is a callback",
    "PMapEnumerated": "constructor forwards *args opaquely",
}


def _is_self_attr(node, attr=None):
    return isinstance(node, ast.Attribute) and isinstance(node.value, ast.Name) and node.value.id == "self" \
        and (attr is None or node.attr == attr)


def _only_raises(fn):
    """a method whose body is (a docstring and) `raise NotImplementedError`: a hook the subclasses must fill in"""
    body = [b for b in fn.body if not (isinstance(b, ast.Expr) and isinstance(getattr(b, "value", None), ast.Constant))]
    return len(body) == 1 and isinstance(body[0], ast.Raise) and "NotImplemented" in ast.unparse(body[0])


def _is_value_call(node):
    if not isinstance(node, ast.Call) or len(node.args) != 1:
        return False
    f = node.func
    if isinstance(f, ast.Attribute) and f.attr == "value" and isinstance(f.value, ast.Name) and f.value.id in ("Pattern", "self"):
        return True
    return False


class Source:
    def __init__(self, repo):
        self.repo = repo
        self.classes = {}
        files = sorted(glob.glob(os.path.join(repo, "isobar", "pattern", "*.py")))
        if not files:
            raise RegistryError("no pattern sources under %s" % repo)
        for fn in files:
            tree = ast.parse(open(fn).read(), fn)
            for c in tree.body:
                if isinstance(c, ast.ClassDef):
                    self.classes[c.name] = (c, os.path.basename(fn))

    def bases(self, name):
        c = self.classes[name][0]
        out = []
        for b in c.bases:
            if isinstance(b, ast.Name):
                out.append(b.id)
            elif isinstance(b, ast.Attribute):
                out.append(b.attr)
        return out

    def is_pattern(self, name, seen=()):
        if name == "Pattern":
            return True
        if name not in self.classes or name in seen:
            return False
        return any(self.is_pattern(b, seen + (name,)) for b in self.bases(name))

    def ancestors(self, name):
        out = []
        while name in self.classes:
            bs = self.bases(name)
            if not bs:
                break
            name = bs[0]
            out.append(name)
        return out

    def find_method(self, name, meth):
        """(FunctionDef, owner) along the single-inheritance chain"""
        while name in self.classes:
            for m in self.classes[name][0].body:
                if isinstance(m, ast.FunctionDef) and m.name == meth:
                    return m, name
            bs = self.bases(name)
            if not bs:
                break
            name = bs[0]
        return None, None

    # ---- constructor parameter -> attribute ----------------------------------------------------------
    def params_of(self, init):
        a = init.args
        ps = [(x.arg, "pos", x.annotation) for x in a.args[1:]]
        if a.vararg:
            ps.append((a.vararg.arg, "var", None))
        for x in a.kwonlyargs:
            ps.append((x.arg, "kwonly", x.annotation))
        if a.kwarg:
            ps.append((a.kwarg.arg, "kw", None))
        return ps

    def attr_map(self, cls):
        """{param: attr} for the constructor that `cls` uses"""
        init, owner = self.find_method(cls, "__init__")
        if init is None:
            return {}
        pnames = [p for p, _, _ in self.params_of(init)]
        out = {}

        def name_of(e):
            if isinstance(e, ast.Starred):
                e = e.value
            if isinstance(e, ast.Name) and e.id in pnames:
                return e.id
            if isinstance(e, ast.Call) and len(e.args) == 1 and not e.keywords and isinstance(e.args[0], ast.Name) \
                    and e.args[0].id in pnames and ast.unparse(e.func) in ("Pattern.pattern", "Pattern.value", "copy.copy", "copy.deepcopy"):
                return e.args[0].id
            return None
        for node in ast.walk(init):
            if isinstance(node, ast.Assign) and len(node.targets) == 1 and _is_self_attr(node.targets[0]):
                p = name_of(node.value)
                if p is not None and p not in out:
                    out[p] = node.targets[0].attr
            if isinstance(node, ast.Call):
                f = ast.unparse(node.func)
                parent = None
                if f == "super().__init__":
                    bs = self.bases(owner)
                    parent = bs[0] if bs else None
                    cargs = node.args
                elif f.endswith(".__init__") and node.args and isinstance(node.args[0], ast.Name) and node.args[0].id == "self":
                    parent = f[:-len(".__init__")]
                    cargs = node.args[1:]
                if parent and parent in self.classes:
                    pinit, _ = self.find_method(parent, "__init__")
                    if pinit is None:
                        continue
                    pmap = self.attr_map(parent)
                    pps = self.params_of(pinit)
                    pos = [p for p, k, _ in pps if k == "pos"]
                    var = [p for p, k, _ in pps if k == "var"]
                    kw = [p for p, k, _ in pps if k == "kw"]
                    for i, e in enumerate(cargs):
                        mine = name_of(e)
                        theirs = pos[i] if i < len(pos) else (var[0] if var else None)
                        if isinstance(e, ast.Starred) and i < len(pos):
                            theirs = var[0] if var and i == len(pos) else None
                        if mine and theirs and theirs in pmap and mine not in out:
                            out[mine] = pmap[theirs]
                    for k in node.keywords:
                        mine = name_of(k.value)
                        if mine and k.arg:
                            theirs = k.arg if k.arg in pmap else (kw[0] if kw else None)
                            if theirs in pmap and mine not in out:
                                out[mine] = pmap[theirs]
        return out

    # ---- how __next__ uses an attribute -------------------------------------------------------------
    def reachable(self, cls):
        nxt, owner = self.find_method(cls, "__next__")
        if nxt is None or owner == "Pattern":
            return None
        seen, todo, out = set(), [nxt], []
        while todo:
            m = todo.pop()
            if id(m) in seen:
                continue
            seen.add(id(m))
            out.append(m)
            for node in ast.walk(m):
                if isinstance(node, ast.Call) and _is_self_attr(node.func) and node.func.attr not in ("value", "reset", "seed"):
                    mm, o = self.find_method(cls, node.func.attr)
                    if mm is not None and o != "Pattern":
                        todo.append(mm)
        return out

    def uses(self, methods, attr):
        nv = nn = raw = items = 0
        in_loop = overwrite = False
        for m in methods:
            parents = {}
            for node in ast.walk(m):
                for ch in ast.iter_child_nodes(node):
                    parents[id(ch)] = node

            def inside_loop(n):
                while id(n) in parents:
                    n = parents[id(n)]
                    if isinstance(n, (ast.While, ast.For)):
                        return True
                return False
            consumed = set()
            for node in ast.walk(m):
                if _is_value_call(node) and _is_self_attr(node.args[0], attr):
                    nv += 1
                    consumed.add(id(node.args[0]))
                    in_loop = in_loop or inside_loop(node)
                    par = parents.get(id(node))
                    if isinstance(par, ast.Assign) and any(_is_self_attr(t, attr) for t in par.targets):
                        overwrite = True
                elif isinstance(node, ast.Call) and isinstance(node.func, ast.Name) and node.func.id == "next" \
                        and node.args and _is_self_attr(node.args[0], attr):
                    nn += 1
                    consumed.add(id(node.args[0]))
                elif isinstance(node, ast.Call) and isinstance(node.func, ast.Attribute) and node.func.attr in ("nextn", "all") \
                        and _is_self_attr(node.func.value, attr):
                    nn += 1
                    consumed.add(id(node.func.value))
                elif isinstance(node, (ast.ListComp, ast.GeneratorExp, ast.DictComp, ast.SetComp)):
                    g = node.generators[0]
                    srcs = [n for n in ast.walk(g.iter) if _is_self_attr(n, attr)]
                    body = node.elt if not isinstance(node, ast.DictComp) else node.value
                    if srcs and any(_is_value_call(n) for n in ast.walk(body)):
                        items += 1
                        consumed.update(id(s) for s in srcs)
            for node in ast.walk(m):
                if _is_self_attr(node, attr) and isinstance(node.ctx, ast.Load) and id(node) not in consumed:
                    raw += 1
        return dict(nvalue=nv, nnext=nn, raw=raw, items=items, in_loop=in_loop, overwrite=overwrite)

    def raw_in(self, cls, meth, attr):
        m, owner = self.find_method(cls, meth)
        if m is None or owner == "Pattern":
            return 0
        n = 0
        for node in ast.walk(m):
            if isinstance(node, (ast.Compare, ast.BinOp)):
                n += sum(1 for x in ast.walk(node) if _is_self_attr(x, attr))
        return n

    def doc_mentions(self, cls, param):
        c = self.classes[cls][0]
        init, _ = self.find_method(cls, "__init__")
        docs = [ast.get_docstring(c) or "", (ast.get_docstring(init) or "") if init else ""]
        for d in docs:
            m = re.search(r"^\s*%s\s*\(([^)]*)\)" % re.escape(param), d, re.M)
            if m and "pattern" in m.group(1).lower():
                return True
        return False


def test_evidence(repo, src):
    """{(class, param)}: isobar's own tests pass a pattern constructor call for that parameter"""
    out = set()
    for fn in sorted(glob.glob(os.path.join(repo, "tests", "*.py"))):
        try:
            tree = ast.parse(open(fn).read(), fn)
        except SyntaxError:
            continue
        for node in ast.walk(tree):
            if not isinstance(node, ast.Call):
                continue
            f = node.func
            name = f.attr if isinstance(f, ast.Attribute) else (f.id if isinstance(f, ast.Name) else None)
            if name not in src.classes or not src.is_pattern(name):
                continue
            init, _ = src.find_method(name, "__init__")
            if init is None:
                continue
            ps = src.params_of(init)
            pos = [p for p, k, _ in ps if k == "pos"]
            var = [p for p, k, _ in ps if k == "var"]

            def is_pat_call(e):
                if isinstance(e, ast.Call):
                    g = e.func
                    n = g.attr if isinstance(g, ast.Attribute) else (g.id if isinstance(g, ast.Name) else None)
                    return n in src.classes and src.is_pattern(n)
                return False
            for i, e in enumerate(node.args):
                if is_pat_call(e):
                    out.add((name, pos[i] if i < len(pos) else (var[0] if var else "?")))
            for k in node.keywords:
                if k.arg and is_pat_call(k.value):
                    out.add((name, k.arg))
    return out


def derive(repo):
    """-> (pairs, outside, abstract): pairs = {(cls, param): info}"""
    src = Source(repo)
    tests = test_evidence(repo, src)
    pairs, outside, abstract = {}, {}, []
    for cls in sorted(src.classes):
        if cls == "Pattern" or not src.is_pattern(cls):
            continue
        if cls in OUTSIDE:
            outside[cls] = OUTSIDE[cls]
            continue
        methods = src.reachable(cls)
        if methods is None:
            abstract.append(cls)                       # no __next__ of its own (PStochasticPattern, PBinOp, PWarp, PFade)
            continue
        init, init_owner = src.find_method(cls, "__init__")
        if init is None:
            raise RegistryError("%s: a pattern class with __next__ but without a constructor" % cls)
        amap = src.attr_map(cls)
        # which class defines the code this class runs (a class that inherits both __next__ and the constructor from a base
        # runs the base's code: exercising the one exercises the other) and whether the class itself can be instantiated
        code_owner = (src.find_method(cls, "__next__")[1], init_owner)
        placeholder = sorted(m.name for mm in methods for node in ast.walk(mm)
                             if isinstance(node, ast.Call) and _is_self_attr(node.func)
                             for m, o in [src.find_method(cls, node.func.attr)] if m is not None and _only_raises(m))
        for p, kind, ann in src.params_of(init):
            attr = amap.get(p)
            info = dict(cls=cls, param=p, kind=kind, attr=attr, file=src.classes[cls][1], evidence=[],
                        code_owner=code_owner, bases=src.ancestors(cls), placeholder_methods=placeholder)
            if attr is None:
                info.update(mode="unmapped", nvalue=0, nnext=0, raw=0, items=0, in_loop=False, overwrite=False, raw_elsewhere=0)
            else:
                u = src.uses(methods, attr)
                info.update(u)
                info["mode"] = "value" if u["nvalue"] else "items" if u["items"] else "next" if u["nnext"] else \
                    "raw" if u["raw"] else "unused"
                info["raw_elsewhere"] = (src.raw_in(cls, "__init__", attr) + src.raw_in(cls, "reset", attr)) \
                    if info["mode"] == "value" else 0
            if info["mode"] in ("value", "items"):
                info["evidence"].append("value")
            if ann is not None and "Pattern" in ast.unparse(ann):
                info["evidence"].append("hint")
            if src.doc_mentions(cls, p):
                info["evidence"].append("doc")
            if (cls, p) in tests:
                info["evidence"].append("test")
            pairs[(cls, p)] = info
    if len(pairs) < 60:
        raise RegistryError("only %d (class, parameter) pairs found: the sources were not understood" % len(pairs))
    return pairs, outside, abstract


# ------------------------------------------------------------------------------------------------
# the Coq side's view: which attributes of each `pat` constructor are `arg`, and which of them the step clause
# resolves with `value` / `anext`
# ------------------------------------------------------------------------------------------------
def coq_view(coqdir):
    syn = open(os.path.join(coqdir, "Pat", "Syntax.v")).read()
    m = re.search(r"Inductive pat :=(.*?)\nwith arg :=", syn, re.S)
    if not m:
        raise RegistryError("Pat/Syntax.v: cannot find `Inductive pat`")
    body = re.sub(r"\(\*.*?\*\)", "", m.group(1), flags=re.S)
    ctors = {}
    for line in body.split("\n"):
        mm = re.match(r"\s*\|\s*(P\w+)\s*(.*)$", line)
        if not mm:
            continue
        fields = []
        groups, depth, cur = [], 0, ""
        for ch in mm.group(2):
            if ch == "(":
                depth += 1
                if depth == 1:
                    cur = ""
                    continue
            elif ch == ")":
                depth -= 1
                if depth == 0:
                    groups.append(cur)
                    continue
            if depth >= 1:
                cur += ch
        for grp in groups:
            names, ty = grp.split(":", 1)
            for nm in names.split():
                fields.append((nm, ty.strip()))
        ctors[mm.group(1)] = fields
    step = open(os.path.join(coqdir, "Pat", "Step.v")).read()
    s = step.index("Fixpoint step")
    e = step.index("with anext")
    txt = step[s:e]
    heads = list(re.finditer(r"^      \| (P\w+)((?: \w+)*) =>", txt, re.M))
    view = {}
    for i, h in enumerate(heads):
        name, vars_ = h.group(1), h.group(2).split()
        clause = txt[h.end(): heads[i + 1].start() if i + 1 < len(heads) else len(txt)]
        clause = re.sub(r"\(\*.*?\*\)", "", clause, flags=re.S)
        if name not in ctors:
            raise RegistryError("Step.v has a clause for %s which Syntax.v does not declare" % name)
        fields = ctors[name]
        if len(vars_) != len(fields):
            raise RegistryError("Step.v clause of %s binds %d variables, Syntax.v declares %d fields" % (name, len(vars_), len(fields)))
        for var, (fname, ty) in zip(vars_, fields):
            v = len(re.findall(r"\bvalue f %s\b" % re.escape(var), clause)) + \
                len(re.findall(r"values_of \(value f\) %s\b" % re.escape(var), clause))
            n = len(re.findall(r"\banext f %s\b" % re.escape(var), clause)) + \
                len(re.findall(r"\(anext f\) f %s\b" % re.escape(var), clause))
            view[(name, fname.rstrip("_"))] = dict(type=ty, value=v, anext=n)
    missing = [c for c in ctors if not any(k[0] == c for k in view)]
    if missing:
        raise RegistryError("no step clause found for %s" % missing)
    return view

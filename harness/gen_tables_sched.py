#!/venv/bin/python
"""Translator: the scheduled-time computation of Timeline._schedule_action (isobar/timelines/timeline.py), read from the
source text with `ast`, rendered as Gallina -> coq/Generated/TablesSched.v.  Core: harness/src2coq.py; docs/TRANSLATOR2.md.

  the statements of _schedule_action up to `action = Action(scheduled_time, function)`
        -> src_sched_time          (current_time quantize delay : Z) : Z      the first argument of Action(...)
           src_sched_time_defined  (current_time quantize delay : Z) : bool   the reading of round(t / q, 8) below needs q > 0

Numbers.  Times (self.current_time, quantize, delay, scheduled_time) are floats in the code; they are translated as EXACT
multiples of 1/U beat, represented by their integer numerators ("time"; U is any common denominator, it does not occur in
the terms).  float(x) of a time is x; time + time is exact; int * time is exact; the truth value of a time is `<> 0`;
time / time is the exact quotient a/b and is only accepted as the argument of round(., 8), rendered Base/Round8.v's
r8 b a = a/b rounded half-even to 8 decimals in units of 10^-8 (for b > 0: recorded in src_sched_time_defined);
math.ceil of such a value n is py_ceil8 n = -((-n) / 10^8), an int.  The binary64 rounding of the quotient, of the product
and of the sum is NOT in this translation (harness/c05.py observes the running code on grids where they are exact).
Anything else -> exit 3.  Sched/SchedTimeSrc.v relates src_sched_time to the model's sched_time."""
import ast, sys
from src2coq import Reject, Block, load, find_class, method, body_of, lines_of, write_if_changed, main_wrap


class SchedBlock(Block):
    def special_expr(self, n, env):
        if isinstance(n, ast.Attribute):
            if isinstance(n.value, ast.Name) and n.value.id == "self" and n.attr == "current_time":
                return ("time", "current_time")
            raise Reject("attribute not understood: " + ast.unparse(n))
        if isinstance(n, ast.Call) and isinstance(n.func, ast.Name) and n.func.id == "float" and len(n.args) == 1 and not n.keywords:
            a = self.ex(n.args[0], env)
            if a[0] != "time":
                raise Reject("float() of a %s" % a[0])
            return a
        if isinstance(n, ast.Call) and isinstance(n.func, ast.Name) and n.func.id == "round" and not n.keywords and len(n.args) == 2 \
                and isinstance(n.args[1], ast.Constant) and type(n.args[1].value) is int and n.args[1].value == 8:
            q = n.args[0]
            if not (isinstance(q, ast.BinOp) and isinstance(q.op, ast.Div)):
                raise Reject("round(., 8) of something else than a quotient of two times")
            a, b = self.ex(q.left, env), self.ex(q.right, env)
            if a[0] != "time" or b[0] != "time":
                raise Reject("round(., 8) of something else than a quotient of two times")
            self.guards.append("(0 <? %s)" % b[1])
            return ("r8u", "(r8 %s %s)" % (b[1], a[1]))
        if isinstance(n, ast.Call) and isinstance(n.func, ast.Attribute) and isinstance(n.func.value, ast.Name) \
                and n.func.value.id == "math" and n.func.attr == "ceil" and len(n.args) == 1 and not n.keywords:
            a = self.ex(n.args[0], env)
            if a[0] != "r8u":
                raise Reject("math.ceil of a %s" % a[0])
            return ("int", "(py_ceil8 %s)" % a[1])
        if isinstance(n, ast.BinOp) and type(n.op) in (ast.Add, ast.Sub, ast.Mult):
            saved = list(self.guards)
            a, b = self.ex(n.left, env), self.ex(n.right, env)
            if a[0] == "time" and b[0] == "time" and type(n.op) in (ast.Add, ast.Sub):
                return ("time", "(%s %s %s)" % (a[1], "+" if isinstance(n.op, ast.Add) else "-", b[1]))
            if isinstance(n.op, ast.Mult) and sorted((a[0], b[0])) == ["int", "time"]:
                return ("time", "(%s * %s)" % (a[1], b[1]))
            if "time" in (a[0], b[0]) or "r8u" in (a[0], b[0]):
                raise Reject("arithmetic not understood: " + ast.unparse(n))
            self.guards = saved
        return None

    def fork(self, test, env, kt, kf):
        if isinstance(test, ast.Name) and env.get(test.id, ("?",))[0] == "time":
            return "if negb (%s =? 0) then %s else %s" % (env[test.id][1], kt(env), kf(env))
        return Block.fork(self, test, env, kt, kf)

    def special_stmt(self, st, rest, env, go):
        if isinstance(st, ast.Assign) and isinstance(st.value, ast.Call) and isinstance(st.value.func, ast.Name) and st.value.func.id == "Action":
            c = st.value
            if not (len(st.targets) == 1 and isinstance(st.targets[0], ast.Name) and len(c.args) == 2 and not c.keywords
                    and isinstance(c.args[0], ast.Name) and isinstance(c.args[1], ast.Name) and c.args[1].id == self.function_arg):
                raise Reject("unexpected construction of the Action: " + ast.unparse(st))
            if [ast.unparse(s) for s in rest] != ["self.actions.append(%s)" % st.targets[0].id]:
                raise Reject("the Action is not simply appended to self.actions")
            v = env.get(c.args[0].id)
            if v is None or v[0] != "time":
                raise Reject("the Action's time is not a time")
            self.reached += 1
            return v[1] if self.mode == "value" else "true"
        return None


def main(out_path):
    tree = load("isobar/timelines/timeline.py")
    if not any(isinstance(n, ast.Import) and any(a.name == "math" and a.asname is None for a in n.names) for n in tree.body):
        raise Reject("`import math` not found")
    if any(isinstance(n, ast.Name) and n.id == "math" and not isinstance(n.ctx, ast.Load) for n in ast.walk(tree)):
        raise Reject("the name math is rebound")
    cls = find_class(tree, "Timeline")
    fn = method(cls, "_schedule_action")
    a = fn.args
    names = [x.arg for x in a.args]
    if len(names) != 4 or names[0] != "self" or a.vararg or a.kwarg or a.kwonlyargs or a.posonlyargs:
        raise Reject("_schedule_action: unexpected signature")
    _, function, quantize, delay = names
    for n in ast.walk(fn):
        if isinstance(n, (ast.Yield, ast.YieldFrom, ast.Await, ast.Try, ast.With, ast.Global, ast.Nonlocal, ast.Lambda, ast.Return,
                          ast.While, ast.For)) or (isinstance(n, ast.FunctionDef) and n is not fn):
            raise Reject("_schedule_action: %s" % type(n).__name__)
    b = SchedBlock(fn, reserved={"r8", "py_ceil8", "current_time"})
    b.function_arg, b.reached = function, 0
    env = {quantize: ("time", quantize), delay: ("time", delay)}

    def fall_off(e):
        raise Reject("_schedule_action ends without creating the Action")
    value = b.run(body_of(fn), env, fall_off)
    defined = b.run(body_of(fn), env, fall_off, mode="defined")
    text = ("(* GENERATED by harness/gen_tables_sched.py from the source text of isobar/timelines/timeline.py, lines %s\n"
            "   (Timeline._schedule_action, the statements up to the construction of the Action).  Do not edit.\n"
            "   Times are integer numerators over a common denominator; r8 (round(., 8) of a quotient) comes from Base/Round8.v. *)\n"
            "From Isobar Require Import Base.Prelude Base.Round8.\n\n"
            "(* math.ceil of a value given in units of 10^-8 *)\nDefinition py_ceil8 (n : Z) : Z := - ((- n) / 10 ^ 8).\n\n"
            "Definition src_sched_time (current_time %s %s : Z) : Z :=\n  %s.\n\n"
            "Definition src_sched_time_defined (current_time %s %s : Z) : bool :=\n  %s.\n"
            % (lines_of(fn), quantize, delay, value, quantize, delay, defined))
    write_if_changed(out_path, text, "tables-sched")


if __name__ == "__main__":
    main_wrap("gen_tables_sched", main)

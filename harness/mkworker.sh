#!/bin/sh
# mkworker.sh <name>: a private copy of /verif (git worktree on branch wp-<name>, with the compiled Coq files copied so
# that no full rebuild is needed) at /work/<name>/verif and a private worktree of /repo at /work/<name>/repo.
# Checks run from the copy with ISOBAR_REPO=/work/<name>/repo.  Remove with rmworker.sh <name>.
set -e
n=$1
[ -n "$n" ] || { echo "usage: mkworker.sh <name>"; exit 2; }
mkdir -p /work/$n
git -C /verif worktree add -q -b wp-$n /work/$n/verif HEAD
# compiled files + generated tables, keeping mtimes (so make sees them up to date); sources come from HEAD, identical
rsync -a --include='*/' --include='*.vo' --include='*.vos' --include='*.vok' --include='*.glob' --include='.*.aux' --include='Makefile*' --include='_CoqProject' --include='.Makefile.d' --include='Generated/*' --exclude='*' /verif/coq/ /work/$n/verif/coq/
# sources must be older than the compiled files
( cd /work/$n/verif/coq && find . -name '*.v' ! -path './Generated/*' -exec touch -d '2026-01-01' {} + )
git -C /repo worktree add -q --detach /work/$n/repo HEAD
echo "/work/$n/verif (branch wp-$n)  /work/$n/repo"

#!/bin/sh
# rmworker.sh <name>: remove the private copies made by mkworker.sh (the branch wp-<name> is kept for merging)
n=$1
git -C /verif worktree remove --force /work/$n/verif 2>/dev/null || true
git -C /repo worktree remove --force /work/$n/repo 2>/dev/null || true
rm -rf /work/$n

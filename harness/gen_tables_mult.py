#!/venv/bin/python
"""Translator: the BODY of isobar/util.py `make_clock_multiplier` (a generator function), read from the source text with
`ast`, rendered as Gallina -> coq/Generated/TablesMult.v.  Core: harness/src2coq.py; docs/TRANSLATOR2.md.

  statements before `while True:`   -> src_mult_init  out inn : option ((Z * Z) * Z)
                                        None = `raise ClockException(...)`; Some (multiple, pos) = the locals at the loop head
                                       src_mult_init_defined out inn : bool  (no `%` / `/` by zero on the executed path)
  int -> real at the loop head      -> src_mult_enter multiple pos : Z
  the body of `while True:` up to `yield rv`
                                    -> src_mult_body  fuel multiple pos : option (Z * Z)
                                        Some (yielded value, pos at the yield); None = the inner `while` ran out of fuel

Numbers.  `multiple` is a float in the code; it is translated as the EXACT fraction it stands for: the literal 1.0 is (1, 1),
`output_clock_rate / input_clock_rate` (int / int) is (output_clock_rate, input_clock_rate).  Inside the loop every non-integer
quantity is a multiple of 1/U, U = the denominator of `multiple`, and is represented by its numerator ("real"): `multiple` is
fst multiple, the int k is k * U, + and - are exact; `round(x, 8)` is r8 U x (Clock/Multiplier.v: x/U rounded to 8 decimals,
in units of 10^-8) and is only accepted as an operand of a comparison with an int k, rendered r8 U x >? k * S8.  An int
variable of the loop head that the body turns into a real (`pos`) is a real from the start (src_mult_enter).  The binary64
rounding of `multiple` and of `pos += multiple` is NOT in this translation: that the exact reading agrees with the floats is
what harness/c14.py observes on the running code (and C14_round8_exact says the rounded test is the exact one).
Anything else -> exit 3.  Clock/MultiplierSrc.v proves the generated definitions equal to the model's."""
import ast, sys
from src2coq import Reject, Block, load, top_function, plain_args, body_of, lines_of, write_if_changed, main_wrap, assigned_names

FN = "make_clock_multiplier"


class MultBlock(Block):
    in_loop = False

    def real(self, v):
        if v[0] == "real":
            return v[1]
        if v[0] == "int":
            return "(%s * U)" % v[1]
        return None

    def special_expr(self, n, env):
        if isinstance(n, ast.Constant) and type(n.value) is float and n.value == int(n.value) and abs(n.value) < 2 ** 31 and not self.in_loop:
            return ("ratio", "(%d, 1)" % int(n.value))
        if isinstance(n, ast.BinOp) and isinstance(n.op, ast.Div) and not self.in_loop:
            a, b = self.ex(n.left, env), self.ex(n.right, env)
            if a[0] == "int" and b[0] == "int":
                self.guards.append("negb (%s =? 0)" % b[1])
                return ("ratio", "(%s, %s)" % (a[1], b[1]))
            raise Reject("true division of something else than two ints: " + ast.unparse(n))
        if self.in_loop and isinstance(n, ast.BinOp) and type(n.op) in (ast.Add, ast.Sub):
            saved = list(self.guards)
            a, b = self.ex(n.left, env), self.ex(n.right, env)
            if "real" in (a[0], b[0]):
                A, B = self.real(a), self.real(b)
                if A is None or B is None:
                    raise Reject("arithmetic between a real and a %s/%s" % (a[0], b[0]))
                return ("real", "(%s %s %s)" % (A, "+" if isinstance(n.op, ast.Add) else "-", B))
            self.guards = saved
            return None
        if self.in_loop and isinstance(n, ast.Call) and isinstance(n.func, ast.Name) and n.func.id == "round" and not n.keywords \
                and len(n.args) == 2 and isinstance(n.args[1], ast.Constant) and type(n.args[1].value) is int and n.args[1].value == 8:
            a = self.ex(n.args[0], env)
            if a[0] != "real":
                raise Reject("round(., 8) of a %s" % a[0])
            return ("real8", "(r8 U %s)" % a[1])
        if self.in_loop and isinstance(n, ast.Compare) and len(n.ops) == 1 and type(n.ops[0]) in self.CMP:
            saved = list(self.guards)
            a, b = self.ex(n.left, env), self.ex(n.comparators[0], env)
            op = self.CMP[type(n.ops[0])]
            if a[0] == "real8" and b[0] == "int":
                return ("bool", "(%s %s %s * S8)" % (a[1], op, b[1]))
            if "real" in (a[0], b[0]) and self.real(a) and self.real(b):
                return ("bool", "(%s %s %s)" % (self.real(a), op, self.real(b)))
            if "real8" in (a[0], b[0]) or "real" in (a[0], b[0]):
                raise Reject("comparison not understood: " + ast.unparse(n))
            self.guards = saved
            return None
        return None

    def special_coerce(self, v, kind):
        if kind == "real" and v[0] == "int":
            return "(%s * U)" % v[1]
        return None

    def special_join(self, a, b):
        return "real" if {a, b} == {"int", "real"} else None

    def on_raise(self, st, env):
        e = st.exc
        if not (isinstance(e, ast.Call) and isinstance(e.func, ast.Name) and e.func.id == "ClockException" and st.cause is None):
            raise Reject("raise of something else than ClockException(...)")
        return "None"

    def out_of_fuel(self):
        return "None"

    def special_stmt(self, st, rest, env, go):
        if isinstance(st, ast.Expr) and isinstance(st.value, ast.Yield):
            if rest or not self.in_loop or st.value.value is None:
                raise Reject("yield is not the last statement of the loop body")
            v, g = self.ex_g(st.value.value, env)
            if v[0] != "int" or g != "true":
                raise Reject("the yielded value is not an int")
            return self.at_yield(v, env)
        return None


def main(out_path):
    tree = load("isobar/util.py")
    fn = top_function(tree, FN)
    out, inn = plain_args(fn, 2)
    body = body_of(fn)
    if not body or not (isinstance(body[-1], ast.While) and isinstance(body[-1].test, ast.Constant) and body[-1].test.value is True
                        and not body[-1].orelse):
        raise Reject("the function does not end in `while True:`")
    prelude, loop = body[:-1], body[-1]
    ys = [n for n in ast.walk(fn) if isinstance(n, (ast.Yield, ast.YieldFrom, ast.Await, ast.Return, ast.Break, ast.Continue,
                                                     ast.Try, ast.With, ast.Global, ast.Nonlocal, ast.Lambda, ast.FunctionDef))
          and n is not fn]
    if len(ys) != 1 or not isinstance(ys[0], ast.Yield):
        raise Reject("exactly one yield (and no return/break/continue/try/with/nested function) is expected")
    b = MultBlock(fn, reserved={"U", "S8", "r8", "rate"})
    env0 = {out: ("optint", out), inn: ("optint", inn)}
    loaded = {n.id for n in ast.walk(loop) if isinstance(n, ast.Name) and isinstance(n.ctx, ast.Load)}
    if loaded & {out, inn}:
        raise Reject("the loop reads a parameter directly")
    order = assigned_names_deep(prelude)
    carried = [n for n in order if n in loaded]
    heads = []

    def at_head(env):
        missing = [n for n in carried if n not in env]
        if missing:
            raise Reject("not assigned on every path to the loop: %s" % missing)
        heads.append(tuple(env[n][0] for n in carried))
        return "Some (%s)" % ", ".join(env[n][1] for n in carried)
    init = b.run(prelude, env0, at_head)
    init_def = b.run(prelude, env0, lambda env: "true", mode="defined")
    if len(set(heads)) != 1:
        raise Reject("the locals at the loop head have different kinds on different paths: %r" % sorted(set(heads)))
    kinds = dict(zip(carried, heads[0]))
    consts = [n for n in carried if n not in assigned_names_deep(loop.body)]
    state = [n for n in carried if n not in consts]
    ratios = [n for n in consts if kinds[n] == "ratio"]
    if len(ratios) != 1 or len(consts) != 1 or len(state) != 1 or kinds[state[0]] != "int":
        raise Reject("loop head: constants %r, state %r, kinds %r (expected one exact fraction and one int counter)" % (consts, state, kinds))
    m, p = ratios[0], state[0]
    # the body, with the state variable an int, then (if the body makes it a real) a real
    b.in_loop = True
    result = {}

    def body_with(kind):
        seen = []

        def at_yield(v, env):
            seen.append(env[p][0])
            return "Some (%s, %s)" % (v[1], b.coerce(env[p], kind))
        b.at_yield = at_yield
        t = b.run(loop.body, {m: ("real", m), p: (kind, p)}, lambda env: (_ for _ in ()).throw(Reject("the loop body can end without a yield")))
        return t, set(seen)
    try:
        term, seen = body_with("int")
        kind = "int"
    except Reject:
        seen = {"real"}
    if seen != {"int"}:
        term, seen = body_with("real")
        kind = "real"
        if seen - {"real", "int"}:
            raise Reject("the state variable becomes a %r" % seen)
    enter = "%s * U" % p if kind == "real" else p
    text = ("(* GENERATED by harness/gen_tables_mult.py from the source text of isobar/util.py, lines %s (def %s).  Do not edit.\n"
            "   src_mult_init: the statements before `while True:` (lines %d-%d); src_mult_body: the loop body up to the yield (lines %d-%d).\n"
            "   Reals are numerators over U = snd multiple; r8/S8 (round(., 8)) and the type `rate` come from Clock/Multiplier.v. *)\n"
            "From Isobar Require Import Base.Prelude Base.PyLoop Clock.Multiplier.\n\n"
            "Definition src_mult_init (%s %s : rate) : option ((Z * Z) * Z) :=\n  %s.\n\n"
            "Definition src_mult_init_defined (%s %s : rate) : bool :=\n  %s.\n\n"
            "Definition src_mult_enter (%s : Z * Z) (%s : Z) : Z :=\n  let U := snd %s in %s.\n\n"
            "Definition src_mult_body (fuel : nat) (%s : Z * Z) (%s : Z) : option (Z * Z) :=\n"
            "  let U := snd %s in let %s := fst %s in\n  %s.\n"
            % (lines_of(fn), FN, prelude[0].lineno, prelude[-1].end_lineno, loop.lineno, loop.end_lineno,
               out, inn, init, out, inn, init_def, m, p, m, enter, m, p, m, m, m, term))
    write_if_changed(out_path, text, "tables-mult")


def strip_yield(stmts):
    return [s for s in stmts if not (isinstance(s, ast.Expr) and isinstance(s.value, ast.Yield))]


def assigned_names_deep(stmts):
    """names assigned anywhere in the prelude (plain names only), in order of first assignment; raise is allowed"""
    out = []
    for st in stmts:
        for n in ast.walk(st):
            if isinstance(n, ast.Name) and isinstance(n.ctx, ast.Store) and n.id not in out:
                out.append(n.id)
    return out


if __name__ == "__main__":
    main_wrap("gen_tables_mult", main)

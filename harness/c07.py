"""C07 — tracks do not interfere; intra-tick order is fixed; shared static state agrees.
Theorems: coq/Props/C07.v (phase order of Timeline.tick, legato, THE MERGE THEOREM: the calls of a track in a joint run are
the calls of its solo run, static/globals/current-time patterns).  Lemmas: Sched/MergeProofs.v, Sched/StaticProofs.v.
Correspondence: joint runs of 1..6 tracks on distinct channels AND every track's solo run on isobar's Timeline and on the
model inside Coq; shared PStaticPattern / PGlobals / PCurrentTime programs on isobar (impl/static_impl.py) and on Sched/Static.v.
Oracle (plain Python, from the property text): joint run projected per channel == solo run; inside every tick all note-offs
come first and the events follow grouped by track in scheduling order; a delayed/quantized start plays on its exact tick;
static values are the same for every reader and are held for their stated duration.
Further strata: harness/c07_midphase.py (callbacks changing the track list during the track phase; theorems C07_merge_cb,
C07_snapshot_*), harness/c07_multi.py (the same static objects read from several timelines; model Sched/StaticMulti.v),
harness/c07_globals.py (globals whose values are patterns; model Sched/GlobalsPat.v), harness/c07_notation.py (tracks written
in string shorthand; model Sched/NotationTracks.v).  harness/c07_coq.py: evaluation of the
scheduler terms with shared literals (one unit grid per description)."""
from common import *
import sched_common as S
import sched_gen as G
import c07_multi as M
import c07_midphase as MP
import c07_globals as GP
import c07_notation as NT
import c07_coq as Q
from fractions import Fraction as F
from math import ceil
import itertools

PROP = "C07"
META = {
 "engine": "S-scheduler",
 "text": "Coq theorems (Props/C07.v) about the executable model of Timeline.tick/Track.tick (Sched/Model.v) and of PStaticPattern/PCurrentTime/Globals (Sched/Static.v). Phase order: for every state the calls of one tick are (note-offs of all tracks, in track order) ++ (calls of the due actions, in request order) ++ (events of each track, in scheduling order); legato corollary. MERGE THEOREM, for ALL histories of ticks/schedule/update/unschedule/clear/mute/unmute/nudge/defaults, all numbers of tracks and ticks (induction over the history, simulation relation preserved by every phase of the tick incl. ticks on which a neighbour finishes, raises in tolerant mode, or is removed): the sub-sequence of calls owned by track i (by channel / callback id, ownership stated as a hypothesis on the streams) in every tick of the joint run equals the calls of that tick in the solo run in which only track i was scheduled by the same call at the same time, and the track's record and pending actions are equal in both runs. Static state: reads of a static pattern between two element boundaries return one value however many reads happen, all readers at one time see one value, a value is held for at least its duration, PGlobals returns the last value set or the default, PCurrentTime the timeline position rounded as the code rounds. Callbacks that perform timeline operations (the track list changes in the middle of the track phase): the turns are taken over the snapshot of the ids - only those ids, all of them, in order, a removed track makes no call - for every configuration; and the merge theorem holds with cb_noops weakened to: callbacks of the observed track act on it only, all other callbacks (unschedule / mute / unmute / nudge / update of other tracks, unnamed schedule calls on other channels) do not aim at it (C07_merge_cb, induction over histories; simulation preserved by ticks in which neighbours leave or arrive before or after the track's position). Tracks written in string shorthand (Sched/NotationTracks.v = the notation parser and PSequence-tree models of C20 composed with the scheduler): Pattern.pattern(str) builds a new object at every call, so after any program an object stands where its own asks put it and yields the values of its own sequence, an object built later starts at the beginning, two objects built from equal strings yield equal values; the stream of a track scheduled from notation strings is a function of its own strings, stays on its channel, and the merge theorem applies to two tracks written with the same strings (C07_notation_*). Globals whose values are patterns (Sched/GlobalsPat.v): for every program of sets and reads a read returns the default, the number or the next value of the pattern object that the LATEST set stored for the name, whatever was stored before; a set always takes effect; a shared pattern object stands at start + the number of reads that reached it. Several timelines in one process reading the same static / current-time / globals objects (Sched/StaticMulti.v): every read is served with the position of the reader's own timeline, for every program; a program over several timelines is a Static.v program; a second performance starts from exactly the pattern state, globals and per-timeline positions the first one left. Tied to /repo on every run by joint+solo executions on the real Timeline (recording device) compared call by call with the model in Coq, by an independent projection/phase-order oracle, by a mid-phase stratum (callbacks unscheduling / muting neighbours before or after the caller, stopping themselves, scheduling new tracks, on ticks on which neighbours are due; closed-form oracle; instances of C07_merge_cb checked in Coq) by a string-shorthand stratum (note / duration / amplitude as notation strings with nested groups, the same strings on several tracks, scheduled again later and on further timelines of the process; closed-form oracle; streams computed from the strings by the parser model inside Coq), by a pattern-valued-globals stratum (numbers and pattern objects set over each other by setter tracks, read by several tracks; oracle + comparison with Sched/GlobalsPat.v) and by a several-timelines stratum (event dictionaries built once, scheduled on 2-3 timelines sequentially / alternately; oracle + comparison with Sched/StaticMulti.v).",
 "note": "Trusted: Coq kernel+VM; the Python harness. Modelled, not verified: float arithmetic (exact integer units in the model); how a static pattern finds its timeline (inspect.stack) - the model takes `now` as an argument, validated by the correspondence only. The merge theorem excludes, as the property does, deliberate coupling: device faults (shared call counter), callbacks that perform timeline operations AIMED AT THE OBSERVED TRACK from another track (C07_merge_cb covers all others; a victim's behaviour is judged by the mid-phase oracle and the model comparison), clear / set-defaults / named schedule inside callbacks, named replace, max_tracks, stop_when_done (a solo timeline would stop earlier), and aborted ticks (intolerant exceptions / out-of-fuel are hypotheses `all_ticks_ok`).",
}

MERGE_INSTANCE = """
Definition merge_instance (i : nat) (ch : Z) (mine : list nat) (cfg : config) (h : list (op * Z)) (solo_calls : list (list call)) : bool :=
  uncoupled cfg && hist_wf i (on_channel ch) (one_of mine) 0 (expand h) && all_ticks_ok cfg tl0 (expand h)
  && list_eqb (list_eqb call_eqb) (tick_calls cfg (tl_at i) (solo i 0 (expand h))) solo_calls.
"""

GATES = [(1, 4), (1, 2), (1, 1), (1, 1), (3, 2), (2, 1), (3, 1)]


# ---- generation ---------------------------------------------------------------------------------------
def gen_track(rng, tpb, g, chan, cbs, opts):
    """one track: a stream of 1..6 events on channel [chan]; returns (stream, meta)"""
    tick = F(1, tpb)
    n = rng.randint(1, 6)
    items = []
    pitch = rng.randint(40, 80)
    legato = rng.random() < 0.35
    for j in range(n):
        if rng.random() < 0.8:
            d = g * rng.choice([1, 1, 2, 2, 3, 4])
        else:
            d = rng.choice([x for x in G.DUR_POOL if x >= tick] or [tick])
        r = rng.random()
        if opts.get("faults") and r < opts.get("fault_share", 0.0):
            items.append({"k": rng.choice(["raise_eval", "raise_ctor"])})
            continue
        if r < 0.10:
            cb = len(cbs)
            cbs.append({"raise": rng.choice(["none", "none", "exc", "stop"]) if opts.get("cb_raise") else "none", "ops": [], "owner": chan})
            items.append({"k": "action", "cb": cb, "dur": d})
            continue
        if r < 0.22:
            items.append({"k": rng.choice(["control", "program"]), "dur": d, "ctl": rng.randint(0, 119), "val": rng.randint(0, 127),
                          "prog": rng.randint(0, 127), "chan": chan})
            continue
        if r < 0.27:
            items.append({"k": "note", "dur": d, "note": None, "amp": 64, "gate": [1, 1], "chan": chan})
            continue
        if legato:
            items.append({"k": "note", "dur": d, "note": pitch, "amp": rng.randint(1, 127), "gate": [1, 1], "chan": chan})
            continue
        nv = 1 if rng.random() < 0.7 else rng.randint(2, 3)
        p = rng.randint(40, 80)
        gate = list(rng.choice(GATES))
        ev = {"k": "note", "dur": d, "note": p if nv == 1 else [p + 4 * i for i in range(nv)],
              "amp": rng.randint(1, 127), "gate": gate, "chan": chan}
        if rng.random() < 0.06:
            ev["active"] = False
        items.append(ev)
    cyclic = rng.random() < 0.35
    form = "scripted" if any(i["k"].startswith("raise") for i in items) else rng.choice(["scripted", "psequence", "pdict"])
    return G.stream(items, cyclic, form)


def gen_joint(rng, opts=None):
    """a joint scenario description: tracks with their schedule instant (in ticks), offsets, fates"""
    opts = opts or {}
    tpb = rng.choice([1, 2, 4, 4, 8, 10, 24])
    tick = F(1, tpb)
    g = tick * rng.choice([1, 1, 2, 3])
    k = rng.choice([1, 2, 2, 3, 3, 4, 4, 5, 6])
    cbs = []
    tracks = []
    same_instant = rng.random() < 0.6
    T0 = rng.choice([0, 0, 1, 3, rng.randint(0, 2 * tpb)])
    faulty = rng.random() < 0.3
    chans = rng.sample(range(16), k)
    for j in range(k):
        o = dict(opts)
        if faulty and rng.random() < 0.5:
            o["faults"] = True; o["fault_share"] = 0.25
        s = gen_track(rng, tpb, g, chans[j], cbs, o)
        at = T0 if same_instant else T0 + rng.choice([0, 0, 1, 2, rng.randint(0, 3 * tpb)])
        r = rng.random()
        if r < 0.45:
            q, d = None, None
        elif r < 0.8:
            q, d = None, g * rng.choice([0, 1, 1, 2, 3])
        else:
            q, d = rng.choice([g, 2 * g, F(1), F(1, 2)]), rng.choice([None, F(0), g])
        count = rng.choice([None, None, None, 1, 2, 4])
        rwd = rng.random() < 0.75
        fate = None
        if rng.random() < 0.25:
            fate = at + rng.randint(0, 12)          # unscheduled after this many ticks in total
        tracks.append({"chan": chans[j], "stream": s, "at": at, "q": q, "d": d, "count": count, "rwd": rwd, "unschedule_at": fate})
    horizon = max(t["at"] for t in tracks) + rng.choice([8, 16, 24, 40])
    any_fault = any(i["k"].startswith("raise") for t in tracks for i in t["stream"]["items"])
    cfg = {"ignore": True if any_fault else rng.random() < 0.5, "stop_when_done": False}
    return {"tpb": tpb, "tracks": tracks, "callbacks": cbs, "horizon": horizon, "config": cfg}


def build_ops(desc, order, only=None):
    """the operation list of the joint run with the tracks scheduled in [order] (indices into desc['tracks']);
    only = k: the solo run of track k.  Returns (ops, ids) where ids[k] = id of track k in this run."""
    tracks = desc["tracks"]
    present = [k for k in order if only is None or k == only]
    ids = {}
    events = {}          # tick count -> list of ops
    # ids are given in the order the schedule calls are made: by instant, then by [order]
    seq = sorted(present, key=lambda k: (tracks[k]["at"], order.index(k)))
    for n, k in enumerate(seq):
        ids[k] = n
    for k in seq:
        t = tracks[k]
        events.setdefault(t["at"], []).append(G.sched_op(t["stream"], t["q"], t["d"], t["count"], t["rwd"], None, True))
    for k in seq:
        t = tracks[k]
        if t["unschedule_at"] is not None and t["unschedule_at"] < desc["horizon"]:
            # an unschedule at the instant of the schedule call comes after it
            events.setdefault(t["unschedule_at"], []).append(["unschedule", ids[k]])
    ops, prev = [], 0
    for T in sorted(events):
        if T > prev:
            ops.append(["tick", T - prev]); prev = T
        sch = [o for o in events[T] if o[0] == "schedule"]
        ops += sch + [o for o in events[T] if o[0] != "schedule"]
    if desc["horizon"] > prev:
        ops.append(["tick", desc["horizon"] - prev])
    return ops, ids


def scenario(desc, order, only=None):
    ops, ids = build_ops(desc, order, only)
    sc = {"tpb": desc["tpb"], "config": dict(desc["config"]),
          "callbacks": [{"raise": c["raise"], "ops": c["ops"]} for c in desc["callbacks"]], "ops": ops}
    return sc, ids


# ---- trace utilities ------------------------------------------------------------------------------------
def per_tick(sc, r):
    """dense per-tick view of a sparse observation: list of (calls, result, ids-after)"""
    obs = {i: (calls, res, ids) for i, calls, res, ids in r["obs"]}
    out, ids = [], []
    for i, (kind, _) in enumerate(S.tick_indices(sc)):
        calls, res, ids2 = obs.get(i, ([], "ok", ids))
        ids = ids2
        if kind == "tick":
            out.append((calls, res, list(ids)))
    return out


def owner_of(call, cb_owner):
    k = call[0]
    if k == "cb":
        return cb_owner.get(call[1])
    if k in ("on", "ctl"):
        return call[3]
    return call[2]


def first_audible(stream):
    """the first item if it makes a device call (or callback) when performed"""
    it = stream["items"][0]
    if it["k"] in ("control", "program", "action"):
        return it
    if it["k"] == "note" and it.get("active", True) and it["note"] is not None and it["amp"] and it["gate"] and it["gate"][0] > 0:
        return it
    return None


def oracle(desc, order, joint_sc, joint_ids, jr, solos):
    """solos: {k: (sc, result)}.  Returns list of (kind, detail)."""
    bad = []
    tpb = desc["tpb"]
    tick = F(1, tpb)
    cb_owner = {i: c["owner"] for i, c in enumerate(desc["callbacks"])}
    rank = {desc["tracks"][k]["chan"]: joint_ids[k] for k in joint_ids}
    J = per_tick(joint_sc, jr)
    # -- phase order inside every tick
    for t, (calls, res, ids) in enumerate(J):
        if res != "ok":
            bad.append(("tick-raised", "tick %d of the joint run ended with %r (tolerant mode / no fault scheduled)" % (t, res)))
            break
        seen_event = False
        last_rank = -1
        closed = set()
        for c in calls:
            if c[0] == "off":
                if seen_event:
                    bad.append(("note-off-after-event", "tick %d: %r comes after an event of the same tick: %r" % (t, c, calls)))
                    break
                continue
            seen_event = True
            rk = rank.get(owner_of(c, cb_owner))
            if rk is None:
                bad.append(("unowned-call", "tick %d: call %r belongs to no scheduled track" % (t, c))); break
            if rk != last_rank:
                if rk in closed or rk < last_rank:
                    bad.append(("track-order", "tick %d: events are not grouped by track in scheduling order: %r (ranks by channel %r)"
                                % (t, calls, rank)))
                    break
                closed.add(last_rank); last_rank = rk
    # -- projection: joint restricted to the track == solo
    for k, (ssc, sr) in solos.items():
        ch = desc["tracks"][k]["chan"]
        Sd = per_tick(ssc, sr)
        if len(Sd) != len(J):
            bad.append(("harness", "solo/joint tick counts differ")); continue
        for t in range(len(J)):
            pj = [c for c in J[t][0] if owner_of(c, cb_owner) == ch]
            ps = Sd[t][0]
            if pj != ps:
                bad.append(("projection", "track on channel %d (scheduling rank %d): tick %d of the joint run has %r for it, its solo run has %r"
                            % (ch, joint_ids[k], t, pj, ps)))
                break
            if (joint_ids[k] in J[t][2]) != (0 in Sd[t][2]):
                bad.append(("presence", "track on channel %d: after tick %d it is %s in the joint timeline but %s in its solo timeline"
                            % (ch, t, "present" if joint_ids[k] in J[t][2] else "absent", "present" if 0 in Sd[t][2] else "absent")))
                break
            if Sd[t][1] != "ok":
                break
    # -- pending starts happen before the tracks' events: a delayed/quantized start plays on its exact tick
    for k in joint_ids:
        tr = desc["tracks"][k]
        it = first_audible(tr["stream"])
        if it is None or (tr["count"] == 0 and False):
            continue
        now = tr["at"] * tick
        q = tr["q"] or F(0)
        d = tr["d"] or F(0)
        start = (q * ceil(now / q) if q else now) + d
        first = max(tr["at"], ceil(start / tick))
        if tr["unschedule_at"] is not None and tr["unschedule_at"] <= first:
            continue
        if first >= len(J):
            continue
        want = {"control": "ctl", "program": "pgm", "action": "cb", "note": "on"}[it["k"]]
        got = [(t, c) for t in range(len(J)) for c in J[t][0] if c[0] == want and owner_of(c, cb_owner) == tr["chan"]]
        if not got or got[0][0] != first:
            bad.append(("start-tick", "track on channel %d scheduled at tick %d with quantize %s delay %s: first event expected on tick %d, observed %s"
                        % (tr["chan"], tr["at"], tr["q"], tr["d"], first, got[0][0] if got else "never")))
    return bad


# ---- the check ------------------------------------------------------------------------------------------
def merge_part(run, n_desc):
    rng = run.rng
    descs, jobs = [], []          # jobs: (desc index, order, kind, k) -> scenario
    scs = []
    for di in range(n_desc):
        desc = gen_joint(rng, {"cb_raise": True})
        descs.append(desc)
        k = len(desc["tracks"])
        orders = [list(range(k))]
        if 2 <= k <= 4:
            perms = list(itertools.permutations(range(k)))
            if k <= 3 and rng.random() < 0.3:
                orders = [list(p) for p in perms]
            else:
                orders.append(list(rng.choice(perms[1:])))
        for order in orders:
            sc, ids = scenario(desc, order)
            jobs.append((di, order, "joint", None, ids)); scs.append(sc)
        for kk in range(k):
            sc, ids = scenario(desc, list(range(k)), only=kk)
            jobs.append((di, None, "solo", kk, ids)); scs.append(sc)
    # one unit grid per description (the joint run's), so that its scenarios share their stream literals
    fin, groups = [], [di for di, _, _, _, _ in jobs]
    first = {}
    for j, di in enumerate(groups):
        first.setdefault(di, j)
    for j, sc in enumerate(scs):
        fin.append(Q.finalize_group(G, [sc], scs[first[groups[j]]])[0])
    results = S.run_impl(run, fin, shards=14)
    flagged = set()
    solo_of = {}
    for j, (di, order, kind, kk, ids) in enumerate(jobs):
        if kind == "solo":
            solo_of[(di, kk)] = j
    for j, (di, order, kind, kk, ids) in enumerate(jobs):
        run.count()
        r = results[j]
        if "driver_error" in r:
            flagged.add(j)
            run.violation({"kind": "driver-error", "site": "Timeline"}, {"scenario": fin[j], "observed": r}, found_input=True)
            continue
        if kind != "joint":
            run.dist("solo-runs")
            continue
        desc = descs[di]
        k = len(desc["tracks"])
        run.dist("tracks.%d" % k)
        run.dist("joint-runs")
        if order != list(range(k)):
            run.dist("permuted-order")
        solos = {}
        broken = False
        for kk2 in range(k):
            sj = solo_of[(di, kk2)]
            if "driver_error" in results[sj]:
                broken = True
            solos[kk2] = (scs[sj], results[sj])
        if broken:
            continue
        bad = oracle(desc, order, scs[j], ids, r, solos)
        run.cov["oracle_evaluations"] += 1
        J = per_tick(scs[j], r)
        cb_owner = {i: c["owner"] for i, c in enumerate(desc["callbacks"])}
        co = sum(1 for calls, _, _ in J if len(set(owner_of(c, cb_owner) for c in calls)) >= 2)
        if co:
            run.dist("joint-runs-with-coinciding-tracks")
        run.dist("ticks-shared-by-2+-tracks", co)
        run.dist("ticks-with-calls", sum(1 for calls, _, _ in J if calls))
        if any(c[0] == "off" for calls, _, _ in J for c in calls[:1]) and any(
                any(c[0] == "off" for c in calls) and any(c[0] != "off" for c in calls) for calls, _, _ in J):
            run.dist("ticks-mixing-offs-and-events")
        for t in desc["tracks"]:
            if any(i["k"].startswith("raise") for i in t["stream"]["items"]):
                run.dist("neighbour.raises"); break
        if any(t["unschedule_at"] is not None for t in desc["tracks"]):
            run.dist("neighbour.unscheduled")
        if any(not t["stream"]["cyclic"] for t in desc["tracks"]):
            run.dist("neighbour.finishes")
        if k >= 2 and co:
            run.nontrivial(json.dumps(fin[j], sort_keys=True))
        seen = set()
        for kind_, detail in bad:
            if kind_ in seen:
                continue
            seen.add(kind_); flagged.add(j)
            run.violation({"kind": kind_, "site": "Timeline.tick"}, {
                "part": "merge", "scenario": fin[j], "observed": detail,
                "solo_scenarios": {str(desc["tracks"][kk2]["chan"]): G.finalize(solos[kk2][0]) for kk2 in solos},
                "cb_owner": cb_owner, "channels": [t["chan"] for t in desc["tracks"]],
                "oracle": "joint run projected per channel == solo run; note-offs first; events grouped by track in scheduling order; exact start tick",
                "desc": json.loads(json.dumps(desc, default=str)), "order": order,
                "trace_head": r["obs"][:30], "python": S.python_snippet(fin[j])})
        if len(run.cov["samples"]) < 2:
            run.sample({"tracks": k, "order": order, "ops": [o[0] if o[0] != "tick" else o for o in scs[j]["ops"]],
                        "first_observations": r["obs"][:4]})
    bad = Q.model_disagreements_shared(run, S, fin, results, groups, target=40)
    run.cov["traces_validated_against_impl"] += len(fin) - len(bad)
    for j in [x for x in bad if x not in flagged][:3]:
        S.report_disagreement(run, fin[j], results[j], "correspondence", "Timeline/Track")
    # the instance of the merge theorem itself: the joint history meets the theorem's hypotheses (uncoupled, hist_wf,
    # all_ticks_ok) and the theorem's solo run - Coq's [solo i 0 h] on [tl_at i] - makes the calls of the REAL solo run
    terms, where, tgroups = [], [], []
    for j, (di, order, kind, kk, ids) in enumerate(jobs):
        if kind != "joint" or j in flagged or order != list(range(len(descs[di]["tracks"]))):
            continue
        desc = descs[di]
        for kk2 in range(len(desc["tracks"])):
            sj = solo_of[(di, kk2)]
            if "driver_error" in results[sj] or sj in bad or j in bad:
                continue
            mine = [ci for ci, c in enumerate(desc["callbacks"]) if c["owner"] == desc["tracks"][kk2]["chan"]]
            dense = [calls for calls, _, _ in per_tick(scs[sj], results[sj])]
            terms.append("merge_instance %s %s %s %s %s %s" % (
                natlit(ids[kk2]), zlit(desc["tracks"][kk2]["chan"]), lst([natlit(m) for m in mine]), S.coq_config(fin[j]),
                S.coq_history(fin[j]), lst([lst([S.coq_call(c) for c in calls]) for calls in dense])))
            where.append((j, kk2)); tgroups.append(j)
    hdr = S.HEADER + "From Isobar Require Import Sched.TimeProofs Sched.MergeProofs Props.C07.\n" + MERGE_INSTANCE

    def cands(i0, i1):
        inner, outer = [], []
        for j in dict.fromkeys(w[0] for w in where[i0:i1]):
            a, b = Q.scenario_literals(S, fin[j])
            inner += a; outer += b
        return inner + outer
    badi = Q.failing_shared(run, hdr, terms, cands, Q.bounds_by_group(tgroups, 40), name="instance")
    run.cov["merge_theorem_instances_checked"] = run.cov.get("merge_theorem_instances_checked", 0) + len(terms) - len(badi)
    for b in badi[:3]:
        j, kk2 = where[b]
        S.report_disagreement(run, fin[j], results[j], "merge-instance", "Timeline/Track",
                              extra={"broken": "the instance of C07_merge for this history: its hypotheses (uncoupled, hist_wf, all_ticks_ok) or the "
                                               "equality of the theorem's solo run with the solo run of the implementation",
                                     "track": kk2})


# ---- shared static state: PStaticPattern / PGlobals / PCurrentTime ------------------------------------------
STATIC_HEADER = "From Isobar Require Import Base.Prelude Sched.Static.\n"


def gen_program(rng):
    dyadic = rng.random() < 0.8
    tpb = rng.choice([1, 2, 4, 8, 16]) if dyadic else rng.choice([10, 24, 100])
    ticks = rng.choice([24, 32, 48, 64])
    cyclic = rng.random() < 0.8
    nv = rng.randint(2, 6) if cyclic else ticks + 2
    vals = rng.sample(range(1, 500), nv)
    nd = rng.choice([1, 1, 2, 3])
    if dyadic:
        durs = [F(rng.choice([1, 2, 3, 4, 6, 8, 12, 16, 20, 24, 40]), 16) for _ in range(nd)]
    else:
        durs = [rng.choice([F(1, 10), F(1, 4), F(3, 10), F(1, 2), F(1), F(3, 2), F(7, 10)]) for _ in range(nd)]
    ntr = rng.randint(2, 4)
    tracks = []
    for k in range(ntr):
        reads = "static" if k < 2 or rng.random() < 0.6 else "global"
        tracks.append({"period": rng.choice([1, 2, 3, 4, 5, 7, tpb, 2 * tpb]), "offset": rng.choice([0, 0, 1, 2, 3, 5]),
                       "reads": reads, "direct": rng.random() < 0.4, "sets": rng.random() < 0.35,
                       "count": rng.choice([None, None, 3, 8])})
    if not any(t["reads"] == "global" for t in tracks):
        tracks[-1]["reads"] = "global" if ntr > 2 else tracks[-1]["reads"]
    if not any(t["sets"] for t in tracks):
        tracks[0]["sets"] = True
    return {"tpb": tpb, "dyadic": dyadic, "static": {"vals": vals, "cyclic": cyclic, "durs": [[d.numerator, d.denominator] for d in durs]},
            "default": -1, "tracks": tracks, "ticks": ticks}


def linear_program(p):
    """what the timeline makes the readers do, in order (scheduling order inside a tick; inside a turn: the event's
    arguments are evaluated, then the callback runs): list of (kind, tick, track)"""
    out = []
    n = [0] * len(p["tracks"])
    for tick in range(p["ticks"]):
        for k, t in enumerate(p["tracks"]):
            if tick < t["offset"] or (tick - t["offset"]) % t["period"]:
                continue
            if t["count"] is not None and n[k] >= t["count"]:
                continue
            out.append(("read" if t["reads"] == "static" else "get", tick, k))
            out.append(("time", tick, k))
            if t["direct"]:
                out.append(("direct", tick, k))
            if t["sets"]:
                out.append(("set", tick, k, 0 if n[k] % 3 == 2 else 100 * (k + 1) + n[k]))      # 0: a falsy value is a value
            n[k] += 1
    return out


def static_oracle(p, log):
    """from the property text; exact fractions; a tolerance of 10^-9 beat where the code compares floats"""
    bad = []
    tpb = p["tpb"]
    vals = p["static"]["vals"]
    durs = [F(a, b) for a, b in p["static"]["durs"]]
    eps = F(0) if p.get("dyadic") else F(1, 10 ** 9)      # dyadic grids: the floats of the code are exact
    # the records must be the ones the schedule asks for
    want = linear_program(p)
    if [tuple(x[:3]) for x in log] != [tuple(x[:3]) for x in want]:
        bad.append(("read-schedule", "the callbacks ran in a different order / on different ticks than scheduled: %r vs %r"
                    % ([tuple(x[:3]) for x in log][:12], [tuple(x[:3]) for x in want][:12])))
        return bad
    reads = [(x[1], x[3]) for x in log if x[0] in ("read", "direct")]
    # every reader sees the same value at the same time
    by_tick = {}
    for tick, v in reads:
        by_tick.setdefault(tick, set()).add(v)
    for tick, vs in sorted(by_tick.items()):
        if len(vs) > 1:
            bad.append(("static-readers-disagree", "tick %d: the shared static pattern showed %r to different readers" % (tick, sorted(vs))))
            break
    # elements in order, each held for at least its duration, and left at the first read at or after its end
    cur, start, idx = None, None, -1
    for tick, v in reads:
        if v == cur:
            if (F(tick - start, tpb)) >= durs[idx % len(durs)] + eps:
                bad.append(("static-held-too-long", "tick %d: value %r (element %d, started on tick %d, duration %s beats) is still shown after its end"
                            % (tick, v, idx, start, durs[idx % len(durs)])))
                break
            continue
        nxt = vals[(idx + 1) % len(vals)] if (p["static"]["cyclic"] or idx + 1 < len(vals)) else None
        if v != nxt:
            bad.append(("static-order", "tick %d: value %r shown, expected the next element %r of %r" % (tick, v, nxt, vals[:8]))); break
        if cur is not None and F(tick - start, tpb) < durs[idx % len(durs)] - eps:
            bad.append(("static-changed-early", "tick %d: value changed from %r to %r after %s beats, its stated duration is %s beats (reads so far: %d)"
                        % (tick, cur, v, F(tick - start, tpb), durs[idx % len(durs)], len(reads))))
            break
        cur, start, idx = v, tick, idx + 1
    # globals: the latest value set, or the default
    g = p["default"]
    for x in log:
        if x[0] == "set":
            g = x[3]
        elif x[0] == "get" and x[3] != g:
            bad.append(("globals", "tick %d: PGlobals returned %r, the latest value set is %r (default %r)" % (x[1], x[3], g, p["default"]))); break
    # current time: the timeline's position
    for x in log:
        if x[0] == "time":
            if abs(F(x[3]).limit_denominator(10 ** 7) - F(x[1], tpb)) > F(6, 10 ** 6):
                bad.append(("current-time", "tick %d: PCurrentTime returned %r, the timeline is at %s beats" % (x[1], x[3], F(x[1], tpb)))); break
    return bad


def program_term(p, log):
    U = p["tpb"]
    acts, outs = [], []
    for x in log:
        kind, tick = x[0], x[1]
        if kind in ("read", "direct"):
            acts.append("ARead (r5 %s %s)" % (zlit(U), zlit(tick)))
            outs.append("OStop" if x[3] == "stop" else "OVal %s" % zlit(x[3]))
        elif kind == "get":
            acts.append("AGet 0 %s" % zlit(p["default"])); outs.append("OVal %s" % zlit(x[3]))
        elif kind == "set":
            acts.append("ASet 0 %s" % zlit(x[3])); outs.append("ONone")
        elif kind == "time":
            acts.append("ATime %s %s" % (zlit(U), zlit(tick))); outs.append("OVal %s" % zlit(int(round(x[3] * 100000))))
    st = p["static"]
    durs = [F(a, b) * 100000 for a, b in st["durs"]]
    assert all(d.denominator == 1 for d in durs)
    return "list_eqb out_eqb (run_prog (static0 %s %s %s) [] %s) %s" % (
        zlist(st["vals"]), blit(st["cyclic"]), zlist([int(d) for d in durs]), lst(acts), lst(outs))


def static_part(run, n):
    rng = run.rng
    progs = [gen_program(rng) for _ in range(n)]
    parts = [progs[i::8] for i in range(8) if progs[i::8]]
    outs = run.impl_parallel("static_impl", [{"programs": q} for q in parts])
    results = [None] * len(progs)
    for si, out in enumerate(outs):
        for j, r in enumerate(out["results"]):
            results[si + j * 8] = r
    terms, where = [], []
    for pi, (p, r) in enumerate(zip(progs, results)):
        run.count()
        run.dist("static.programs")
        if "driver_error" in r:
            run.violation({"kind": "driver-error", "site": "static"}, {"part": "static", "program": p, "observed": r}, found_input=True)
            continue
        log = r["log"]
        bad = static_oracle(p, log)
        run.cov["oracle_evaluations"] += 1
        nreads = sum(1 for x in log if x[0] in ("read", "direct"))
        run.dist("static.reads", nreads)
        run.dist("static.direct-reads", sum(1 for x in log if x[0] == "direct"))
        run.dist("static.globals-sets", sum(1 for x in log if x[0] == "set"))
        run.dist("static.grid." + ("dyadic" if p["dyadic"] else "decimal"))
        ticks_multi = {}
        for x in log:
            if x[0] in ("read", "direct"):
                ticks_multi.setdefault(x[1], set()).add((x[0], x[2]))
        if any(len(v) >= 2 for v in ticks_multi.values()):
            run.dist("static.programs-with-simultaneous-readers")
            run.nontrivial(json.dumps(p, sort_keys=True))
        seen = set()
        for kind_, detail in bad:
            if kind_ in seen:
                continue
            seen.add(kind_)
            run.violation({"kind": kind_, "site": "PStaticPattern/PGlobals/PCurrentTime"}, {
                "part": "static", "program": p, "observed": detail, "log_head": log[:40],
                "python": "PYTHONPATH=/repo /venv/bin/python /verif/harness/impl/static_impl.py <<< '{\"programs\": [<program>]}'"})
        if bad:
            continue
        if not p["dyadic"]:
            run.discard("static program on a decimal grid: the code compares float differences (0.7 - 0.4 < 0.3); judged by the oracle only")
            continue
        terms.append(program_term(p, log)); where.append(pi)
    badi = run.coq_failing(STATIC_HEADER, terms, chunk=40)
    run.cov["static_programs_validated_against_model"] = len(terms) - len(badi)
    run.cov["traces_validated_against_impl"] += len(terms) - len(badi)
    for b in badi:
        pi = where[b]
        run.violation({"kind": "correspondence", "site": "Sched/Static.v"}, {
            "part": "static", "broken": "correspondence Sched/Static.v <-> isobar PStaticPattern/PGlobals/PCurrentTime on this program",
            "program": progs[pi], "observed": results[pi]["log"][:60]}, found_input=False)


def check(run):
    import time
    secs = run.cov.setdefault("part_seconds", {})

    def part(name, f, *a):
        t0 = time.time(); f(run, *a); secs[name] = round(time.time() - t0, 1)
    quick = run.tier == "quick"
    part("merge", merge_part, 260 if quick else 3000)
    # callbacks that change the set of tracks during the track phase (unschedule / mute a neighbour, stop themselves, schedule)
    part("midphase", MP.midphase_part, 60 if quick else 700)
    part("static", static_part, 240 if quick else 3000)
    # the same static / current-time / globals objects used by tracks of several timelines (one after the other, alternately)
    part("several-timelines", M.multi_part, 120 if quick else 1500)
    # globals whose values are patterns, set again over existing values, read by several tracks
    part("pattern-globals", GP.globals_part, 120 if quick else 1500)
    # tracks whose event values are notation strings (Pattern.pattern / parse_notation), the same strings on several tracks / timelines
    part("string-shorthand", NT.notation_part, 80 if quick else 1000)
    run.cov["rule"] = ("one case = one run on isobar's Timeline: a joint run of 1-6 tracks on distinct channels (random offsets/durations on a "
                       "common grid so that events coincide, scheduling-order permutations for <= 4 tracks, neighbours that finish / raise in "
                       "tolerant mode / are unscheduled) or the solo run of one of its tracks; non-trivial = joint run of >= 2 tracks with at "
                       "least one tick shared by two tracks; distinct by scenario text")


def replay(run, doc):
    if doc.get("part") == "multi":
        return M.replay_multi(run, doc)
    if doc.get("part") == "notation":
        return NT.replay_notation(run, doc)
    if doc.get("part") == "gpat":
        return GP.replay_gpat(run, doc)
    if doc.get("part") == "midphase":
        return MP.replay_midphase(run, doc)
    if doc.get("part") == "static":
        r = run.impl("static_impl", {"programs": [doc["program"]]})["results"][0]
        bad = static_oracle(doc["program"], r["log"]) if "log" in r else [("driver", r)]
        print("log:", json.dumps(r.get("log", r))[:1500])
        print("replay: oracle verdict:", bad or "ok")
        if not bad and doc["program"].get("dyadic"):
            m = run.coq_failing(STATIC_HEADER, [program_term(doc["program"], r["log"])])
            print("model agrees:", not m)
            return 1 if m else 0
        return 1 if bad else 0
    if doc.get("part") == "merge" and "desc" in doc:
        fsc = doc["scenario"]
        r = S.run_impl(run, [fsc], shards=1)[0]
        print("joint run:", json.dumps(r.get("obs", r))[:1500])
        rc = 0
        cb_owner = {int(k): v for k, v in doc["cb_owner"].items()}
        J = per_tick(fsc, r)
        for ch, ssc in doc["solo_scenarios"].items():
            sr = S.run_impl(run, [ssc], shards=1)[0]
            Sd = per_tick(ssc, sr)
            for t in range(min(len(J), len(Sd))):
                pj = [c for c in J[t][0] if owner_of(c, cb_owner) == int(ch)]
                if pj != Sd[t][0]:
                    print("channel %s tick %d: joint %r solo %r" % (ch, t, pj, Sd[t][0])); rc = 1
                    break
        for t, (calls, res, ids) in enumerate(J):
            ev = False
            for c in calls:
                if c[0] != "off":
                    ev = True
                elif ev:
                    print("tick %d: note-off after an event: %r" % (t, calls)); rc = 1
        print("replay:", "violation reproduced" if rc else "no projection / note-off-order violation on this input (see 'observed' for other kinds)")
        return rc
    fsc = doc["scenario"]
    r = S.run_impl(run, [fsc], shards=1)[0]
    bad = S.model_disagreements(run, [fsc], [r]) if "driver_error" not in r else [0]
    print("replay: implementation/model agree:", not bad)
    if bad:
        print("implementation:", json.dumps(r.get("obs", r))[:1500])
        print("model:", S.model_trace(run, fsc)[:1500])
    return 1 if bad else 0

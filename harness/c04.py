"""C04 — reset() rewinds any pattern to its initial state.

Theorems: coq/Props/C04.v (reset after any history gives the state a new instance has, hence the same outputs;
repeated resets change nothing; all() leaves the pattern rewound).
Correspondence: scripts next^k; reset; next^n; reset; next^n; all; next^n on random expressions over every
modelled class (k = 0, 1, mid-block, exactly at and past exhaustion), implementation vs Coq model.
Oracle (implementation only): the outputs after reset() / all() equal the outputs of a freshly constructed
instance built from the same expression."""
from pat_common import *
from c09 import canon_obs, root_cls, sub_patterns, CannotJudge

PROP = "C04"
META = {
 "engine": "P-pattern-algebra",
 "text": "Coq theorems (Props/C04.v, closed under the global context) prove on the executable model of the pattern classes (Pat/Step.v: __init__, __next__, reset() incl. Pattern.reset's walk over vars(self)): for the reset fragment rpat (constants, sequences of scalars, series, ranges, geometric series, impulses, the 15 operators, &, abs, int, references, stutter, counter, pad, pad-to-multiple, skip-if, loop, ping-pong, reverse, subsequence, collapse, no-repeats, changed, diff, wrap, reset-on-trigger over a counter-state class, nested to any depth, parameters scalars or patterns of the fragment; proved closed under next(): C04_fragment_closed) reset() after ANY number of next() calls - including calls that raised StopIteration - yields exactly the state reset() yields on the untouched object, which for a newly constructed object is the object itself; hence the outputs after reset() are those of a new instance, repeated resets change nothing, and all() leaves the object rewound. The model is tied to the repository on every run by scripts next^k; reset; next^n; reset; next^n; all(m); next^n with k at 0, 1, block boundaries, exhaustion and beyond, on random expressions over every modelled class, compared inside Coq; an implementation-only oracle compares every post-reset output with a freshly constructed instance. Seedable and configurable classes (Pat/Seeded.v: constructors that draw, seed() overrides, __next__ that resets itself, configuration methods called at any time; generator as data): for every class meeting the contract `rewinds` - proved for PArpeggiator RANDOM, PRandomImpulseSequence with every(), all machines of Pat/Chance.v - and every history over next/reset/seed/configuration calls, reset() leaves exactly the newly constructed instance with the seed in force and the configuration calls made (C04_reset_is_fresh_configured_instance), and a freshly seeded instance consumed straight away is what reset() reproduces and what any other fresh instance with that seed is (C04_fresh_seeded_is_what_reset_reproduces, C04_seeded_instances_agree); PRef.set_pattern starts a new history (C04_reset_after_set_pattern). Stochastic patterns that contain stochastic patterns (Pat/SeededNest.v: the parent's __next__ is any program over its own draws and 'next value of child i', every child owns a generator and a seed): after any history of next / reset / seed of the parent / seed of a child, reset() leaves the newly constructed nest with, per object, the seed in force, and seeding a new nest in any order gives the nest constructed with those seeds - the parent's seed() spends nothing of its stream on the children (C04_nested_reset_is_fresh, C04_nested_seeding, C04_nested_seeded_then_reset). Tied to the repository by the seeded/configured stream: every PStochasticPattern subclass of the live package, seeded, configured through every / set_pattern / item assignment in the set-up and in mid-history, alone, nested, and containing further stochastic patterns seeded in any order, every clean segment compared with a newly constructed identically seeded and configured instance, recorded draws replayed through the model inside Coq.",
 "note": "PReset over nested patterns, PRound PIndexOf PArrayIndex PDict PDictKey PConcatenate, PSequence with pattern items and list-/tuple-/dict-valued parameters are proved on the extended fragment xpat (Props/C04More.v: C04_more_reset_erases_step, C04_more_reset_erases_reset). Patterns stored inside tuples are rewound since the repair C04-reset-tuples (Step.reset_value; C04_more_tuple_item_rewound; the tuple stratum generates such objects). Trusted: Coq kernel + VM; the harness. Stochastic classes: ranges, isolation and the generator contract are C11; their reset()/seed() is in Pat/Seeded.v (PArpeggiator RANDOM, PRandomImpulseSequence, the machines of Pat/Chance.v by embedding), the other seedable classes (PRandomExponential, regular PCoin/PSkip, pattern-valued parameters) by the oracle only. Configuration methods that draw (PMarkov.randomize) and PArpeggiator.notes= are not covered. Deterministic classes outside the model (PEuclidean PArpeggiator PNormalise PTri PSaw PPermut) are judged by the oracle only. The main stream puts tuples of scalars only; patterns inside tuples are the business of the tuple stratum.",
}

REFN = 26
ORACLE_ONLY = ("PEuclidean", "PArpeggiator", "PNormalise", "PTri", "PSaw", "PPermut")


def oracle_only_expr(rng, gen):
    k = rng.choice(ORACLE_ONLY)
    if k == "PEuclidean":
        n = rng.randint(1, 8)
        return E(k, rng.randint(0, n), n, rng.randint(0, n - 1))        # PEuclidean(onsets <= steps, steps, phase < steps)
    if k == "PArpeggiator":
        return E(k, [rng.randint(0, 12) for _ in range(rng.randint(1, 5))], rng.randint(0, 3))
    if k == "PNormalise":
        return E(k, gen.gen(1, rng.random() < 0.7))
    if k in ("PTri", "PSaw"):
        return E(k, rng.randint(1, 8), 0.0, float(rng.randint(1, 4)))
    return E(k, gen.gen(1, True), rng.randint(1, 3))


def script(rng, first_stop):
    """next^k; reset; next^n; reset; next^n; all(m); next^n"""
    ks = [0, 1, rng.randint(0, 6), rng.randint(2, 12)]
    if first_stop is not None:
        ks += [first_stop, first_stop + 1, first_stop + 3, max(0, first_stop - 1)]
    k = min(rng.choice(ks), REFN - 2)
    n = rng.randint(2, 7)
    ops = [("next", 0)] * k + [("reset", 0)] + [("next", 0)] * n
    r = rng.random()
    if r < 0.5:
        ops += [("reset", 0)] + [("next", 0)] * rng.randint(1, 4)
    if r < 0.25 or r > 0.75:
        ops += [("nextn", 0, rng.randint(0, 4)), ("all", 0, rng.randint(0, 6))] + [("next", 0)] * rng.randint(1, 4)
    elif r > 0.6:
        ops += [("reset", 0), ("reset", 0)] + [("next", 0)] * 3
    return ops, k


def expected(ref, ops):
    """what a pattern that rewinds to its initial state produces, from the outputs `ref` of a fresh instance"""
    pos, out = 0, []

    def call():
        nonlocal pos
        if pos >= len(ref):
            raise CannotJudge("reference run too short")
        o = ref[pos]; pos += 1
        return o
    for op in ops:
        k = op[0]
        if k == "next":
            out.append(call())
        elif k == "reset":
            out.append({"y": None}); pos = 0
        elif k in ("nextn", "all"):
            vals = []
            while len(vals) < op[2]:
                o = call()
                if o == "stop":
                    break
                if "r" in o:
                    raise CannotJudge("exception inside a helper")
                vals.append(o["y"])
            out.append({"y": {"l": vals}})
            if k == "all":
                pos = 0
    return out


def judge(c, ref):
    want = expected(ref.obs[1:], c.ops)
    got = c.obs[1:]
    for i, w in enumerate(want):
        if i >= len(got) or canon_obs(got[i]) != canon_obs(w):
            return {"op": i, "opname": c.ops[i][0], "expected": canon_obs(w), "observed": canon_obs(got[i]) if i < len(got) else "nothing"}
    return None


def check(run):
    rng = run.rng
    thorough = run.tier == "thorough"
    sigs = run.impl("pat_impl", {"signatures": list(REGISTRY)})["signatures"]
    stale = {cls for cls, _ in check_registry(run, sigs)}
    run.cov["registry_mismatches"] = sorted(stale)
    gen = Gen(rng, run)
    classes = list(GENERATORS)
    exprs = []
    for i in range(36000 if thorough else 2600):
        depth = 1 + (i % 3) if rng.random() >= 0.05 else 5
        cls = classes[i % len(classes)] if rng.random() < 0.75 else None
        e = gen.gen(depth, rng.random() < 0.6, cls)
        if rng.random() < 0.06:
            e = oracle_only_expr(rng, gen)
            if rng.random() < 0.3:
                e = E("PAdd", e, 1)
        exprs.append(e)
    refs = {}
    for e in exprs:
        refs.setdefault(to_source(e), Case(e, [("next", 0)] * REFN, "ref"))
    run_impl(run, list(refs.values()))
    cases = []
    for e in exprs:
        r = refs[to_source(e)]
        if r.status or not r.obs or canon_obs(r.obs[0]) != "value null":
            run.count(); run.discard("constructor raised / timeout"); continue
        stops = [i for i, o in enumerate(r.obs[1:]) if o == "stop"]
        ops, k = script(rng, stops[0] if stops else None)
        cases.append(Case(e, ops, "reset", {"k": k, "first_stop": stops[0] if stops else None}))
    run_impl(run, cases)

    reported = [0]
    for c in cases:
        run.count(); run.dist("root." + root_cls(c.expr))
        fs, k = c.meta["first_stop"], c.meta["k"]
        run.dist("prefix." + ("0" if k == 0 else "1" if k == 1 else "past-exhaustion" if fs is not None and k > fs
                              else "at-exhaustion" if fs is not None and k == fs else "mid"))
        if c.status:
            run.discard("impl-" + c.status); continue
        r = refs[to_source(c.expr)]
        try:
            dev = judge(c, r)
        except CannotJudge as e:
            run.discard("oracle: " + str(e)); continue
        run.cov["oracle_evaluations"] += len(c.obs)
        # non-trivial: something was consumed before the reset and continuing without it would look different
        n = sum(1 for o in c.ops[k + 1:] if o[0] == "next")
        if k > 0 and [canon_obs(o) for o in r.obs[1 + k:1 + k + 3]] != [canon_obs(o) for o in r.obs[1:4]]:
            run.nontrivial(to_source(c.expr) + " k=%d" % k)
        if dev is None:
            continue
        reported[0] += 1
        if reported[0] > 8:
            continue
        # the smallest sub-pattern that itself fails names the class
        best = c
        if reported[0] <= 4:
            subs = [Case(sp, c.ops, "sub") for sp in sub_patterns(c.expr)]
            subrefs = [Case(sp, [("next", 0)] * REFN, "ref") for sp in sub_patterns(c.expr)]
            if subs:
                run_impl(run, subs + subrefs, shards=4)
                for s, sr in sorted(zip(subs, subrefs), key=lambda p: size(p[0].expr)):
                    try:
                        if not s.status and not sr.status and len(sr.obs) > 1 and judge(s, sr) is not None:
                            best, r = s, sr
                            break
                    except CannotJudge:
                        pass
        dev = judge(best, r)
        run.violation({"kind": "reset", "class": root_cls(best.expr), "after": dev["opname"]}, {
            "case": {"expr": to_source(best.expr), "expr_json": to_json(best.expr), "ops": [list(o) for o in best.ops]},
            "expected": "operation %d (%s): %s  [what a newly constructed instance produces]" % (dev["op"], dev["opname"], dev["expected"]),
            "observed": dev["observed"], "observed_outputs": best.obs_pretty(),
            "fresh_instance_outputs": r.obs_pretty(),
            "python": replay_snippet(best.expr, best.ops[:dev["op"] + 1])})

    # ---- model
    allc = [c for c in cases if not (stale and any(isinstance(n, E) and n.cls in stale for _, n in nodes(c.expr)))]
    run_model(run, allc)
    for c in allc:
        if c.verdict == "discard":
            run.discard((c.status or "?").split(":")[0])
        elif c.verdict == "agree":
            run.cov["traces_validated_against_impl"] += 1
    seen = set()
    for c in [c for c in allc if c.verdict == "disagree"][:2]:
        small = shrink(run, c, rounds=4)
        sig = {"kind": "correspondence", "class": root_cls(small.expr)}
        if json.dumps(sig) in seen:
            continue
        seen.add(json.dumps(sig))
        run.violation(sig, {
            "broken": "correspondence Pat/Step.v (reset / step / init) vs the implementation on %s: the theorems of Props/C04.v no longer speak about this code" % root_cls(small.expr),
            "case": {"expr": to_source(small.expr), "expr_json": to_json(small.expr), "ops": [list(o) for o in small.ops]},
            "observed": small.obs_pretty(), "model": model_trace(run, small),
            "python": replay_snippet(small.expr, small.ops)}, found_input=False)
    check_seeded(run)
    check_entropy_seeded(run)
    check_edges(run)
    check_constant_holders(run)
    check_tuple_patterns(run)
    if cases:
        run.sample({"expr": to_source(cases[0].expr), "ops": [list(o) for o in cases[0].ops], "observed": cases[0].obs_pretty()})
    run.cov["rule"] = ("one case = one expression + one script next^k; reset; next^n; [reset; next^n;] [nextn; all; next^n]; "
                       "non-trivial = k > 0 and the un-reset continuation differs from the start of the sequence (a no-op reset would be seen)")


# ==========================================================================================================
# Seeded / configured stream: "a newly constructed, identically SEEDED instance" - every PStochasticPattern
# subclass of the live package (fail closed), seeded through .seed(s), configured AFTER construction through
# its public configuration methods (PRandomImpulseSequence.every, PRef.set_pattern, PDict item assignment),
# also re-seeded / re-configured in the middle of a history, alone and nested inside deterministic patterns.
# Oracle (from the property text): every "clean" segment of outputs - from construction + set-up, or after a
# reset() / all() - equals the outputs of a NEWLY CONSTRUCTED instance that received the seed in force and the
# configuration calls made so far (so: fresh-seeded output = output after reset = output of another fresh
# instance).  An unseeded stochastic pattern is compared with its own earlier clean segments.
# Model (Pat/Seeded.v, compared inside Coq with the recorded draws replayed): PArpeggiator(RANDOM),
# PRandomImpulseSequence with every(); PRef.set_pattern through Pat/Step.v (the re-configuration starts a new history).
# ==========================================================================================================
S_REFN = 40
CASE_KEYS = ("inner", "objs", "wrap", "setup", "ops", "refs", "record")
DOC_KEYS = ("cls", "inner", "objs", "stoch_names", "wrap", "setup", "ops", "refs", "stochastic")
ARP_TYPES = ["UP", "DOWN", "CONVERGE", "DIVERGE", "RANDOM", "UPDOWN", "DOWNUP", "BUILD", "BREAK", "ROOTBOUNCE"]
EVERY_ACTIONS = [("'generate'", "AGenerate"), ("'explore'", "AExplore"), ("'reset'", "AReset"), ("noop", "ANoop"), ("None", "ANone")]


def _sints(r, lo, hi, vlo=0, vhi=24):
    return [r.randint(vlo, vhi) for _ in range(r.randint(lo, hi))]


def _sseq(r, lo=0, hi=6):
    return "iso.PSequence(%r, 1)" % _sints(r, lo, hi)


def r_white(r):
    if r.random() < 0.3:
        return {"inner": "iso.PWhite(%s, %d, %d)" % (r.choice(["iso.PSequence([0, 10, 5])", "iso.PSeries(0, 1)"]), r.randint(20, 40), r.choice([0, 5]))}
    a = r.randint(0, 60)
    fl = r.random() < 0.4
    return {"inner": "iso.PWhite(%r, %r%s)" % (float(a) if fl else a, float(a + r.randint(1, 60)) if fl else a + r.randint(1, 60),
                                               ", %d" % r.randint(1, 7) if r.random() < 0.5 else "")}


def r_arp(r):
    t = r.choice(ARP_TYPES + ["RANDOM"] * 8)
    notes = sorted(set(_sints(r, 3 if t in ARP_TYPES[7:] else 1, 7)))
    while len(notes) < (3 if t in ARP_TYPES[7:] else 1):
        notes.append(notes[-1] + 1)
    loop = r.random() < 0.4
    out = {"inner": "iso.PArpeggiator(%r, iso.PArpeggiator.%s, %r)" % (notes, t, loop)}
    if t == "RANDOM":
        out["model"] = ("arp", notes, loop)
    return out


def r_impulse(r):
    prob = r.choice([0.25, 0.5, 0.75, 0.3, 0.9, 0.0, 1.0])
    length = r.choice([1, 2, 3, 4, 5, 8, 8, 0])
    return {"inner": "iso.PRandomImpulseSequence(%r, %d)" % (prob, length), "model": ("imp", prob, length),
            "config": lambda r: every_call(r)}


def every_call(r):
    n = r.choice([0, 1, 2, 3, 4, 5, 8, -1])
    a = r.choice(EVERY_ACTIONS[:3] * 3 + EVERY_ACTIONS[3:])
    return ["call", "every", [str(n), a[0]]]


def r_markov(r):
    if r.random() < 0.5:
        return {"inner": "iso.PMarkov(%r)" % (_sints(r, 3, 7, 1, 4) + [1])}
    n = r.randint(1, 4)
    d = {i: sorted(set([i + 1] + [r.randint(i + 1, n) for _ in range(r.randint(0, 2))])) for i in range(n)}
    d[n] = [] if r.random() < 0.6 else [0]
    return {"inner": "iso.PMarkov(%r)" % d}


SEEDED_RECIPES = {
    "PWhite": r_white,
    "PBrown": lambda r: {"inner": "iso.PBrown(%d, %r, %d, %d)" % (r.randint(40, 60), r.choice([1, 2, 3, 0.5, 1.5]), 30, 90)},
    "PCoin": lambda r: {"inner": "iso.PCoin(%r%s)" % (r.choice([0.2, 0.5, 0.8, 0.35]), ", True" if r.random() < 0.3 else "")},
    "PRandomWalk": lambda r: {"inner": "iso.PRandomWalk(%r, %d, %d%s)" % (_sints(r, 2, 6), 1, r.randint(1, 3), ", False" if r.random() < 0.2 else "")},
    "PChoice": lambda r: (lambda v: {"inner": "iso.PChoice(%r%s)" % (v, ", %r" % [r.randint(1, 4) for _ in v] if r.random() < 0.4 else "")})(_sints(r, 1, 5)),
    "PSample": lambda r: (lambda v: {"inner": "iso.PSample(%r, %d)" % (v, r.randint(1, len(v)))})(_sints(r, 2, 5)),
    "PShuffle": lambda r: {"inner": "iso.PShuffle(%r%s)" % (_sints(r, 0, 5), ", %d" % r.randint(0, 3) if r.random() < 0.7 else "")},
    "PShuffleInput": lambda r: {"inner": "iso.PShuffleInput(%s, %d)" % (_sseq(r, 0, 8), r.randint(1, 4))},
    "PSkip": lambda r: {"inner": "iso.PSkip(%s, %r%s)" % (_sseq(r, 0, 7) if r.random() < 0.7 else "iso.PSeries(0, 1)", r.choice([0.0, 0.3, 0.5, 0.8, 1.0]),
                                                        ", True" if r.random() < 0.3 else "")},
    "PFlipFlop": lambda r: {"inner": "iso.PFlipFlop(%d, %r, %r)" % (r.randint(0, 1), r.choice([0.2, 0.5, 0.9]), r.choice([0.2, 0.5, 0.9]))},
    "PSwitchOne": lambda r: {"inner": "iso.PSwitchOne(%s, %d)" % (_sseq(r, 4, 8), r.randint(2, 4))},
    "PRandomExponential": lambda r: {"inner": "iso.PRandomExponential(1, %d)" % r.randint(5, 100)},
    "PRandomImpulseSequence": r_impulse,
    "PMarkov": r_markov,
    "PArpeggiator": r_arp,
    "PStochasticPattern": lambda r: {"inner": "iso.PStochasticPattern()"},
}
# deterministic classes with a public configuration method
WRAPS = [None, None, None, "(X + 1)", "iso.PAbs(X)", "iso.PSequence([iso.PAbs(X), iso.PSeries(100, 1)])", "iso.PStutter(X, 2)",
         "iso.PDict({'a': X, 'b': iso.PSeries(0, 1)})", "iso.PConcatenate([iso.PSubsequence(X, 0, 3), iso.PSeries(0, 1, 2)])",
         "iso.PSequence([X, 7], 3)", "iso.PRef(X)", "iso.PPad(iso.PSubsequence(X, 1, 4), 6)"]


def r_ref(r, gen):
    old = gen.gen(r.randint(0, 2), r.random() < 0.5)
    new = gen.gen(r.randint(0, 2), r.random() < 0.6)
    return {"inner": "iso.PRef(%s)" % to_source(old), "config": lambda r2: ["call", "set_pattern", [to_source(new)]], "force_config": True,
            "model": ("ref", new)}


def r_dict(r, gen):
    a, b, c = (gen.gen(r.randint(0, 1), r.random() < 0.5) for _ in range(3))
    return {"inner": "iso.PDict({'a': %s, 'b': %s})" % (to_source(a), to_source(b)), "force_config": True,
            "config": lambda r2: ["call", "__setitem__", [repr(r.choice(["a", "b", "c"])), to_source(c)]]}


# ---- stochastic patterns that directly CONTAIN stochastic patterns -------------------------------------------------------
def k_white(r):
    a = r.randint(0, 40)
    b = a + r.randint(2, 60)
    ln = r.choice([0, 0, 0, 5, 9])
    return "iso.PWhite(%d, %d%s)" % (a, b, ", %d" % ln if ln else ""), ("white", a, b, ln)


def k_brown(r):
    init, step = r.randint(40, 60), r.randint(1, 4)
    return "iso.PBrown(%d, %d, 30, 90)" % (init, step), ("brown", init, step, 30, 90)


def k_shuffle(r):
    vals, rep = _sints(r, 2, 6), r.randint(1, 3)
    return "iso.PShuffle(%r, %d)" % (vals, rep), ("pshuffle", vals, rep)


def k_other(r):
    return r.choice([lambda: "iso.PChoice(%r)" % _sints(r, 2, 5), lambda: "iso.PArpeggiator(%r, iso.PArpeggiator.RANDOM, True)" % sorted(set(_sints(r, 2, 6))),
                     lambda: "iso.PMarkov(%r)" % (_sints(r, 3, 7, 1, 4) + [1]), lambda: "iso.PWhite(%r, %r)" % (float(r.randint(0, 5)), float(r.randint(6, 20))),
                     lambda: "iso.PRandomWalk(%r, 1, 2)" % _sints(r, 3, 6), lambda: "iso.PCoin(%r)" % r.choice([0.3, 0.5, 0.8])])(), None


def r_nested(r):
    """objs (inner objects first, X last), names of the stochastic ones, model of the nest or None"""
    kid_src, kid_model = r.choice([k_white, k_white, k_brown, k_shuffle, k_other])(r)
    t = r.random()
    if t < 0.34:
        play = r.choice([0.25, 0.5, 0.75, 0.3, 0.6, 0.9])
        return {"cls": "PSkip", "objs": [["I0", kid_src], ["X", "iso.PSkip(I0, %r)" % play]], "stoch_names": ["I0", "X"],
                "model": ("nest", "pskip", play, kid_model) if kid_model else None}
    if t < 0.44:
        return {"cls": "PCoin", "objs": [["I0", "iso.PWhite(%r, %r)" % (r.choice([0.1, 0.2, 0.3]), r.choice([0.7, 0.8, 0.9]))], ["X", "iso.PCoin(I0)"]],
                "stoch_names": ["I0", "X"], "model": None}
    if t < 0.56:
        return {"cls": "PShuffleInput", "objs": [["I0", kid_src], ["X", "iso.PShuffleInput(I0, %d)" % r.randint(2, 5)]], "stoch_names": ["I0", "X"], "model": None}
    if t < 0.66:
        return {"cls": "PRandomWalk", "objs": [["I0", "iso.PWhite(1, %d)" % r.randint(2, 4)], ["X", "iso.PRandomWalk(%r, 1, I0)" % _sints(r, 3, 6)]],
                "stoch_names": ["I0", "X"], "model": None}
    if t < 0.74:
        return {"cls": "PWhite", "objs": [["I0", "iso.PWhite(0, 10)"], ["I1", "iso.PWhite(20, 30)"], ["X", "iso.PWhite(I0, I1)"]],
                "stoch_names": ["I0", "I1", "X"], "model": None}
    if t < 0.82:
        return {"cls": "PBrown", "objs": [["I0", "iso.PWhite(1, 4)"], ["X", "iso.PBrown(50, I0, 30, 90)"]], "stoch_names": ["I0", "X"], "model": None}
    if t < 0.9:
        return {"cls": "PSwitchOne", "objs": [["I0", "iso.PWhite(0, 20, 8)"], ["X", "iso.PSwitchOne(I0, 4)"]], "stoch_names": ["I0", "X"], "model": None}
    # three levels, and a deterministic pattern between two stochastic ones
    if r.random() < 0.5:
        return {"cls": "PSkip", "objs": [["I0", kid_src], ["M", "iso.PSkip(I0, 0.7)"], ["X", "iso.PSkip(M, 0.5)"]], "stoch_names": ["I0", "M", "X"], "model": None}
    return {"cls": "PSkip", "objs": [["I0", kid_src], ["X", "iso.PSkip(iso.PStutter(I0 + 1, 2), 0.6)"]], "stoch_names": ["I0", "X"], "model": None}


def script_tail(rng, pre):
    ops = pre + [["reset"]] + ["next"] * rng.randint(3, 12)
    x = rng.random()
    if x < 0.3:
        ops += [["reset"]] + ["next"] * rng.randint(2, 8)
    elif x < 0.45:
        ops += ["next"] * rng.randint(0, 3) + [["reset"], ["reset"]] + ["next"] * rng.randint(2, 6)
    elif x < 0.6:
        ops += [["all", rng.randint(0, 9)]] + ["next"] * rng.randint(2, 6)
    return ops


def nested_script(rng, spec):
    """seed() on the outer pattern and / or the inner ones, in any order, in the set-up and in the middle of the history"""
    seedop = lambda n: ["callon", n, "seed", [str(rng.randint(0, 9999))]]
    names = list(spec["stoch_names"])
    setup = [seedop(n) for n in names if rng.random() < 0.88]
    rng.shuffle(setup)
    if setup and rng.random() < 0.15:
        setup.append(seedop(rng.choice(names)))                   # seeded twice
    pre = ["next"] * rng.choice([0, 0, 1, 1, 2, 3, 5, 8, rng.randint(0, 14)])
    for _ in range(rng.choice([0, 0, 0, 1, 1, 2])):
        pre.insert(rng.randint(0, len(pre)), seedop(rng.choice(names)))
    return setup, script_tail(rng, pre)


NEST_HEADER = """From Isobar Require Import Base.Prelude Pat.Chance Pat.Seeded Pat.SeededNest.
From Coq Require Import QArith.
Open Scope Z_scope.
"""


def kid_term(m):
    if m[0] == "white":
        return "(of_machine replay (white replay rp_unit false (inject_Z %s) (inject_Z %s) %s))" % (zlit(m[1]), zlit(m[2]), zlit(m[3]))
    if m[0] == "brown":
        return "(of_machine replay (brown replay rp_below %s %s %s %s))" % tuple(zlit(v) for v in m[1:])
    return "(of_machine replay (pshuffle replay rp_below %s %s))" % (zlist(m[1]), zlit(m[2]))


def nested_term(case, out):
    """Coq boolean: Pat/SeededNest.v (PSkip over a child with a generator of its own), fed the draws recorded per object and
    epoch, gives the observed outputs and every object asks its generator for exactly the recorded draws"""
    _, _, play, km = case["model"]
    eps, owners, opened = out["epochs"], out["owners"], out["opened"]
    if km[0] == "white":                      # int(uniform(a, b)): keep away from the float rounding at integer boundaries
        for e, ow in zip(eps, owners):
            if ow == "I0":
                for q, k in e:
                    x = km[1] + (km[2] - km[1]) * Fraction(k, 2 ** 53)
                    if x != round(x) and abs(x - round(x)) < Fraction(1, 2 ** 30):
                        raise Unrepresentable("margin")
    first = {ow: owners.index(ow) for ow in ("I0", "X")}
    nops, exp = [], []
    allops = case["setup"] + case["ops"]
    ev = iter(out["events"])
    for j, op in enumerate(allops):
        o = next(ev) if j >= len(case["setup"]) else None
        b, a = opened[j]
        new = list(range(b, a))
        if op == "next":
            if new:
                raise Unrepresentable("next() seeded a generator")
            nops.append("NNext"); exp.append(kres_term(o))
        elif op[0] == "reset":
            if sorted(owners[e] for e in new) != ["I0", "X"]:
                raise Unrepresentable("reset() seeded %r" % [owners[e] for e in new])
            for e in new:
                nops.append("(NKidSeed 0 %d)" % e if owners[e] == "I0" else "(NSeed %d)" % e)
            nops.append("NReset")
        elif op[0] == "callon" and op[2] == "seed":
            if len(new) != 1 or owners[new[0]] != op[1]:
                raise Unrepresentable("seed() seeded %r" % [owners[e] for e in new])
            nops.append("(NKidSeed 0 %d)" % new[0] if op[1] == "I0" else "(NSeed %d)" % new[0])
        else:
            raise Unrepresentable("operation %r" % (op,))
    strict = [blit(e not in first.values()) for e in range(len(eps))]
    fr = Fraction(play)
    return "(let eps := %s in check_nscript (pskip replay (%s # %d)) eps %s %s %d [(%s, %d)] %s %s)" % (
        lst([zlist([k for _, k in e]) for e in eps]), zlit(fr.numerator), fr.denominator,
        lst([zlist([q for q, _ in e]) for e in eps]), lst(strict), first["X"], kid_term(km), first["I0"], lst(nops), lst(exp))


def seeded_script(rng, spec, stochastic):
    """set-up calls + script; returns (setup, ops)"""
    setup = []
    seeded = stochastic and rng.random() < 0.85
    if seeded:
        setup.append(["call", "seed", [str(rng.randint(0, 9999))]])
    if spec.get("config") and (spec.get("force_config") or rng.random() < 0.8):
        setup.append(spec["config"](rng))
        if spec.get("force_config") and rng.random() < 0.5:          # configured in the middle of the history instead
            setup.pop()
    if rng.random() < 0.5:
        setup.reverse()
    ops = []
    k = rng.choice([0, 1, 1, 2, 3, 5, 8, rng.randint(0, 14)])
    n = rng.randint(3, 12)
    mid = []
    if spec.get("config") and (rng.random() < 0.35 or not any(o[1] != "seed" for o in setup) and spec.get("force_config")):
        mid.append(spec["config"](rng))
    if stochastic and rng.random() < 0.2:
        mid.append(["call", "seed", [str(rng.randint(0, 9999))]])
    pre = ["next"] * k
    for m in mid:
        pre.insert(rng.randint(0, len(pre)), m)
    ops += pre + [["reset"]] + ["next"] * n
    x = rng.random()
    if x < 0.3:
        ops += [["reset"]] + ["next"] * rng.randint(2, 8)
    elif x < 0.45:
        ops += ["next"] * rng.randint(0, 3) + [["reset"], ["reset"]] + ["next"] * rng.randint(2, 6)
    elif x < 0.6:
        ops += [["all", rng.randint(0, 9)]] + ["next"] * rng.randint(2, 6)
    return setup, ops


def op_target(op):
    return op[1] if op[0] == "callon" else "X"


def op_method(op):
    return op[2] if op[0] == "callon" else op[1]


def op_args(op):
    return op[3] if op[0] == "callon" else op[2]


def seeded_segments(case):
    """clean segments of a case: [(key, [observations], seed calls in force, configuration calls so far)].
    A segment starts at construction + set-up or after reset()/all() and ends at the next call that is not next()/all().
    Seed calls are kept per object (the pattern itself and the named stochastic patterns it contains), last one wins."""
    names = [n for n, _ in case.get("objs") or []] or ["X"]
    if names[-1] != "X":
        names = names[:-1] + ["X"]                     # the last named object is X
    alias = (case.get("objs") or [["X", None]])[-1][0]
    seeds, cfgs = {}, []

    def note(op):
        if op_method(op) == "seed":
            t = op_target(op)
            seeds["X" if t == alias else t] = op
        else:
            cfgs.append(op)
    for op in case["setup"]:
        note(op)
    out, cur, clean = [], [], True
    seedlist = lambda: [seeds[n] for n in names if n in seeds]
    key = lambda: (json.dumps(seedlist()), json.dumps(cfgs))
    ev = case["events"]
    for op, o in zip(case["ops"], ev):
        if op == "next":
            if clean:
                cur.append(o)
        elif op[0] == "all":
            ok = isinstance(o, dict) and "y" in o and isinstance(o["y"], dict) and "l" in o["y"]
            if clean and ok:
                vals = o["y"]["l"]
                cur += [{"y": v} for v in vals]
                if len(vals) < op[1]:
                    cur.append("stop")
            if clean:
                out.append((key(), cur, seedlist(), list(cfgs)))
            # an exception inside all(): the object was not reset; nothing more is judged until the next reset()
            cur, clean = [], ok
        elif op[0] == "reset":
            if clean:
                out.append((key(), cur, seedlist(), list(cfgs)))
            cur, clean = [], (o == {"y": None})
        else:
            if clean:
                out.append((key(), cur, seedlist(), list(cfgs)))
            cur, clean = [], False
            note(op)
    if clean:
        out.append((key(), cur, seedlist(), list(cfgs)))
    return out


def all_seeded(case, seedlist):
    """every stochastic object of the case has a seed in force (otherwise a fresh instance is no reference)"""
    need = case.get("stoch_names")
    if need is None:
        need = ["X"] if case["stochastic"] else []
    alias = (case.get("objs") or [["X", None]])[-1][0]
    have = {("X" if op_target(o) == alias else op_target(o)) for o in seedlist}
    return all(("X" if n == alias else n) in have for n in need)


def build_lines(case):
    if case.get("objs"):
        return ["%s = %s" % (n, src) for n, src in case["objs"]] + (["X = %s" % case["objs"][-1][0]] if case["objs"][-1][0] != "X" else [])
    return ["X = %s" % case["inner"]]


def call_line(op):
    return "%s.%s(%s)" % (op_target(op), op_method(op), ", ".join(op_args(op)))


def seeded_snippet(case, upto=None):
    lines = ["import isobar as iso", "def noop(): return None"] + build_lines(case)
    for op in case["setup"]:
        lines.append(call_line(op))
    lines.append("p = %s" % (case["wrap"] or "X"))
    for op in case["ops"][:upto]:
        if op == "next":
            lines.append("print(next(p))")
        elif op[0] == "reset":
            lines.append("p.reset()")
        elif op[0] == "all":
            lines.append("print(p.all(%d))" % op[1])
        elif op[0] == "copy":
            lines.append("q = p.copy(); %sprint('copy:', q.nextn(%d))" % ("q.reset(); " if op[2] else "", op[1]))
        else:
            lines.append(call_line(op))
    return "\n".join(lines)


def fresh_snippet(case, seeds, cfgs, n):
    lines = ["# the newly constructed, identically seeded and configured instance"] + build_lines(case)
    for op in list(seeds) + cfgs:
        lines.append(call_line(op))
    lines += ["q = %s" % (case["wrap"] or "X"), "print(q.nextn(%d))" % n]
    return "\n".join(lines)


def seeded_judge(case, out):
    """None | violation document pieces.  Raises CannotJudge."""
    if out.get("status"):
        raise CannotJudge("impl-" + out["status"])
    if out["build"] != {"y": None}:
        raise CannotJudge("constructor / set-up raised")
    case = dict(case, events=out["events"])
    segs = seeded_segments(case)
    refmap = {json.dumps(r["setup"]): obs for r, obs in zip(case["refs"], out["refs"])}
    first = {}
    for si, (key, obs, seed, cfgs) in enumerate(segs):
        use_fresh = all_seeded(case, seed)
        if use_fresh:
            robs = refmap.get(json.dumps(list(seed) + cfgs))
            if robs is None or robs[0] != {"y": None}:
                continue
            ref, what = robs[1:], "a newly constructed instance with the same seed and configuration calls"
        else:
            if key not in first:
                first[key] = (si, obs)
                continue
            ref, what = first[key][1], "its own outputs after construction / an earlier reset (unseeded: the seed drawn by the constructor is kept)"
        for i, o in enumerate(obs):
            if i >= len(ref):
                break
            if canon_obs(o) != canon_obs(ref[i]):
                return {"segment": si, "index": i, "expected": canon_obs(ref[i]), "observed": canon_obs(o), "what": what,
                        "segment_outputs": [pretty_obs(x) for x in obs], "reference_outputs": [pretty_obs(x) for x in ref[:len(obs) + 2]],
                        "seed": seed, "cfgs": cfgs, "after_reset": si > 0}
    return None


def kres_term(o):
    if o == "stop":
        return "Chance.Stop"
    if isinstance(o, dict) and "r" in o:
        return "Fail"
    v = from_json(o["y"])
    if v is None:
        return "(Out ONone)"
    if isinstance(v, int) and not isinstance(v, bool):
        return "(Out (OZ %s))" % zlit(v)
    raise Unrepresentable("value %r" % (v,))


SEEDED_HEADER = """From Isobar Require Import Base.Prelude Pat.Chance Pat.Seeded.
From Coq Require Import QArith.
Open Scope Z_scope.
"""


def seeded_term(case, out):
    """Coq boolean: the model of Pat/Seeded.v, fed the recorded draws, produces the observed outputs and asks the generator
    for exactly the recorded draws in every epoch"""
    kind = case["model"]
    eps_impl, opened = out["epochs"], out["opened"]
    allops = case["setup"] + case["ops"]
    kops, exp = [], []
    groups = [[0]]                       # impl epochs belonging to model epoch e
    ev = iter(out["events"])
    for j, op in enumerate(allops):
        o = next(ev) if j >= len(case["setup"]) else None
        b, a = opened[j]
        if op == "next":
            kops.append("KNext"); exp.append(kres_term(o))
            groups[-1] += list(range(b, a))                       # reset() from inside __next__
        elif op[0] == "reset":
            if a != b + 1:
                raise Unrepresentable("reset() seeded the generator %d times" % (a - b))
            groups.append([b]); kops += ["(KSeed %d)" % (len(groups) - 1), "KReset"]
        elif op[1] == "seed":
            if a != b + 1:
                raise Unrepresentable("seed() seeded the generator %d times" % (a - b))
            groups.append([b]); kops.append("(KSeed %d)" % (len(groups) - 1))
        elif op[1] == "every":
            act = dict(EVERY_ACTIONS)[op[2][1]]
            kops.append("(KConfig (%s, %s))" % (zlit(int(op[2][0])), act))
        else:
            raise Unrepresentable("operation %r" % (op,))
    draws, reqs, strict = [], [], []
    for g in groups:
        best = max(g, key=lambda e: len(eps_impl[e]))
        draws.append(zlist([k for _, k in eps_impl[best]])); reqs.append(zlist([q for q, _ in eps_impl[best]]))
        strict.append(blit(len(g) == 1))
    if kind[0] == "arp":
        cls = "(arp_random replay rp_below (rp_seed eps) %s %s)" % (zlist(kind[1]), blit(kind[2]))
        ops = "(%s : list (kop unit))" % lst(kops)
    else:
        fr = Fraction(kind[1])
        cls = "(impulse_seq replay rp_unit rp_below (rp_seed eps) (%s # %d) %s)" % (zlit(fr.numerator), fr.denominator, zlit(kind[2]))
        ops = "(%s : list (kop (Z * eaction)))" % lst(kops)
    return "(let eps := %s in check_kscript %s eps %s %s %s %s)" % (lst(draws), cls, lst(reqs), lst(strict), ops, lst(exp))


def check_seeded(run):
    rng = run.rng
    thorough = run.tier == "thorough"
    live = {c["name"]: c for c in run.impl("c04_impl", {"enumerate": True})["classes"]}
    stoch = sorted(n for n, c in live.items() if c["stochastic"])
    for n in stoch:
        if n not in SEEDED_RECIPES:
            run.violation({"kind": "seedable-class-list", "class": n}, {
                "broken": "coverage of 'all library pattern classes with ... seedable behaviour': the PStochasticPattern subclass %s of "
                          "isobar.pattern has no recipe in harness/c04.py SEEDED_RECIPES" % n,
                "python": "import isobar as iso; print(iso.%s)" % n}, found_input=False)
    for n in sorted(SEEDED_RECIPES):
        if n not in live:
            run.violation({"kind": "seedable-class-list", "class": n}, {
                "broken": "class %s named in harness/c04.py SEEDED_RECIPES no longer exists in isobar.pattern" % n}, found_input=False)
    gen = Gen(rng, run)
    cases = []
    per = 120 if thorough else 14
    plan = [(n, SEEDED_RECIPES[n], True) for n in sorted(SEEDED_RECIPES) if n in live for _ in range(per)]
    plan += [("PRandomImpulseSequence", r_impulse, True)] * (per * 3) + [("PArpeggiator", r_arp, True)] * (per * 2)
    plan += [("PRef", lambda r: r_ref(r, gen), False)] * (per * 2) + [("PDict", lambda r: r_dict(r, gen), False)] * per
    plan += [("nested", r_nested, True)] * (per * 8)
    for cls, recipe, stochastic in plan:
        spec = recipe(rng)
        if cls == "nested":
            setup, ops = nested_script(rng, spec)
            wrap = rng.choice(WRAPS[3:]) if rng.random() < 0.25 else None
            case = {"cls": spec["cls"], "inner": spec["objs"][-1][1], "objs": spec["objs"], "stoch_names": spec["stoch_names"], "wrap": wrap,
                    "setup": setup, "ops": ops, "stochastic": True, "model": spec.get("model"), "record": False, "contains": True}
        else:
            setup, ops = seeded_script(rng, spec, stochastic)
            wrap = rng.choice(WRAPS[3:]) if rng.random() < 0.42 else None
            case = {"cls": cls, "inner": spec["inner"], "objs": None, "wrap": wrap, "setup": setup, "ops": ops, "stochastic": stochastic,
                    "model": spec.get("model"), "record": False}
        # reference runs: one per (seed in force, configuration calls so far) that a clean segment can have
        refs, seen = [], set()
        for key, _, seed, cfgs in seeded_segments(dict(case, events=[{"y": None}] * len(ops))):
            if not all_seeded(case, seed):
                continue
            su = list(seed) + cfgs
            if json.dumps(su) not in seen:
                seen.add(json.dumps(su)); refs.append({"setup": su, "n": S_REFN})
        case["refs"] = refs
        if case["model"] and case["model"][0] in ("arp", "imp") and wrap is None and setup and setup[0][1] == "seed" \
                and not any(isinstance(o, list) and o[0] == "all" for o in ops):
            case["record"] = True
        if case["model"] and case["model"][0] == "nest" and wrap is None and all_seeded(case, setup) \
                and not any(isinstance(o, list) and o[0] == "all" for o in ops):
            case["record"] = True
        cases.append(case)
    shards = 12
    parts = [cases[i::shards] for i in range(shards) if cases[i::shards]]
    payloads = [{"cases": [{k: c[k] for k in CASE_KEYS} for c in part]} for part in parts]
    outs = {}
    for part, res in zip(parts, run.impl_parallel("c04_impl", payloads)):
        for c, r in zip(part, res["cases"]):
            outs[id(c)] = r
    reported, devs = set(), []
    terms, owners, nterms, nowners = [], [], [], []
    ref_cases = []
    for c in cases:
        out = outs[id(c)]
        run.count(); run.dist("stream.seeded"); run.dist("seeded." + c["cls"])
        run.dist("seeded.nested" if c["wrap"] else "seeded.alone")
        if c.get("contains"):
            run.dist("seeded.contains-stochastic"); run.dist("seeded.contains." + c["cls"])
            run.dist("seeded.contains.setup." + ("all-seeded" if all_seeded(c, c["setup"]) else "some-unseeded"))
        else:
            run.dist("seeded.setup." + ("+".join(o[1] for o in c["setup"]) or "none"))
        if any(isinstance(o, list) and o[0] in ("call", "callon") for o in c["ops"]):
            run.dist("seeded.reconfigured-mid-history")
        try:
            dev = seeded_judge(c, out)
        except CannotJudge as e:
            run.discard("seeded: " + str(e)); continue
        run.cov["oracle_evaluations"] += len(out["events"]) + sum(len(r) for r in out["refs"])
        k = next((i for i, o in enumerate(c["ops"]) if o != "next"), 0)
        if k > 0:
            run.nontrivial("seeded " + c["inner"] + repr(c["setup"]) + repr(c["ops"]) + repr(c["wrap"]))
        if dev is not None:
            devs.append((bool(c["wrap"]), len(c["ops"]) + len(c["inner"]), len(devs), c, out, dev))
            continue
        if c["record"] and out.get("epochs") is not None and c["model"][0] == "nest":
            try:
                nterms.append(nested_term(c, out)); nowners.append((c, out))
            except Unrepresentable as e:
                run.discard("seeded model: " + str(e).split(" ")[0])
        elif c["record"] and out.get("epochs") is not None:
            try:
                terms.append(seeded_term(c, out)); owners.append((c, out))
            except Unrepresentable as e:
                run.discard("seeded model: " + str(e).split(" ")[0])
        elif c["model"] and c["model"][0] == "ref" and c["wrap"] is None:
            # PRef.set_pattern(q): from the call on, the object is PRef(q) with q new (Pat/Step.v; C04_reset_after_set_pattern)
            allops = c["setup"] + c["ops"]
            j = max(i for i, o in enumerate(allops) if isinstance(o, list) and o[0] == "call")
            tail = allops[j + 1:]
            # the call itself must have succeeded: when the argument cannot even be constructed (PChanged over an empty input
            # raises StopIteration in its constructor) set_pattern never ran and the object is still the old reference
            # (false alarm of the thorough tier, seed 1: PRef(PChanged(PSequence([], 3))))
            if j >= len(c["setup"]):
                ev = out["events"][j - len(c["setup"])]
                if not (isinstance(ev, dict) and "y" in ev):
                    run.discard("set_pattern: the call raised (argument not constructible)")
                    continue
            obs = out["events"][max(0, j + 1 - len(c["setup"])):]
            pops = [("next", 0) if o == "next" else ("reset", 0) if o[0] == "reset" else ("all", 0, o[1]) for o in tail]
            mc = Case(E("PRef", c["model"][1]), pops, "set_pattern")
            mc.obs = [{"y": None}] + obs
            ref_cases.append(mc)
    # smallest failing case of every (kind, class) first: alone before nested, short scripts before long ones
    for _, _, _, c, out, dev in sorted(devs, key=lambda t: t[:3]):
        kind = "fresh-seeded" if not dev["after_reset"] else ("configured-reset" if dev["cfgs"] else "seeded-reset")
        if c.get("contains"):
            kind += "-containing"
        sig = {"kind": kind, "class": c["cls"], "nested": bool(c["wrap"])}
        key = json.dumps({"kind": kind, "class": c["cls"]})
        if key in reported or len(reported) >= 6:
            continue
        reported.add(key)
        run.violation(sig, {
            "case": {"seeded": {k2: c.get(k2) for k2 in DOC_KEYS}},
            "expected": "clean segment %d (%s), output %d: %s  [%s]" % (
                dev["segment"], "after reset()/all()" if dev["after_reset"] else "from construction + set-up", dev["index"], dev["expected"], dev["what"]),
            "observed": dev["observed"], "segment_outputs": dev["segment_outputs"], "reference_outputs": dev["reference_outputs"],
            "observed_events": [pretty_obs(o) for o in out["events"]],
            "python": seeded_snippet(c) + "\n" + fresh_snippet(c, dev["seed"], dev["cfgs"], len(dev["segment_outputs"]))})
    bad = run.coq_failing(SEEDED_HEADER, terms, chunk=60)
    run.cov["traces_validated_against_impl"] += len(terms) - len(bad)
    run.cov["seeded_model_comparisons"] = len(terms)
    seen = set()
    for i in bad:
        c, out = owners[i]
        if c["cls"] in seen:
            continue
        seen.add(c["cls"])
        run.violation({"kind": "correspondence", "class": c["cls"], "model": "Pat/Seeded.v"}, {
            "broken": "correspondence Pat/Seeded.v (%s) vs the implementation: with the recorded draws replayed the model gives other outputs or asks "
                      "the generator for other draws; the theorems C04_reset_is_fresh_configured_instance / C04_fresh_seeded_is_what_reset_reproduces "
                      "no longer speak about this code" % ("arp_random" if c["model"][0] == "arp" else "impulse_seq"),
            "case": {"seeded": {k2: c.get(k2) for k2 in DOC_KEYS}},
            "observed": [pretty_obs(o) for o in out["events"]], "epochs": out["epochs"], "coq_term": terms[i],
            "python": seeded_snippet(c)}, found_input=False)
    nbad = run.coq_failing(NEST_HEADER, nterms, chunk=60)
    run.cov["traces_validated_against_impl"] += len(nterms) - len(nbad)
    run.cov["seeded_nest_model_comparisons"] = len(nterms)
    for i in nbad[:1]:
        c, out = nowners[i]
        run.violation({"kind": "correspondence", "class": c["cls"], "model": "Pat/SeededNest.v"}, {
            "broken": "correspondence Pat/SeededNest.v (PSkip over a child that owns a generator: exec / ndo) vs the implementation: with the draws "
                      "recorded per object replayed, the model gives other outputs or an object asks its generator for other draws; the theorems "
                      "C04_nested_reset_is_fresh / C04_nested_seeding no longer speak about this code",
            "case": {"seeded": {k2: c.get(k2) for k2 in DOC_KEYS}},
            "observed": [pretty_obs(o) for o in out["events"]], "epochs": out["epochs"], "owners": out["owners"], "coq_term": nterms[i],
            "python": seeded_snippet(c)}, found_input=False)
    run_model(run, ref_cases)
    for mc in ref_cases:
        if mc.verdict == "agree":
            run.cov["traces_validated_against_impl"] += 1
        elif mc.verdict == "discard":
            run.discard("seeded model: " + (mc.status or "?").split(":")[0])
    for mc in [m for m in ref_cases if m.verdict == "disagree"][:1]:
        run.violation({"kind": "correspondence", "class": "PRef", "model": "set_pattern"}, {
            "broken": "correspondence Pat/Step.v vs the implementation after PRef.set_pattern(q): the object does not behave like a newly "
                      "constructed PRef(q) (C04_reset_after_set_pattern no longer speaks about this code)",
            "case": {"expr": to_source(mc.expr), "ops": [list(o) for o in mc.ops]}, "observed": mc.obs_pretty(),
            "model": model_trace(run, mc)}, found_input=False)


# ==========================================================================================================
# Entropy-seeded stratum: `seed()` / `seed(None)` - the documented argument-less form ("seed: A hashable value, or
# None"): the pattern picks a seed nobody outside knows, remembers it, and reset() must rewind to the sequence that
# began at that call.  History dimension: argument-less (and explicit) re-seeding ANYWHERE in a history of
# next / reset / all / copy operations, on every chance class of the live package, on nests of chance patterns (seed() on
# the parent and / or the children) and under deterministic wrappers.
# Oracle (property text; needs no knowledge of the seed): an ERA starts at every seed / configuration call.  Within one
# era every REWOUND RUN - the outputs from a point where nothing has been consumed since construction / reset() / all()
# (a seed() call at such a point keeps the object rewound: it starts a new sequence, it consumes nothing), the outputs
# of `p.copy()` taken at such a point or taken anywhere and reset(), the list all() returns - is a prefix of ONE
# sequence: "reset() makes a pattern produce exactly the sequence that a newly constructed, identically seeded instance
# produces", and the pattern just seeded, its copy, and the pattern after reset() are all identically seeded.
# Model: un-nested PArpeggiator RANDOM / PRandomImpulseSequence and PSkip over a modelled child with the draws of every
# epoch replayed (check_kscript / check_nscript: the epoch a seed() opens is the seed of the model's KSeed - whatever
# the entropy was, Pat/SeededEntropy.v); theorems Props/C04Entropy.v.
# ==========================================================================================================
def ent_seedop(rng, name, nested, how=None):
    how = how or rng.choice(["()", "()", "()", "(None)", "(s)"])
    args = [] if how == "()" else ["None"] if how == "(None)" else [str(rng.randint(0, 9999))]
    return ["callon", name, "seed", args] if nested else ["call", "seed", args]


def is_entropy_seed(op):
    return isinstance(op, list) and op[0] in ("call", "callon") and op_method(op) == "seed" and op_args(op) in ([], ["None"])


def entropy_script(rng, names, nested):
    """set-up + history over next / reset / all / copy with argument-less seed() calls at rewound and at consumed points"""
    setup = []
    for n in names:
        x = rng.random()
        if x < 0.45:
            setup.append(ent_seedop(rng, n, nested, rng.choice(["()", "()", "(None)"])))
        elif x < 0.65:
            setup.append(ent_seedop(rng, n, nested, "(s)"))
    rng.shuffle(setup)
    ops = []
    for phase in range(rng.choice([1, 1, 2, 2, 3])):
        if phase > 0 or rng.random() < 0.6 or not any(is_entropy_seed(o) for o in setup):
            ops += ["next"] * rng.choice([0, 0, 1, 2, 5])
            if rng.random() < 0.75:
                if ops or rng.random() < 0.5:
                    ops.append(["reset"] if rng.random() < 0.8 else ["all", rng.randint(0, 6)])     # seed() on the rewound object
            who = [rng.choice(names)] + ([rng.choice(names)] if len(names) > 1 and rng.random() < 0.4 else [])
            force = phase == 0 and not any(is_entropy_seed(o) for o in setup)
            for i, n in enumerate(who):
                ops.append(ent_seedop(rng, n, nested, "()" if force and i == 0 else None))
        if rng.random() < 0.35:
            ops.append(["copy", rng.randint(3, 9), False])
        ops += ["next"] * rng.choice([0, 1, 1, 2, 3, 5, 8])
        if rng.random() < 0.2:
            ops.append(["copy", rng.randint(3, 9), rng.random() < 0.7])
        x = rng.random()
        ops += [["reset"]] if x < 0.55 else [["reset"], ["reset"]] if x < 0.7 else [["all", rng.randint(0, 9)]]
        ops += ["next"] * rng.randint(3, 10)
        x = rng.random()
        if x < 0.3:
            ops += [["reset"]] + ["next"] * rng.randint(2, 6)
        elif x < 0.45:
            ops.append(["copy", rng.randint(3, 9), True])
        elif x < 0.55:
            ops += [["all", rng.randint(0, 9)]] + ["next"] * rng.randint(2, 5)
    return setup, ops


def entropy_runs(case, events):
    """rewound runs of a case: [(era, how obtained, [observations], index of the op that closed it)]"""
    era, rewound, cur, runs = 0, True, [], []
    for j, (op, o) in enumerate(zip(case["ops"], events)):
        if op == "next":
            if rewound:
                cur.append(o)
        elif op[0] == "copy":
            c = o.get("c") if isinstance(o, dict) else None
            if c is None:
                continue
            if op[2]:
                runs.append((era, "p.copy() + reset()", c, j))
            elif rewound:
                runs.append((era, "p.copy() continuing where p stands", cur + c, j))
        elif op[0] == "all":
            ok = isinstance(o, dict) and "y" in o and isinstance(o["y"], dict) and "l" in o["y"]
            if rewound and ok:
                cur = cur + [{"y": v} for v in o["y"]["l"]] + (["stop"] if len(o["y"]["l"]) < op[1] else [])
            if rewound:
                runs.append((era, "next() calls / all()", cur, j))
            cur, rewound = [], ok
        elif op[0] == "reset":
            if rewound:
                runs.append((era, "next() calls", cur, j))
            cur, rewound = [], (o == {"y": None})
        else:                                                   # seed / configuration call: a new era
            if rewound and cur:
                runs.append((era, "next() calls", cur, j))
            era += 1
            # a call on the rewound object (nothing consumed) leaves it rewound; the call must have succeeded
            rewound = rewound and not cur and o == {"y": None}
            cur = []
    if rewound:
        runs.append((era, "next() calls", cur, len(case["ops"])))
    return runs


def entropy_judge(case, out):
    if out.get("status"):
        raise CannotJudge("impl-" + out["status"])
    if out["build"] != {"y": None}:
        raise CannotJudge("constructor / set-up raised")
    runs = entropy_runs(case, out["events"])
    best = {}
    for era, how, obs, j in runs:
        if era not in best:
            best[era] = (how, obs, j)
            continue
        rhow, ref, rj = best[era]
        for i in range(min(len(obs), len(ref))):
            if canon_obs(obs[i]) != canon_obs(ref[i]):
                return {"era": era, "index": i, "expected": canon_obs(ref[i]), "observed": canon_obs(obs[i]),
                        "what": "the same era's earlier rewound run (%s, closed by op %d)" % (rhow, rj), "how": how, "op": j,
                        "segment_outputs": [pretty_obs(x) for x in obs], "reference_outputs": [pretty_obs(x) for x in ref]}
        if len(obs) > len(ref):
            best[era] = (how, obs, j)
    return None


def check_entropy_seeded(run):
    rng = run.rng
    thorough = run.tier == "thorough"
    live = {c["name"] for c in run.impl("c04_impl", {"enumerate": True})["classes"]}
    per = 40 if thorough else 8
    plan = [(n, SEEDED_RECIPES[n]) for n in sorted(SEEDED_RECIPES) if n in live for _ in range(per)]
    plan += [("PRandomImpulseSequence", r_impulse)] * (per * 2) + [("PArpeggiator", r_arp)] * (per * 2) + [("nested", r_nested)] * (per * 8)
    cases = []
    for cls, recipe in plan:
        spec = recipe(rng)
        if cls == "nested":
            setup, ops = entropy_script(rng, list(spec["stoch_names"]), True)
            wrap = rng.choice(WRAPS[3:]) if rng.random() < 0.3 else None
            case = {"cls": spec["cls"], "inner": spec["objs"][-1][1], "objs": spec["objs"], "stoch_names": spec["stoch_names"], "wrap": wrap,
                    "setup": setup, "ops": ops, "stochastic": True, "model": spec.get("model"), "contains": True}
        else:
            setup, ops = entropy_script(rng, ["X"], False)
            if spec.get("config") and rng.random() < 0.5:
                setup.insert(rng.randint(0, len(setup)), spec["config"](rng))
            wrap = rng.choice(WRAPS[3:]) if rng.random() < 0.42 else None
            case = {"cls": cls, "inner": spec["inner"], "objs": None, "wrap": wrap, "setup": setup, "ops": ops, "stochastic": True,
                    "model": spec.get("model")}
        if case["model"] and wrap is None and rng.random() < 0.7:
            # comparable with the model inside Coq: next / reset / seed only (all() = next^m; reset, copies are the oracle's business)
            case["ops"] = ops = [["reset"] if isinstance(o, list) and o[0] == "all" else o for o in ops if not (isinstance(o, list) and o[0] == "copy")]
            if case["model"][0] in ("arp", "imp") and not (setup and setup[0][1] == "seed"):
                case["setup"] = setup = [ent_seedop(rng, "X", False)] + setup
            if case["model"][0] == "nest":
                case["setup"] = setup = setup + [ent_seedop(rng, n, True) for n in case["stoch_names"] if not all_seeded(dict(case, stoch_names=[n]), setup)]
        case["refs"] = []
        case["global_seed"] = rng.randint(0, 2 ** 31)
        plain = not any(isinstance(o, list) and o[0] in ("all", "copy") for o in ops)
        case["record"] = bool(case["model"] and wrap is None and plain and (
            case["model"][0] in ("arp", "imp") and setup and setup[0][1] == "seed"
            or case["model"][0] == "nest" and all_seeded(case, setup)))
        cases.append(case)
    shards = 12
    parts = [cases[i::shards] for i in range(shards) if cases[i::shards]]
    payloads = [{"cases": [{k: c[k] for k in CASE_KEYS + ("global_seed",)} for c in part]} for part in parts]
    outs = {}
    for part, res in zip(parts, run.impl_parallel("c04_impl", payloads)):
        for c, r in zip(part, res["cases"]):
            outs[id(c)] = r
    devs, terms, owners, nterms, nowners = [], [], [], [], []
    for c in cases:
        out = outs[id(c)]
        run.count(); run.dist("stream.entropy-seeded"); run.dist("entropy." + c["cls"])
        run.dist("entropy.nested" if c["wrap"] else "entropy.alone")
        if c.get("contains"):
            run.dist("entropy.contains-stochastic")
        allops = c["setup"] + c["ops"]
        run.dist("entropy.seed()-calls.%d" % min(4, sum(1 for o in allops if is_entropy_seed(o))))
        if any(is_entropy_seed(o) for o in c["setup"]):
            run.dist("entropy.in-set-up")
        if any(is_entropy_seed(o) for o in c["ops"]):
            run.dist("entropy.in-mid-history")
        if any(isinstance(o, list) and o[0] == "copy" for o in c["ops"]):
            run.dist("entropy.with-copy")
        if any(isinstance(o, list) and o[0] == "all" for o in c["ops"]):
            run.dist("entropy.with-all")
        try:
            dev = entropy_judge(c, out)
        except CannotJudge as e:
            run.discard("entropy: " + str(e)); continue
        run.cov["oracle_evaluations"] += len(out["events"])
        runs = entropy_runs(c, out["events"])
        eras = {}
        for era, _, obs, _ in runs:
            eras.setdefault(era, []).append(len(obs))
        if any(len([n for n in v if n > 0]) >= 2 for v in eras.values()):
            run.nontrivial("entropy " + c["inner"] + repr(c["setup"]) + repr(c["ops"]) + repr(c["wrap"]))
            run.dist("entropy.judged-by-two-rewound-runs")
        if dev is not None:
            devs.append((bool(c["wrap"]), bool(c.get("contains")), len(c["ops"]) + len(c["inner"]), len(devs), c, out, dev))
            continue
        if c["record"] and out.get("epochs") is not None:
            try:
                if c["model"][0] == "nest":
                    nterms.append(nested_term(c, out)); nowners.append((c, out))
                else:
                    terms.append(seeded_term(c, out)); owners.append((c, out))
            except Unrepresentable as e:
                run.discard("entropy model: " + str(e).split(" ")[0])
    reported = set()
    for _, _, _, _, c, out, dev in sorted(devs, key=lambda t: t[:4]):
        kind = "entropy-seeded-reset" + ("-containing" if c.get("contains") else "")
        key = json.dumps({"kind": kind, "class": c["cls"]})
        if key in reported or len(reported) >= 6:
            continue
        reported.add(key)
        run.violation({"kind": kind, "class": c["cls"], "nested": bool(c["wrap"])}, {
            "case": {"entropy": {k2: c.get(k2) for k2 in DOC_KEYS + ("global_seed",)}},
            "expected": "era %d (after the %s seed / configuration call), rewound run closed by op %d (%s), output %d: %s  [%s]" % (
                dev["era"], "%d." % dev["era"] if dev["era"] else "set-up's", dev["op"], dev["how"], dev["index"], dev["expected"], dev["what"]),
            "observed": dev["observed"], "segment_outputs": dev["segment_outputs"], "reference_outputs": dev["reference_outputs"],
            "observed_events": [pretty_obs(o) if not (isinstance(o, dict) and "c" in o) else [pretty_obs(x) for x in o["c"]] for o in out["events"]],
            "python": "import random; random.seed(%d)\n" % c["global_seed"] + seeded_snippet(c)})
    bad = run.coq_failing(SEEDED_HEADER, terms, chunk=60)
    run.cov["traces_validated_against_impl"] += len(terms) - len(bad)
    run.cov["entropy_model_comparisons"] = len(terms) + len(nterms)
    seen = set()
    for i in bad:
        c, out = owners[i]
        if c["cls"] in seen:
            continue
        seen.add(c["cls"])
        run.violation({"kind": "correspondence", "class": c["cls"], "model": "Pat/Seeded.v", "stream": "entropy"}, {
            "broken": "correspondence Pat/Seeded.v (%s) vs the implementation on a history with argument-less seed(): with the recorded draws "
                      "replayed (the epoch a seed() opens standing for the unknown seed) the model gives other outputs or asks the generator for other "
                      "draws; C04_entropy_reset_is_fresh_instance / C04_entropy_reset_reproduces no longer speak about this code"
                      % ("arp_random" if c["model"][0] == "arp" else "impulse_seq"),
            "case": {"entropy": {k2: c.get(k2) for k2 in DOC_KEYS + ("global_seed",)}},
            "observed": [pretty_obs(o) for o in out["events"]], "epochs": out["epochs"], "coq_term": terms[i],
            "python": seeded_snippet(c)}, found_input=False)
    nbad = run.coq_failing(NEST_HEADER, nterms, chunk=60)
    run.cov["traces_validated_against_impl"] += len(nterms) - len(nbad)
    for i in nbad[:1]:
        c, out = nowners[i]
        run.violation({"kind": "correspondence", "class": c["cls"], "model": "Pat/SeededNest.v", "stream": "entropy"}, {
            "broken": "correspondence Pat/SeededNest.v vs the implementation on a history with argument-less seed() of parent / child: with the draws "
                      "recorded per object replayed the model gives other outputs or an object asks its generator for other draws",
            "case": {"entropy": {k2: c.get(k2) for k2 in DOC_KEYS + ("global_seed",)}},
            "observed": [pretty_obs(o) for o in out["events"]], "epochs": out["epochs"], "owners": out["owners"], "coq_term": nterms[i],
            "python": seeded_snippet(c)}, found_input=False)


# ==========================================================================================================
# Tuple stratum: a pattern stored INSIDE A TUPLE (an item of a PSequence, nested tuples) under reset().
# Pattern.value advances such a pattern; Pattern.reset did not reach it until the repair C04-reset-tuples
# (findings/C04-reset-tuples.md).  The model transcribes the repaired method (Step.reset_value) and the theorems cover
# these objects (Props/C04More.v: xarg's constructor XA_tup, C04_more_tuple_item_rewound).  Oracle and model comparison
# as in the main stream; every deviation is an ordinary reset violation.
# ==========================================================================================================
def tuple_expr(rng, gen):
    inner = gen.gen(rng.choice([0, 1]), rng.random() < 0.7)
    shape = rng.random()
    n = gen.num(allow_none=False, allow_bool=False)
    t = (inner, n) if shape < 0.5 else (n, inner) if shape < 0.7 else ((inner, n), gen.num(allow_none=False, allow_bool=False)) \
        if shape < 0.85 else (inner, gen.gen(0, True))
    items = gen.numlist(0, 3, allow_none=False)
    items.insert(rng.randint(0, len(items)), t)
    e = E("PSequence", items, rng.randint(1, 3))
    w = rng.random()
    if w < 0.15:
        e = E("PRef", e)
    elif w < 0.3:
        e = E("PStutter", e, rng.randint(1, 2))
    elif w < 0.4:
        e = E("PConcatenate", [e, E("PSequence", [rng.randint(0, 5)], 1)])
    elif w < 0.5:
        e = E("PSequence", [e, rng.randint(0, 5)], rng.randint(1, 2))
    return e


def check_tuple_patterns(run):
    rng = run.rng
    gen = Gen(rng, run)
    exprs = [tuple_expr(rng, gen) for _ in range(1200 if run.tier == "thorough" else 110)]
    refs = {}
    for e in exprs:
        refs.setdefault(to_source(e), Case(e, [("next", 0)] * REFN, "ref"))
    run_impl(run, list(refs.values()))
    cases = []
    for e in exprs:
        r = refs[to_source(e)]
        if r.status or not r.obs or canon_obs(r.obs[0]) != "value null":
            run.count(); run.discard("constructor raised / timeout"); continue
        stops = [i for i, o in enumerate(r.obs[1:]) if o == "stop"]
        ops, k = script(rng, stops[0] if stops else None)
        cases.append(Case(e, ops, "reset-tuple", {"k": k}))
    run_impl(run, cases)
    deviating = []
    for c in cases:
        run.count(); run.dist("tuple-pattern." + root_cls(c.expr))
        if c.status:
            run.discard("impl-" + c.status); continue
        try:
            dev = judge(c, refs[to_source(c.expr)])
        except CannotJudge as e:
            run.discard("oracle: " + str(e)); continue
        run.cov["oracle_evaluations"] += len(c.obs)
        if c.meta["k"] > 0:
            run.nontrivial("tuple " + to_source(c.expr) + " k=%d" % c.meta["k"])
        if dev is not None:
            deviating.append(c)
    reported = 0
    for c in sorted(deviating, key=lambda c: size(c.expr)):
        r = refs[to_source(c.expr)]
        dev = judge(c, r)
        reported += 1
        if reported > 3:
            break
        run.violation({"kind": "reset", "class": root_cls(c.expr), "after": dev["opname"], "stratum": "pattern-inside-tuple"}, {
            "case": {"expr": to_source(c.expr), "expr_json": to_json(c.expr), "ops": [list(o) for o in c.ops]},
            "expected": "operation %d (%s): %s  [what a newly constructed instance produces]" % (dev["op"], dev["opname"], dev["expected"]),
            "observed": dev["observed"], "observed_outputs": c.obs_pretty(), "fresh_instance_outputs": r.obs_pretty(),
            "python": replay_snippet(c.expr, c.ops[:dev["op"] + 1])})
    # the model says what the code does, also here
    run_model(run, cases)
    bad = [c for c in cases if c.verdict == "disagree"]
    for c in cases:
        if c.verdict == "agree":
            run.cov["traces_validated_against_impl"] += 1
    if bad:
        small = shrink(run, bad[0], rounds=4)
        run.violation({"kind": "correspondence", "class": root_cls(small.expr), "stratum": "tuple"}, {
            "broken": "correspondence Pat/Step.v (reset_value: Pattern.reset on tuples) vs the implementation: C04_more_tuple_item_rewound no longer speaks about this code",
            "case": {"expr": to_source(small.expr), "expr_json": to_json(small.expr), "ops": [list(o) for o in small.ops]},
            "observed": small.obs_pretty(), "model": model_trace(run, small), "python": replay_snippet(small.expr, small.ops)}, found_input=False)
    run.cov["tuple_stratum"] = {"cases": len(cases), "deviating_from_fresh_instance": len(deviating)}


# ==========================================================================================================
# Edge stream: ARGUMENTS AT AND BEYOND THE EDGES of their domain, stochastic and deterministic classes alike - starting
# values outside [min, max], min == max, min > max, zero / negative steps, lengths 0 and 1, empty and one-element lists,
# probabilities 0 / 1 / outside [0, 1] - each consumed, reset, and compared with a newly constructed, identically seeded
# instance.  The property quantifies over "all arguments in their documented domain": every recipe says whether its
# arguments are inside what the class's docstring documents (judged by the oracle) or outside (run, counted, and compared
# with the model where the class has one - the model takes the arguments as they are given -, never judged by the oracle).
# Model: Pat/Chance.v machines through Pat/Seeded.v (Props/C04Edges.v: C04_brown_any_arguments, C04_brown_starts_at_init);
# deterministic classes through Pat/Step.v like the main stream.
# ==========================================================================================================
def edge_recipes(r):
    """(class, source, documented?, model machine term | None)"""
    q = lambda x: "(%s # %d)" % (zlit(Fraction(x).numerator), Fraction(x).denominator)
    out = []

    def brown(i, st, mn, mx, dom):
        m = None
        if all(isinstance(v, int) for v in (i, st, mn, mx)):
            m = "(of_machine replay (brown replay rp_below %s %s %s %s))" % (zlit(i), zlit(st), zlit(mn), zlit(mx))
        out.append(("PBrown", "iso.PBrown(%r, %r, %r, %r)" % (i, st, mn, mx), dom, m))
    lo = r.randint(0, 20); hi = lo + r.randint(2, 12)
    # PBrown: "Output begins at initial_value ... with min <= values <= max": nothing restricts initial_value
    brown(hi + r.randint(1, 9), r.randint(1, 3), lo, hi, True); brown(lo - r.randint(1, 9), r.randint(1, 3), lo, hi, True)
    brown(hi, 1, lo, hi, True); brown(lo, 2, lo, hi, True); brown(lo, r.randint(1, 3), lo, lo, True); brown(lo + 5, 1, lo, lo, True)
    brown(lo + 1, 0, lo, hi, True); brown(float(hi + 4), 0.5, float(lo), float(hi), True); brown(float(lo - 3), 1.5, float(lo), float(hi), True)
    brown(lo, -1, lo, hi, False); brown(lo + 1, 1, hi, lo, False); brown(float(lo), -0.5, float(lo), float(hi), False)

    def white(a, b, ln, dom):
        m = "(of_machine replay (white replay rp_unit false (inject_Z %s) (inject_Z %s) %s))" % (zlit(a), zlit(b), zlit(ln)) if isinstance(a, int) and isinstance(b, int) else None
        out.append(("PWhite", "iso.PWhite(%r, %r, %r)" % (a, b, ln), dom, m))
    white(lo, lo, 0, True); white(lo, lo, 3, True); white(lo, hi, 1, True); white(float(lo), float(lo), 0, True); white(lo, hi, 0, True)
    white(hi, lo, 0, False); white(lo, hi, -2, False)
    for pr, dom in ((0, True), (1, True), (0.0, True), (1.0, True), (-0.5, False), (1.5, False)):
        out.append(("PCoin", "iso.PCoin(%r)" % pr, dom, "(of_machine replay (coin replay rp_unit %s))" % q(pr)))
        if dom:
            out.append(("PCoin", "iso.PCoin(%r, True)" % pr, True, None))
    v = _sints(r, 3, 5)
    out += [("PRandomWalk", "iso.PRandomWalk(%r, 1, 2)" % v[:1], True, None), ("PRandomWalk", "iso.PRandomWalk(%r, 2, 2)" % v, True, None),
            ("PRandomWalk", "iso.PRandomWalk(%r, 0, 0)" % v, True, None), ("PRandomWalk", "iso.PRandomWalk(%r, 1, 1, False)" % v, True, None),
            ("PRandomWalk", "iso.PRandomWalk(%r, 3, 1)" % v, False, None)]
    out += [("PChoice", "iso.PChoice(%r)" % v[:1], True, None), ("PChoice", "iso.PChoice(%r, %r)" % (v[:3], [0, 1, 0]), True, None),
            ("PChoice", "iso.PChoice(%r, %r)" % (v[:3], [2, 2, 2]), True, None), ("PChoice", "iso.PChoice([])", False, None),
            ("PChoice", "iso.PChoice(%r, %r)" % (v[:2], [0, 0]), False, None)]
    out += [("PSample", "iso.PSample(%r, %d)" % (v, len(v)), True, None), ("PSample", "iso.PSample(%r, 1)" % v, True, None),
            ("PSample", "iso.PSample(%r, 0)" % v, False, None), ("PSample", "iso.PSample(%r, %d)" % (v, len(v) + 1), False, None)]
    for vals, rep in (([], 1), (v[:1], 2), (v, 0), (v, 1), ([], 0)):
        out.append(("PShuffle", "iso.PShuffle(%r, %d)" % (vals, rep), True, "(of_machine replay (pshuffle replay rp_below %s %d))" % (zlist(vals), rep)))
    out += [("PShuffleInput", "iso.PShuffleInput(iso.PSequence(%r, 1), 1)" % v, True, None), ("PShuffleInput", "iso.PShuffleInput(iso.PSequence([], 1), 3)", True, None),
            ("PShuffleInput", "iso.PShuffleInput(iso.PSequence(%r, 1), 9)" % v, True, None), ("PShuffleInput", "iso.PShuffleInput(iso.PSequence(%r, 1), 0)" % v, False, None)]
    for pl, dom in ((0, True), (1, True), (0.0, True), (1.0, True), (1.5, False), (-0.5, False)):
        out.append(("PSkip", "iso.PSkip(iso.PSequence(%r, 2), %r)" % (v, pl), dom, None))
    out += [("PSkip", "iso.PSkip(iso.PSequence([], 1), 0.5)", True, None), ("PSkip", "iso.PSkip(iso.PSeries(0, 1), 1, True)", True, None)]
    for ini, on, off in ((0, 0, 0), (1, 1, 1), (0, 1, 0), (1, 0, 1), (0, 1.0, 1.0)):
        out.append(("PFlipFlop", "iso.PFlipFlop(%r, %r, %r)" % (ini, on, off), True, "(of_machine replay (flipflop replay rp_unit %d %s %s))" % (ini, q(on), q(off))))
    out += [("PSwitchOne", "iso.PSwitchOne(iso.PSequence(%r, 1), 1)" % v, True, None), ("PSwitchOne", "iso.PSwitchOne(iso.PSequence(%r, 1), %d)" % (v, len(v)), True, None),
            ("PSwitchOne", "iso.PSwitchOne(iso.PSequence(%r, 1), %d)" % (v, len(v) + 2), True, None), ("PSwitchOne", "iso.PSwitchOne(iso.PSequence(%r, 1), 0)" % v, False, None)]
    out += [("PRandomExponential", "iso.PRandomExponential(%d, %d)" % (hi, hi), True, None), ("PRandomExponential", "iso.PRandomExponential(1, 2)", True, None)]
    out += [("PRandomImpulseSequence", "iso.PRandomImpulseSequence(0, 4)", True, None), ("PRandomImpulseSequence", "iso.PRandomImpulseSequence(1, 4)", True, None),
            ("PRandomImpulseSequence", "iso.PRandomImpulseSequence(0.5, 1)", True, None), ("PRandomImpulseSequence", "iso.PRandomImpulseSequence(0.5, 0)", False, None)]
    out += [("PMarkov", "iso.PMarkov([])", True, None), ("PMarkov", "iso.PMarkov([%d])" % v[0], True, None), ("PMarkov", "iso.PMarkov({1: [], 2: [1]})", True, None),
            ("PMarkov", "iso.PMarkov({1: [1]})", True, None)]
    out += [("PArpeggiator", "iso.PArpeggiator([%d], iso.PArpeggiator.RANDOM)" % v[0], True, None), ("PArpeggiator", "iso.PArpeggiator([%d], iso.PArpeggiator.RANDOM, True)" % v[0], True, None),
            ("PArpeggiator", "iso.PArpeggiator([], iso.PArpeggiator.RANDOM)", False, None)]
    return out


def edge_exprs(r, gen):
    """deterministic classes of engine P at the edges: lengths 0 / 1, empty lists, zero and negative counts and steps, bounds met exactly"""
    seq = lambda xs, rep=1: E("PSequence", xs, rep)
    s3 = seq([r.randint(-3, 9) for _ in range(3)])
    one = seq([r.randint(0, 9)])
    out = [E("PSeries", 3, 2, 0), E("PSeries", 3, 0, 4), E("PSeries", 3, -2, 1), E("PRange", 5, 5, 1), E("PRange", 5, 6, 1), E("PRange", 5, 0, 1), E("PRange", 0, 5, -1),
           E("PRange", 5, 0, -5), E("PGeom", 3, 0, 4), E("PGeom", 0, 2, 3), E("PGeom", 2, 2, 0), E("PGeom", 2, -1, 1), seq([], 1), seq([], 3), seq([7], 0), seq([None], 2),
           E("PImpulse", 1), E("PImpulse", 0), E("PLoop", seq([], 1), 2), E("PLoop", s3, 0), E("PLoop", one, 1), E("PPingPong", seq([], 1), 2), E("PPingPong", one, 2),
           E("PPingPong", s3, 0), E("PStutter", s3, 0), E("PStutter", s3, 1), E("PStutter", seq([], 1), 3), E("PSubsequence", s3, 0, 0), E("PSubsequence", s3, 3, 2),
           E("PSubsequence", s3, 2, 1), E("PSubsequence", s3, 5, 1), E("PReverse", seq([], 1)), E("PReverse", one), E("PPad", s3, 0), E("PPad", s3, 3), E("PPad", seq([], 1), 2),
           E("PPadToMultiple", s3, 1), E("PPadToMultiple", s3, 3), E("PPadToMultiple", seq([], 1), 4, 0), E("PPadToMultiple", seq([], 1), 4, 1), E("PCollapse", seq([None, None], 1)),
           E("PNoRepeats", seq([4, 4, 4], 1)), E("PNoRepeats", seq([], 1)), E("PChanged", one), E("PDiff", one), E("PChanged", seq([], 1)), E("PCounter", seq([0, 0], 1)),
           E("PWrap", s3, 0, 1), E("PWrap", seq([5, 6], 1), 5, 6), E("PConcatenate", [seq([], 1), s3]), E("PConcatenate", [s3, seq([], 1)]), E("PConcatenate", [seq([], 1)]),
           E("PArrayIndex", [7], seq([0, -1, 0], 1)), E("PIndexOf", [7], seq([7, 8], 1)), E("PSkipIf", s3, seq([], 1)), E("PRound", seq([0.5, 1.5, -0.5], 1)),
           E("PEuclidean", 0, 1), E("PEuclidean", 1, 1), E("PEuclidean", 4, 4, 3), E("PArpeggiator", [5], 0), E("PArpeggiator", [5, 6], 8), E("PTri", 1, 0.0, 1.0), E("PSaw", 1, 0.0, 1.0),
           E("PPermut", one, 1), E("PPermut", seq([], 1), 2), E("PNormalise", one), E("PNormalise", seq([3, 3, 3], 1))]
    for _ in range(12):
        x = r.choice(out)
        out.append(E(r.choice(["PAbs", "PStutter", "PLoop"]), x) if r.random() < 0.5 else E("PAdd", x, r.randint(0, 3)))
    return out


def check_edges(run):
    rng = run.rng
    gen = Gen(rng, run)
    # ---- stochastic classes
    cases = []
    for rnd in range(3 if run.tier == "thorough" else 1):
        for cls, inner, dom, mterm in edge_recipes(rng):
            for rep in range(2):
                setup, ops = seeded_script(rng, {"inner": inner}, True)
                if not setup:
                    setup = [["call", "seed", [str(rng.randint(0, 9999))]]]
                if rep == 1:
                    ops = ops[next(i for i, o in enumerate(ops) if o != "next"):] if rng.random() < 0.5 else ["next"] + ops   # k = 0 and k >= 1
                wrap = rng.choice(WRAPS[3:]) if rep == 1 and rng.random() < 0.4 else None
                c = {"cls": cls, "inner": inner, "objs": None, "wrap": wrap, "setup": setup, "ops": ops, "stochastic": True, "documented": dom,
                     "model": ("mach", mterm) if mterm and wrap is None and not any(isinstance(o, list) and o[0] == "all" for o in ops) else None, "edge": True}
                c["record"] = c["model"] is not None
                refs, seen = [], set()
                for key, _, seed, cfgs in seeded_segments(dict(c, events=[{"y": None}] * len(ops))):
                    su = list(seed) + cfgs
                    if all_seeded(c, seed) and json.dumps(su) not in seen:
                        seen.add(json.dumps(su)); refs.append({"setup": su, "n": S_REFN})
                c["refs"] = refs
                cases.append(c)
    shards = 12
    parts = [cases[i::shards] for i in range(shards) if cases[i::shards]]
    outs = {}
    for part, res in zip(parts, run.impl_parallel("c04_impl", [{"cases": [{k: c[k] for k in CASE_KEYS} for c in part]} for part in parts])):
        for c, r in zip(part, res["cases"]):
            outs[id(c)] = r
    devs, terms, owners = [], [], []
    for c in cases:
        out = outs[id(c)]
        run.count(); run.dist("stream.edges"); run.dist("edges." + c["cls"]); run.dist("edges.documented" if c["documented"] else "edges.outside-the-documented-domain")
        try:
            dev = seeded_judge(c, out)
        except CannotJudge as e:
            run.discard("edges: " + str(e)); continue
        run.cov["oracle_evaluations"] += len(out["events"]) + sum(len(r) for r in out["refs"])
        run.nontrivial("edge " + c["inner"] + repr(c["setup"]) + repr(c["ops"]) + repr(c["wrap"]))
        if dev is not None:
            if c["documented"]:
                devs.append((bool(c["wrap"]), len(c["ops"]), len(devs), c, out, dev))
            else:
                run.dist("edges.outside-the-documented-domain.reset-differs-from-fresh")
            continue
        if c["model"] and out.get("epochs") is not None:
            try:
                if c["inner"].startswith("iso.PWhite("):
                    a_, b_ = [int(x) for x in c["inner"][len("iso.PWhite("):].split(",")[:2]]
                    for e in out["epochs"]:
                        for _, k in e:
                            x = a_ + (b_ - a_) * Fraction(k, 2 ** 53)
                            if x != round(x) and abs(x - round(x)) < Fraction(1, 2 ** 30):
                                raise Unrepresentable("margin")
                t = seeded_term(dict(c, model=("arp", [0], False)), out)
                terms.append(t.replace("(arp_random replay rp_below (rp_seed eps) %s %s)" % (zlist([0]), blit(False)), c["model"][1]))
                owners.append((c, out))
            except Unrepresentable as e:
                run.discard("edges model: " + str(e).split(" ")[0])
    reported = set()
    for _, _, _, c, out, dev in sorted(devs, key=lambda t: t[:3]):
        kind = "edge-fresh-seeded" if not dev["after_reset"] else "edge-seeded-reset"
        key = json.dumps({"kind": kind, "class": c["cls"]})
        if key in reported or len(reported) >= 5:
            continue
        reported.add(key)
        run.violation({"kind": kind, "class": c["cls"], "nested": bool(c["wrap"])}, {
            "case": {"seeded": {k2: c.get(k2) for k2 in DOC_KEYS}},
            "expected": "clean segment %d (%s), output %d: %s  [%s]" % (
                dev["segment"], "after reset()/all()" if dev["after_reset"] else "from construction + set-up", dev["index"], dev["expected"], dev["what"]),
            "observed": dev["observed"], "segment_outputs": dev["segment_outputs"], "reference_outputs": dev["reference_outputs"],
            "observed_events": [pretty_obs(o) for o in out["events"]],
            "python": seeded_snippet(c) + "\n" + fresh_snippet(c, dev["seed"], dev["cfgs"], len(dev["segment_outputs"]))})
    bad = run.coq_failing(SEEDED_HEADER, terms, chunk=60)
    run.cov["traces_validated_against_impl"] += len(terms) - len(bad)
    run.cov["edge_model_comparisons"] = len(terms)
    for i in bad[:1]:
        c, out = owners[i]
        run.violation({"kind": "correspondence", "class": c["cls"], "model": "Pat/Chance.v machine at the edge of its domain"}, {
            "broken": "correspondence Pat/Chance.v (%s, through Pat/Seeded.v of_machine) vs the implementation on arguments at / beyond the edge of "
                      "the domain: the theorems of Props/C04Edges.v and C04_chance_classes_rewind no longer speak about this code" % c["model"][1],
            "case": {"seeded": {k2: c.get(k2) for k2 in DOC_KEYS}}, "observed": [pretty_obs(o) for o in out["events"]], "epochs": out["epochs"],
            "coq_term": terms[i], "python": seeded_snippet(c)}, found_input=False)
    # ---- deterministic classes
    exprs = edge_exprs(rng, gen)
    refs = {to_source(e): Case(e, [("next", 0)] * REFN, "ref") for e in exprs}
    run_impl(run, list(refs.values()), shards=4)
    dcases = []
    for e in exprs:
        r = refs[to_source(e)]
        if r.status or not r.obs or canon_obs(r.obs[0]) != "value null":
            run.count(); run.discard("edges: constructor raised / timeout"); continue
        stops = [i for i, o in enumerate(r.obs[1:]) if o == "stop"]
        for _ in range(2):
            ops, k = script(rng, stops[0] if stops else None)
            dcases.append(Case(e, ops, "edge", {"k": k}))
    run_impl(run, dcases, shards=6)
    seen = set()
    for c in dcases:
        run.count(); run.dist("stream.edges"); run.dist("edges.deterministic")
        if c.status:
            run.discard("edges: impl-" + c.status); continue
        r = refs[to_source(c.expr)]
        try:
            dev = judge(c, r)
        except CannotJudge as e:
            run.discard("edges oracle: " + str(e)); continue
        run.cov["oracle_evaluations"] += len(c.obs)
        run.nontrivial("edge " + to_source(c.expr) + repr(c.ops))
        if dev is not None and root_cls(c.expr) not in seen and len(seen) < 4:
            seen.add(root_cls(c.expr))
            run.violation({"kind": "edge-reset", "class": root_cls(c.expr), "after": dev["opname"]}, {
                "case": {"expr": to_source(c.expr), "expr_json": to_json(c.expr), "ops": [list(o) for o in c.ops]},
                "expected": "operation %d (%s): %s  [what a newly constructed instance produces]" % (dev["op"], dev["opname"], dev["expected"]),
                "observed": dev["observed"], "observed_outputs": c.obs_pretty(), "fresh_instance_outputs": r.obs_pretty(),
                "python": replay_snippet(c.expr, c.ops[:dev["op"] + 1])})
    mod = [c for c in dcases if not c.status]
    run_model(run, mod)
    for c in mod:
        if c.verdict == "agree":
            run.cov["traces_validated_against_impl"] += 1
        elif c.verdict == "discard":
            run.discard("edges model: " + (c.status or "?").split(":")[0])
    for c in [c for c in mod if c.verdict == "disagree"][:1]:
        run.violation({"kind": "correspondence", "class": root_cls(c.expr), "stream": "edges"}, {
            "broken": "correspondence Pat/Step.v vs the implementation on %s with arguments at the edge of its domain" % root_cls(c.expr),
            "case": {"expr": to_source(c.expr), "expr_json": to_json(c.expr), "ops": [list(o) for o in c.ops]},
            "observed": c.obs_pretty(), "model": model_trace(run, c), "python": replay_snippet(c.expr, c.ops)}, found_input=False)


META["text"] += (" Arguments at and beyond the edges of the domain (edge stream, check_edges): all stochastic classes and the deterministic classes of "
                 "engine P with starting values outside [min, max], min = max, zero steps, lengths 0 / 1, empty lists, probabilities 0 / 1 - judged where the "
                 "docstring documents the argument, compared with the Pat/Chance.v machines (which take their arguments as given: Props/C04Edges.v, "
                 "C04_brown_any_arguments, C04_brown_starts_at_init) also beyond it.")


# ==========================================================================================================
# PConstant holders: PATTERNS AND TUPLES-WITH-PATTERNS HELD BY A PConstant - created implicitly by Pattern.pattern() for
# the values of a PDict / event dict, or explicitly (PConstant(p) as an operand, Pattern.pattern(tuple) as the list of a
# PArrayIndex, a PConstant item of a PSequence).  The consumer's Pattern.value() advances what is inside; reset() on the
# consumer must rewind it.  Oracle: outputs after reset()/all() = a newly constructed instance.  Model: Pat/ConstHolder.v
# (C04_constant_holder_rewinds), compared inside Coq for a PDict with one tuple-valued key.
# ==========================================================================================================
HOLDER_HEADER = HEADER + "From Isobar Require Import Pat.ConstHolder.\n"


def holder_tuple(rng, gen, depth=0):
    """(python source, Coq earg) of a tuple holding 1-2 patterns of engine P, scalars and sometimes a nested tuple"""
    items = []
    n = rng.randint(2, 4)
    pat_at = {rng.randrange(n)} | ({rng.randrange(n)} if rng.random() < 0.4 else set())
    for j in range(n):
        if j in pat_at:
            e = gen.gen(rng.choice([0, 0, 1]), rng.random() < 0.4)
            items.append((to_source(e), "(EP %s)" % to_coq(e)))
        elif depth < 1 and rng.random() < 0.25:
            items.append(holder_tuple(rng, gen, depth + 1))
        else:
            v = rng.randint(36, 72)
            items.append((repr(v), "(EV (VInt %d))" % v))
    return "(%s,)" % ", ".join(a for a, _ in items), "(ET %s)" % lst([b for _, b in items])


def check_constant_holders(run):
    rng = run.rng
    gen = Gen(rng, run)
    cases = []
    for i in range(1400 if run.tier == "thorough" else 140):
        try:
            tsrc, tcoq = holder_tuple(rng, gen)
        except Unrepresentable:
            continue
        e = gen.gen(rng.choice([0, 1]), rng.random() < 0.4)
        ps = to_source(e)
        k = i % 7
        model = None
        if k == 0:
            inner, model = "iso.PDict({'note': %s})" % tsrc, tcoq
        elif k == 1:
            inner = "iso.PDict({'note': %s, 'amp': %d, 'dur': %s})" % (tsrc, rng.randint(1, 9), ps)
        elif k == 2:
            inner = "(iso.PConstant(%s) + %d)" % (ps, rng.randint(1, 100))
        elif k == 3:
            inner = "iso.PArrayIndex(iso.Pattern.pattern(%s), iso.PSequence(%r))" % (tsrc, [rng.randint(0, 1) for _ in range(3)])
        elif k == 4:
            inner = "iso.PSequence([iso.PConstant(%s), %d], %d)" % (tsrc, rng.randint(0, 9), rng.randint(2, 4))
        elif k == 5:
            inner = "iso.PDictKey(iso.PDict({'note': %s, 'x': 1}), 'note')" % tsrc
        else:
            inner = "iso.PAbs(iso.PConstant(%s))" % ps
        ops = ["next"] * rng.choice([1, 1, 2, 3, 5, 8]) + [["reset"]] + ["next"] * rng.randint(2, 6)
        x = rng.random()
        if x < 0.3:
            ops += [["reset"], ["reset"]] + ["next"] * rng.randint(1, 4)
        elif x < 0.5:
            ops += [["all", rng.randint(1, 5)]] + ["next"] * rng.randint(1, 4)
        cases.append({"cls": "PConstant", "form": ["PDict-one-key", "PDict", "operand", "PArrayIndex-list", "PSequence-item", "PDictKey", "PAbs"][k],
                      "inner": inner, "objs": None, "wrap": None, "setup": [], "ops": ops, "stochastic": False, "record": False,
                      "refs": [{"setup": [], "n": S_REFN}], "model": model})
    shards = 8
    parts = [cases[i::shards] for i in range(shards) if cases[i::shards]]
    outs = {}
    for part, res in zip(parts, run.impl_parallel("c04_impl", [{"cases": [{k: c[k] for k in CASE_KEYS} for c in part]} for part in parts])):
        for c, r in zip(part, res["cases"]):
            outs[id(c)] = r
    devs, terms, owners = [], [], []
    for c in cases:
        out = outs[id(c)]
        run.count(); run.dist("stream.constant-holders"); run.dist("holder." + c["form"])
        try:
            dev = seeded_judge(c, out)
        except CannotJudge as e:
            run.discard("holders: " + str(e)); continue
        run.cov["oracle_evaluations"] += len(out["events"])
        run.nontrivial("holder " + c["inner"] + repr(c["ops"]))
        if dev is not None:
            devs.append((len(c["inner"]) + len(c["ops"]), len(devs), c, out, dev))
            continue
        if c["model"] and not any(isinstance(o, list) and o[0] == "all" for o in c["ops"]):
            try:
                exp = []
                for op, o in zip(c["ops"], out["events"]):
                    if op == "next" and isinstance(o, dict) and "y" in o:
                        exp.append(obs_coq({"y": to_json(from_json(o["y"])["note"])}))
                    else:
                        exp.append(obs_coq(o))
                terms.append("hcheck Val.binop LMAX FUEL %s %s %s" % (c["model"], lst([blit(op == "next") for op in c["ops"]]), lst(exp)))
                owners.append((c, out))
            except (Unrepresentable, KeyError, TypeError):
                run.discard("holders model: unrepresentable")
    reported = set()
    for _, _, c, out, dev in sorted(devs, key=lambda t: t[:2]):
        if c["form"] in reported or len(reported) >= 4:
            continue
        reported.add(c["form"])
        run.violation({"kind": "reset", "class": "PConstant", "held-by": c["form"], "stratum": "pattern-held-by-a-PConstant"}, {
            "case": {"seeded": {k2: c.get(k2) for k2 in DOC_KEYS}},
            "expected": "clean segment %d (after reset()/all()), output %d: %s  [what a newly constructed instance produces]" % (dev["segment"], dev["index"], dev["expected"]),
            "observed": dev["observed"], "segment_outputs": dev["segment_outputs"], "reference_outputs": dev["reference_outputs"],
            "python": seeded_snippet(c)})
    codes = []

    def one(i0):
        srcc = HOLDER_HEADER + "\nDefinition results : list nat := [\n" + ";\n".join(terms[i0:i0 + 40]) + "\n].\nEval vm_compute in results.\n"
        return parse_nat_list(run.coqc_text("holder%d" % i0, srcc, timeout=300))
    with ThreadPoolExecutor(max_workers=4) as ex:
        for r in ex.map(one, range(0, len(terms), 40)):
            codes.extend(r)
    run.cov["constant_holder_model_comparisons"] = len(terms)
    bad = False
    for (c, out), k in zip(owners, codes):
        if k == 0:
            run.cov["traces_validated_against_impl"] += 1
        elif k == 2:
            run.discard("holders model: Inexact/OutOfFuel")
        elif not bad:
            bad = True
            run.violation({"kind": "correspondence", "class": "PConstant", "model": "Pat/ConstHolder.v"}, {
                "broken": "correspondence Pat/ConstHolder.v (hvalue / hreset: a PConstant holding a tuple with patterns, read by Pattern.value) vs the "
                          "implementation: C04_constant_holder_rewinds no longer speaks about this code",
                "case": {"seeded": {k2: c.get(k2) for k2 in DOC_KEYS}}, "observed": [pretty_obs(o) for o in out["events"]],
                "python": seeded_snippet(c)}, found_input=False)


META["text"] += (" Patterns and tuples-with-patterns held by a PConstant (Pattern.pattern() wraps PDict values and operands; the consumer's "
                 "Pattern.value() advances what is inside): Pat/ConstHolder.v, C04_constant_holder_rewinds (after any number of reads reset() gives what "
                 "it gives on the untouched holder, for every argument of the fragment xarg - tuples to any depth), tied to the repository by the "
                 "constant-holders stratum (PDict values, operands, PArrayIndex lists, PSequence items, PDictKey, PAbs).")


META["text"] += (" Argument-less seed() / seed(None) anywhere in a history (Pat/SeededEntropy.v: the module-level generator the seed is taken from is data, "
                 "any list of values): the history is the history with seed(s) for the values handed out, so reset() leaves the newly constructed instance with "
                 "the seed the call stored, and what is drawn after reset(); seed() - or after P(args).seed() - is drawn again after any later reset() "
                 "(Props/C04Entropy.v: C04_entropy_reset_is_fresh_instance, C04_entropy_reset_reproduces, C04_entropy_new_seeded_reproduces), tied to the repository "
                 "by the entropy-seeded stratum: every chance class, nests and wrappers, histories over next / reset / all / copy with seed() at rewound and consumed "
                 "points, judged without knowledge of the seed (all rewound runs of one era are prefixes of one sequence), recorded draws replayed through the model.")


def replay(run, doc):
    case = doc.get("case", {})
    if "entropy" in case:
        c = dict(case["entropy"], record=False)
        out = run.impl("c04_impl", {"cases": [{k: c.get(k) for k in CASE_KEYS + ("global_seed",)}]})["cases"][0]
        print("import random; random.seed(%r)" % c.get("global_seed")); print(seeded_snippet(c))
        print("observed:  ", out["events"])
        try:
            dev = entropy_judge(c, out)
        except CannotJudge as e:
            print("replay: cannot judge (%s)" % e)
            return 2
        if dev:
            print("REPLAY-FAILS:", {k: dev[k] for k in ("era", "index", "expected", "observed", "what", "how")})
            print("VIOLATION property=C04 replay=(replayed)")
            return 1
        print("replay: the property holds on this case")
        return 0
    if "seeded" in case:
        c = dict(case["seeded"], record=False)
        out = run.impl("c04_impl", {"cases": [{k: c.get(k) for k in CASE_KEYS}]})["cases"][0]
        print(seeded_snippet(c))
        print("observed:  ", [pretty_obs(o) for o in out["events"]])
        for r, obs in zip(c["refs"], out["refs"]):
            print("fresh %r: %s" % ([call_line(o) for o in r["setup"]], [pretty_obs(o) for o in obs[1:]]))
        try:
            dev = seeded_judge(c, out)
        except CannotJudge as e:
            print("replay: cannot judge (%s)" % e)
            return 2
        if dev:
            print("REPLAY-FAILS:", {k: dev[k] for k in ("segment", "index", "expected", "observed", "what")})
            print("VIOLATION property=C04 replay=(replayed)")
            return 1
        print("replay: the property holds on this case")
        return 0
    if "expr_json" not in case:
        print("replay: no concrete case recorded (%s)" % doc.get("broken", "?"))
        return 1
    c = Case(from_json(case["expr_json"]), [tuple(o) for o in case["ops"]])
    r = Case(c.expr, [("next", 0)] * REFN, "ref")
    run_impl(run, [c, r], shards=1)
    print("expression:", to_source(c.expr))
    print("observed:  ", c.obs_pretty())
    print("fresh:     ", r.obs_pretty())
    try:
        bad = judge(c, r)
    except CannotJudge as e:
        print("replay: cannot judge (%s)" % e)
        return 2
    if bad:
        print("REPLAY-FAILS:", bad)
        print("VIOLATION property=C04 replay=(replayed)")
        return 1
    print("replay: the property holds on this case")
    return 0

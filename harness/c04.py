"""C04 — reset() rewinds any pattern to its initial state.

Theorems: coq/Props/C04.v (reset after any history gives the state a new instance has, hence the same outputs;
repeated resets change nothing; all() leaves the pattern rewound).
Correspondence: scripts next^k; reset; next^n; reset; next^n; all; next^n on random expressions over every
modelled class (k = 0, 1, mid-block, exactly at and past exhaustion), implementation vs Coq model.
Oracle (implementation only): the outputs after reset() / all() equal the outputs of a freshly constructed
instance built from the same expression."""
from pat_common import *
from c09 import canon_obs, root_cls, sub_patterns, CannotJudge

PROP = "C04"
META = {
 "engine": "P-pattern-algebra",
 "text": "Coq theorems (Props/C04.v, closed under the global context) prove on the executable model of the pattern classes (Pat/Step.v: __init__, __next__, reset() incl. Pattern.reset's walk over vars(self)): for the reset fragment rpat (constants, sequences of scalars, series, ranges, geometric series, impulses, the 15 operators, &, abs, int, references, stutter, counter, pad, pad-to-multiple, skip-if, loop, ping-pong, reverse, subsequence, collapse, no-repeats, changed, diff, wrap, reset-on-trigger over a counter-state class, nested to any depth, parameters scalars or patterns of the fragment; proved closed under next(): C04_fragment_closed) reset() after ANY number of next() calls - including calls that raised StopIteration - yields exactly the state reset() yields on the untouched object, which for a newly constructed object is the object itself; hence the outputs after reset() are those of a new instance, repeated resets change nothing, and all() leaves the object rewound. The model is tied to the repository on every run by scripts next^k; reset; next^n; reset; next^n; all(m); next^n with k at 0, 1, block boundaries, exhaustion and beyond, on random expressions over every modelled class, compared inside Coq; an implementation-only oracle compares every post-reset output with a freshly constructed instance.",
 "note": "Open (C04_reset_erases_step_leaf_partial): PReset over nested patterns, PRound PIndexOf PArrayIndex PDict PDictKey PConcatenate and list-/tuple-/dict-valued parameters are covered by the correspondence and the oracle, not by the theorem. Trusted: Coq kernel + VM; the harness. Stochastic classes are the business of C11 (reseeding); here they are outside the model. Deterministic classes outside the model (PEuclidean PArpeggiator PNormalise PTri PSaw PPermut) are judged by the oracle only. Patterns stored inside tuples are not reached by Pattern.reset (the model transcribes that); the generator puts tuples of scalars only.",
}

REFN = 26
ORACLE_ONLY = ("PEuclidean", "PArpeggiator", "PNormalise", "PTri", "PSaw", "PPermut")


def oracle_only_expr(rng, gen):
    k = rng.choice(ORACLE_ONLY)
    if k == "PEuclidean":
        n = rng.randint(1, 8)
        return E(k, rng.randint(0, n), n, rng.randint(0, n - 1))        # PEuclidean(onsets <= steps, steps, phase < steps)
    if k == "PArpeggiator":
        return E(k, [rng.randint(0, 12) for _ in range(rng.randint(1, 5))], rng.randint(0, 3))
    if k == "PNormalise":
        return E(k, gen.gen(1, rng.random() < 0.7))
    if k in ("PTri", "PSaw"):
        return E(k, rng.randint(1, 8), 0.0, float(rng.randint(1, 4)))
    return E(k, gen.gen(1, True), rng.randint(1, 3))


def script(rng, first_stop):
    """next^k; reset; next^n; reset; next^n; all(m); next^n"""
    ks = [0, 1, rng.randint(0, 6), rng.randint(2, 12)]
    if first_stop is not None:
        ks += [first_stop, first_stop + 1, first_stop + 3, max(0, first_stop - 1)]
    k = min(rng.choice(ks), REFN - 2)
    n = rng.randint(2, 7)
    ops = [("next", 0)] * k + [("reset", 0)] + [("next", 0)] * n
    r = rng.random()
    if r < 0.5:
        ops += [("reset", 0)] + [("next", 0)] * rng.randint(1, 4)
    if r < 0.25 or r > 0.75:
        ops += [("nextn", 0, rng.randint(0, 4)), ("all", 0, rng.randint(0, 6))] + [("next", 0)] * rng.randint(1, 4)
    elif r > 0.6:
        ops += [("reset", 0), ("reset", 0)] + [("next", 0)] * 3
    return ops, k


def expected(ref, ops):
    """what a pattern that rewinds to its initial state produces, from the outputs `ref` of a fresh instance"""
    pos, out = 0, []

    def call():
        nonlocal pos
        if pos >= len(ref):
            raise CannotJudge("reference run too short")
        o = ref[pos]; pos += 1
        return o
    for op in ops:
        k = op[0]
        if k == "next":
            out.append(call())
        elif k == "reset":
            out.append({"y": None}); pos = 0
        elif k in ("nextn", "all"):
            vals = []
            while len(vals) < op[2]:
                o = call()
                if o == "stop":
                    break
                if "r" in o:
                    raise CannotJudge("exception inside a helper")
                vals.append(o["y"])
            out.append({"y": {"l": vals}})
            if k == "all":
                pos = 0
    return out


def judge(c, ref):
    want = expected(ref.obs[1:], c.ops)
    got = c.obs[1:]
    for i, w in enumerate(want):
        if i >= len(got) or canon_obs(got[i]) != canon_obs(w):
            return {"op": i, "opname": c.ops[i][0], "expected": canon_obs(w), "observed": canon_obs(got[i]) if i < len(got) else "nothing"}
    return None


def check(run):
    rng = run.rng
    thorough = run.tier == "thorough"
    sigs = run.impl("pat_impl", {"signatures": list(REGISTRY)})["signatures"]
    stale = {cls for cls, _ in check_registry(run, sigs)}
    run.cov["registry_mismatches"] = sorted(stale)
    gen = Gen(rng, run)
    classes = list(GENERATORS)
    exprs = []
    for i in range(36000 if thorough else 2600):
        depth = 1 + (i % 3) if rng.random() >= 0.05 else 5
        cls = classes[i % len(classes)] if rng.random() < 0.75 else None
        e = gen.gen(depth, rng.random() < 0.6, cls)
        if rng.random() < 0.06:
            e = oracle_only_expr(rng, gen)
            if rng.random() < 0.3:
                e = E("PAdd", e, 1)
        exprs.append(e)
    refs = {}
    for e in exprs:
        refs.setdefault(to_source(e), Case(e, [("next", 0)] * REFN, "ref"))
    run_impl(run, list(refs.values()))
    cases = []
    for e in exprs:
        r = refs[to_source(e)]
        if r.status or not r.obs or canon_obs(r.obs[0]) != "value null":
            run.count(); run.discard("constructor raised / timeout"); continue
        stops = [i for i, o in enumerate(r.obs[1:]) if o == "stop"]
        ops, k = script(rng, stops[0] if stops else None)
        cases.append(Case(e, ops, "reset", {"k": k, "first_stop": stops[0] if stops else None}))
    run_impl(run, cases)

    reported = [0]
    for c in cases:
        run.count(); run.dist("root." + root_cls(c.expr))
        fs, k = c.meta["first_stop"], c.meta["k"]
        run.dist("prefix." + ("0" if k == 0 else "1" if k == 1 else "past-exhaustion" if fs is not None and k > fs
                              else "at-exhaustion" if fs is not None and k == fs else "mid"))
        if c.status:
            run.discard("impl-" + c.status); continue
        r = refs[to_source(c.expr)]
        try:
            dev = judge(c, r)
        except CannotJudge as e:
            run.discard("oracle: " + str(e)); continue
        run.cov["oracle_evaluations"] += len(c.obs)
        # non-trivial: something was consumed before the reset and continuing without it would look different
        n = sum(1 for o in c.ops[k + 1:] if o[0] == "next")
        if k > 0 and [canon_obs(o) for o in r.obs[1 + k:1 + k + 3]] != [canon_obs(o) for o in r.obs[1:4]]:
            run.nontrivial(to_source(c.expr) + " k=%d" % k)
        if dev is None:
            continue
        reported[0] += 1
        if reported[0] > 8:
            continue
        # the smallest sub-pattern that itself fails names the class
        best = c
        if reported[0] <= 4:
            subs = [Case(sp, c.ops, "sub") for sp in sub_patterns(c.expr)]
            subrefs = [Case(sp, [("next", 0)] * REFN, "ref") for sp in sub_patterns(c.expr)]
            if subs:
                run_impl(run, subs + subrefs, shards=4)
                for s, sr in sorted(zip(subs, subrefs), key=lambda p: size(p[0].expr)):
                    try:
                        if not s.status and not sr.status and len(sr.obs) > 1 and judge(s, sr) is not None:
                            best, r = s, sr
                            break
                    except CannotJudge:
                        pass
        dev = judge(best, r)
        run.violation({"kind": "reset", "class": root_cls(best.expr), "after": dev["opname"]}, {
            "case": {"expr": to_source(best.expr), "expr_json": to_json(best.expr), "ops": [list(o) for o in best.ops]},
            "expected": "operation %d (%s): %s  [what a newly constructed instance produces]" % (dev["op"], dev["opname"], dev["expected"]),
            "observed": dev["observed"], "observed_outputs": best.obs_pretty(),
            "fresh_instance_outputs": r.obs_pretty(),
            "python": replay_snippet(best.expr, best.ops[:dev["op"] + 1])})

    # ---- model
    allc = [c for c in cases if not (stale and any(isinstance(n, E) and n.cls in stale for _, n in nodes(c.expr)))]
    run_model(run, allc)
    for c in allc:
        if c.verdict == "discard":
            run.discard((c.status or "?").split(":")[0])
        elif c.verdict == "agree":
            run.cov["traces_validated_against_impl"] += 1
    seen = set()
    for c in [c for c in allc if c.verdict == "disagree"][:2]:
        small = shrink(run, c, rounds=4)
        sig = {"kind": "correspondence", "class": root_cls(small.expr)}
        if json.dumps(sig) in seen:
            continue
        seen.add(json.dumps(sig))
        run.violation(sig, {
            "broken": "correspondence Pat/Step.v (reset / step / init) vs the implementation on %s: the theorems of Props/C04.v no longer speak about this code" % root_cls(small.expr),
            "case": {"expr": to_source(small.expr), "expr_json": to_json(small.expr), "ops": [list(o) for o in small.ops]},
            "observed": small.obs_pretty(), "model": model_trace(run, small),
            "python": replay_snippet(small.expr, small.ops)}, found_input=False)
    if cases:
        run.sample({"expr": to_source(cases[0].expr), "ops": [list(o) for o in cases[0].ops], "observed": cases[0].obs_pretty()})
    run.cov["rule"] = ("one case = one expression + one script next^k; reset; next^n; [reset; next^n;] [nextn; all; next^n]; "
                       "non-trivial = k > 0 and the un-reset continuation differs from the start of the sequence (a no-op reset would be seen)")


def replay(run, doc):
    case = doc.get("case", {})
    if "expr_json" not in case:
        print("replay: no concrete case recorded (%s)" % doc.get("broken", "?"))
        return 1
    c = Case(from_json(case["expr_json"]), [tuple(o) for o in case["ops"]])
    r = Case(c.expr, [("next", 0)] * REFN, "ref")
    run_impl(run, [c, r], shards=1)
    print("expression:", to_source(c.expr))
    print("observed:  ", c.obs_pretty())
    print("fresh:     ", r.obs_pretty())
    try:
        bad = judge(c, r)
    except CannotJudge as e:
        print("replay: cannot judge (%s)" % e)
        return 2
    if bad:
        print("REPLAY-FAILS:", bad)
        print("VIOLATION property=C04 replay=(replayed)")
        return 1
    print("replay: the property holds on this case")
    return 0
